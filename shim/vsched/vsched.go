// Package vsched is a deterministic cooperative scheduler for logical threads.
//
// It is overlaid into the golib import namespace (…/zzverifshim/vsched) together
// with vatomic and vsync, which call Yield around every atomic operation and at
// every lock operation. Exactly one logical thread runs between two yields and
// the *test* decides who runs next, so an execution is a pure function of the
// per-thread programs and the Chooser (DESIGN.md §3.3).
package vsched

import (
	"fmt"
	"runtime"
	"runtime/debug"
)

// Chooser decides which thread runs next. cur is the thread that just yielded
// (-1 at the start, or if it finished / cannot continue), eligible the threads
// that may run (never empty), curOK whether cur itself is among them.
type Chooser interface {
	Choose(cur int, curOK bool, eligible []int) int
}

type thread struct {
	id      int
	name    string
	fn      func()
	wake    chan struct{}
	done    bool
	blocked func() bool // non-nil: parked until it returns true
	spun    bool        // called Gosched and no other thread has stepped since
	spins   int         // consecutive Gosched calls within spinEpoch
	spinEp  uint64
	steps   int
}

// Result of one controlled execution.
type Result struct {
	Err           error // deadlock / no progress / panic in a thread
	Budget        bool  // step budget exhausted (inconclusive, not a violation)
	Steps         int
	Switches      int // context switches while the previous thread could have continued
	SwitchAfterOK int // …of which directly after a successful CAS/Swap/Add by the pre-empted thread
	Trace         []int
}

type Sched struct {
	threads  []*thread
	ch       Chooser
	cur      *thread
	steps    int
	maxSteps int
	epoch    uint64 // incremented by every write through vatomic
	aborted  bool
	finished chan struct{}
	res      Result
	lastOK   bool // the current thread's last atomic op was a successful RMW
	atomicN  int  // >0: inside Atomic(), yields are suppressed
	trace    bool
}

var active *Sched
var ticks int64

// Tick returns a strictly increasing event number (harness history timestamps).
func Tick() int64 { ticks++; return ticks }

// ResetTick restarts the event numbering (called by the harness at the start of
// every execution so that failure messages are reproducible).
func ResetTick() { ticks = 0 }

func New(ch Chooser, maxSteps int) *Sched {
	return &Sched{ch: ch, maxSteps: maxSteps, finished: make(chan struct{})}
}

func (s *Sched) KeepTrace() { s.trace = true }

func (s *Sched) Go(name string, fn func()) {
	s.threads = append(s.threads, &thread{id: len(s.threads), name: name, fn: fn, wake: make(chan struct{})})
}

type abortSignal struct{}

func (s *Sched) Run() Result {
	if active != nil {
		panic("vsched: nested Run")
	}
	if len(s.threads) == 0 {
		return s.res
	}
	active = s
	for _, t := range s.threads {
		t := t
		go func() {
			<-t.wake
			defer func() {
				if p := recover(); p != nil {
					if _, ok := p.(abortSignal); !ok && s.res.Err == nil {
						s.res.Err = fmt.Errorf("panic in thread %s: %v\n%s", t.name, p, debug.Stack())
					}
				}
				t.done = true
				if s.aborted {
					s.killNext()
					return
				}
				s.switchFrom(t, true)
			}()
			if s.aborted {
				panic(abortSignal{})
			}
			t.fn()
		}()
	}
	first := s.pick(nil)
	s.cur = first
	first.wake <- struct{}{}
	<-s.finished
	active = nil
	s.res.Steps = s.steps
	return s.res
}

func (s *Sched) runnable(t *thread) bool {
	return !t.done && (t.blocked == nil || t.blocked())
}

// pick chooses the next thread; from is the yielding thread (nil at start / when it finished).
func (s *Sched) pick(from *thread) *thread {
	var eligible, runnable []int
	for _, t := range s.threads {
		if s.runnable(t) {
			runnable = append(runnable, t.id)
			// a thread that gave way in a retry loop sees nothing new until somebody
			// writes: re-running it earlier would only repeat the same iteration
			if !(t.spun && t.spinEp == s.epoch) {
				eligible = append(eligible, t.id)
			}
		}
	}
	if len(runnable) == 0 {
		return nil
	}
	if len(eligible) == 0 {
		// every runnable thread has spun: no progress if each completed a whole
		// spin iteration (two consecutive Gosched calls) with no write in between
		stuck := true
		for _, id := range runnable {
			t := s.threads[id]
			if !(t.spinEp == s.epoch && t.spins >= 2) {
				stuck = false
			}
		}
		if stuck {
			return nil
		}
		// let the one that is not the yielding thread go first (fair), else any
		for _, id := range runnable {
			if from == nil || id != from.id {
				eligible = append(eligible, id)
			}
		}
		if len(eligible) == 0 {
			eligible = runnable
		}
		// round robin among spinners: do not consult the chooser
		next := eligible[0]
		if from != nil {
			for _, id := range eligible {
				if id > from.id {
					next = id
					break
				}
			}
		}
		return s.threads[next]
	}
	cur, curOK := -1, false
	if from != nil {
		cur = from.id
		for _, id := range eligible {
			if id == cur {
				curOK = true
			}
		}
	}
	id := s.ch.Choose(cur, curOK, eligible)
	ok := false
	for _, e := range eligible {
		ok = ok || e == id
	}
	if !ok {
		id = eligible[0]
	}
	if curOK && id != cur {
		s.res.Switches++
		if s.lastOK {
			s.res.SwitchAfterOK++
		}
	}
	return s.threads[id]
}

// switchFrom hands the token from t to the next thread (t may have finished).
func (s *Sched) switchFrom(t *thread, finished bool) {
	s.steps++
	t.steps++
	if s.steps > s.maxSteps {
		s.res.Budget = true
		s.abort(t, finished)
		return
	}
	var from *thread
	if !finished {
		from = t
	}
	next := s.pick(from)
	if next == nil {
		alldone := true
		for _, x := range s.threads {
			alldone = alldone && x.done
		}
		if alldone {
			close(s.finished)
			return
		}
		if s.res.Err == nil {
			s.res.Err = fmt.Errorf("%s", s.stuckReport())
		}
		s.abort(t, finished)
		return
	}
	if next != t {
		s.lastOK = false
	}
	if s.trace {
		s.res.Trace = append(s.res.Trace, next.id)
	}
	if next == t {
		return
	}
	s.cur = next
	next.wake <- struct{}{}
	if finished {
		return
	}
	<-t.wake
	if s.aborted {
		panic(abortSignal{})
	}
}

func (s *Sched) stuckReport() string {
	blocked, spinning := 0, 0
	for _, t := range s.threads {
		if t.done {
			continue
		}
		if t.blocked != nil && !t.blocked() {
			blocked++
		} else {
			spinning++
		}
	}
	if spinning == 0 {
		return fmt.Sprintf("DEADLOCK: %d unfinished threads all blocked on locks", blocked)
	}
	return fmt.Sprintf("NO PROGRESS: %d unfinished threads spin (each completed a full retry iteration without any write happening), %d blocked", spinning, blocked)
}

// abort terminates the execution: every parked thread is woken and exits.
func (s *Sched) abort(t *thread, finished bool) {
	s.aborted = true
	if finished {
		s.killNext()
		return
	}
	panic(abortSignal{})
}

func (s *Sched) killNext() {
	for _, x := range s.threads {
		if !x.done {
			x.wake <- struct{}{}
			return
		}
	}
	close(s.finished)
}

// Yield is a scheduling point. No-op outside a controlled execution.
func Yield() {
	s := active
	if s == nil || s.atomicN > 0 {
		return
	}
	s.switchFrom(s.cur, false)
}

// Gosched replaces runtime.Gosched in the code under test: a retry loop gives way.
func Gosched() {
	s := active
	if s == nil {
		runtime.Gosched()
		return
	}
	if s.atomicN > 0 {
		panic("vsched: Gosched inside Atomic (the probed operation spins)")
	}
	t := s.cur
	if t.spinEp == s.epoch {
		t.spins++
	} else {
		t.spinEp, t.spins = s.epoch, 1
	}
	t.spun = true
	s.switchFrom(t, false)
}

// Wrote is called by vatomic after every store / successful RMW.
func Wrote(rmwOK bool) {
	if s := active; s != nil {
		s.epoch++
		s.lastOK = rmwOK
	}
}

// Read is called by vatomic after loads and failed CAS.
func Read() {
	if s := active; s != nil {
		s.lastOK = false
	}
}

// Block parks the current thread until cond() holds (cooperative locks).
func Block(cond func() bool) {
	s := active
	if s == nil {
		if !cond() {
			panic("vsched: blocking outside a controlled execution would deadlock")
		}
		return
	}
	for !cond() {
		if s.atomicN > 0 {
			panic("vsched: blocking inside Atomic")
		}
		t := s.cur
		t.blocked = cond
		s.switchFrom(t, false)
		t.blocked = nil
	}
}

// Atomic runs f without any interleaving (used by harness probes only).
func Atomic(f func()) {
	s := active
	if s == nil {
		f()
		return
	}
	s.atomicN++
	defer func() { s.atomicN-- }()
	f()
}

// Current returns the id of the running logical thread (-1 outside an execution).
func Current() int {
	if s := active; s != nil && s.cur != nil {
		return s.cur.id
	}
	return -1
}

// Active reports whether a controlled execution is in progress.
func Active() bool { return active != nil }
