// Package vsync replaces "sync" in the code under test for controlled-schedule
// runs: Mutex and RWMutex are cooperative (blocking in vsched), everything else
// is the real thing. The RWMutex has no writer preference: a superset of the
// real behaviours that preserves mutual exclusion, so atomicity violations are
// never invented.
package vsync

import (
	"sync"

	"github.com/welllog/golib/zzverifshim/vsched"
)

type (
	WaitGroup = sync.WaitGroup
	Once      = sync.Once
	Pool      = sync.Pool
	Map       = sync.Map
	Cond      = sync.Cond
	Locker    = sync.Locker
)

func NewCond(l Locker) *Cond { return sync.NewCond(l) }

func OnceFunc(f func()) func() { return sync.OnceFunc(f) }

type Mutex struct{ locked bool }

func (m *Mutex) Lock() {
	vsched.Yield()
	vsched.Block(func() bool { return !m.locked })
	m.locked = true
	vsched.Wrote(false)
}

func (m *Mutex) TryLock() bool {
	vsched.Yield()
	if m.locked {
		return false
	}
	m.locked = true
	vsched.Wrote(false)
	return true
}

func (m *Mutex) Unlock() {
	if !m.locked {
		panic("vsync: unlock of unlocked mutex")
	}
	m.locked = false
	vsched.Wrote(false)
	vsched.Yield()
}

type RWMutex struct {
	writer  bool
	readers int
}

func (m *RWMutex) Lock() {
	vsched.Yield()
	vsched.Block(func() bool { return !m.writer && m.readers == 0 })
	m.writer = true
	vsched.Wrote(false)
}

func (m *RWMutex) TryLock() bool {
	vsched.Yield()
	if m.writer || m.readers > 0 {
		return false
	}
	m.writer = true
	vsched.Wrote(false)
	return true
}

func (m *RWMutex) Unlock() {
	if !m.writer {
		panic("vsync: Unlock of unlocked RWMutex")
	}
	m.writer = false
	vsched.Wrote(false)
	vsched.Yield()
}

func (m *RWMutex) RLock() {
	vsched.Yield()
	vsched.Block(func() bool { return !m.writer })
	m.readers++
	vsched.Wrote(false)
}

func (m *RWMutex) TryRLock() bool {
	vsched.Yield()
	if m.writer {
		return false
	}
	m.readers++
	vsched.Wrote(false)
	return true
}

func (m *RWMutex) RUnlock() {
	if m.readers <= 0 {
		panic("vsync: RUnlock of unlocked RWMutex")
	}
	m.readers--
	vsched.Wrote(false)
	vsched.Yield()
}

func (m *RWMutex) RLocker() Locker { return rlocker{m} }

type rlocker struct{ m *RWMutex }

func (r rlocker) Lock()   { r.m.RLock() }
func (r rlocker) Unlock() { r.m.RUnlock() }
