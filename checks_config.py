"""Per-property job tables for the driver (see DESIGN.md §3.2, §4).

A job runs one compiled test binary: mode plain|race|sched, -test.run regex,
number of shards (OS processes with distinct seeds), scale (case-count
multiplier applied to each sub-check's base count), timeout in seconds.
"""


def rapid_jobs(qshards=8, qscale=2.0, tshards=16, tscale=10.0, qtimeout=300, ttimeout=2400):
    return (
        {"jobs": [dict(name="props", mode="plain", run="^TestProps$", shards=qshards, scale=qscale, timeout=qtimeout)]},
        {"jobs": [dict(name="props", mode="plain", run="^TestProps$", shards=tshards, scale=tscale, timeout=ttimeout)]},
    )


def fuzz_job(name, secs):
    return dict(name="fuzz_" + name, mode="plain", run="^$", shards=1, timeout=secs + 120,
                args=["-test.fuzz", "^" + name + "$", "-test.fuzztime", "%ds" % secs, "-test.fuzzcachedir", "fuzzcache", "-test.parallel", "8"])


PROPS = {}


# sub-checks that declared themselves safe for it (pb.Options.Twins) are also run with every case executed by three
# goroutines at once, each on objects of its own, under the race detector: independent objects share nothing, so any
# report or failure there is state shared behind the scenes (package-level buffers, pools, random sources)
TWINS = {"VERIF_TWINS_ONLY": "1", "VERIF_TWINS_EVERY": "1"}


# every property: the rapid sub-checks once more at a small scale with GOMAXPROCS varied per case (pb.flipProcs), in one
# process started with GOMAXPROCS=1 and one started with the default; under the race detector where the property is
# about concurrent use
PROCS_MODE = {"C01": "race", "C11": "race", "C12": "race", "C19": "plain"}
PROCS_RUN = {"C01": "^(TestRaced|TestRacedLoops)$", "C11": "^(TestRaced|TestRacedLoops)$", "C12": "^(TestRaced|TestRacedLoops)$", "C19": "^TestLimiter$"}


ARCH32 = {"C02", "C03", "C04", "C05", "C06", "C07", "C08", "C09", "C10", "C13", "C14", "C15", "C16", "C17", "C18", "C20"}


def add(pid, pkg, quick, thorough, twins=False, **kw):
    mode = PROCS_MODE.get(pid, "plain")
    for tier, sc, to in ((quick, 0.1, 600), (thorough, 1.0, 3000)):
        run = PROCS_RUN.get(pid, "^TestProps$")
        if pid in PROCS_RUN:
            sc *= 3
        tier["jobs"].append(dict(name="procs1", mode=mode, run=run, shards=1, scale=sc, timeout=to, env={"VERIF_PROCS_FLIP": "1", "GOMAXPROCS": "1"}))
        tier["jobs"].append(dict(name="procsN", mode=mode, run=run, shards=1, scale=sc, timeout=to, env={"VERIF_PROCS_FLIP": "1"}))
    if pid in ("C01", "C11", "C12"):
        # the controlled-schedule sub-checks as well (there the interleaving does not depend on the processors, so a code
        # path taken only for a particular GOMAXPROCS value is explored under every generated schedule)
        for tier, sc, to in ((quick, 0.5, 600), (thorough, 8.0, 3000)):
            tier["jobs"].append(dict(name="sched_procs1", mode="sched", run="^TestProps$", shards=1, scale=sc, timeout=to, env={"VERIF_PROCS_FLIP": "1", "GOMAXPROCS": "1"}))
            tier["jobs"].append(dict(name="sched_procsN", mode="sched", run="^TestProps$", shards=1, scale=sc, timeout=to, env={"VERIF_PROCS_FLIP": "1"}))
    if pid in ARCH32:
        # the sequential sub-checks once more in a binary built for linux/386 (32-bit int / uint / uintptr)
        quick["jobs"].append(dict(name="arch32", mode="plain386", run="^TestProps$", shards=1, scale=0.1, timeout=600))
        thorough["jobs"].append(dict(name="arch32", mode="plain386", run="^TestProps$", shards=2, scale=1.0, timeout=3000))
    if twins:
        quick["jobs"].append(dict(name="twins", mode="race", run="^TestProps$", shards=1, scale=0.02, timeout=600, env=dict(TWINS)))
        thorough["jobs"].append(dict(name="twins", mode="race", run="^TestProps$", shards=4, scale=0.5, timeout=3000, env=dict(TWINS)))
    PROPS[pid] = dict(pkg=pkg, quick=quick, thorough=thorough, **kw)


# ---- C20 randz -----------------------------------------------------------------
q, t = rapid_jobs(tshards=16, tscale=150)
q["jobs"].append(dict(name="exh", mode="plain", run="^TestExhaustive$", shards=1, timeout=300))
t["jobs"].append(dict(name="exh", mode="plain", run="^TestExhaustive$", shards=1, timeout=600))
for _tier in (q, t):
    _tier["jobs"].append(dict(name="firstops", mode="plain", run="^TestFirstOps$", shards=1, timeout=300))
add("C20", "c20", q, t, twins=True)

ASSUMPTIONS = {
    "*": [
        "Go toolchain, runtime, standard library (incl. crypto/*, strconv, encoding/*, container/*) and pgregory.net/rapid v1.3.0 are trusted",
        "a green run means no counter-example among the generated/enumerated cases of the stated shape; it does not establish absence",
    ],
    "C20": ["time.Since is monotonic within one process (bracketing oracle for IdGenerator)"],
}

# ---- C07 escape codecs ---------------------------------------------------------
q, t = rapid_jobs(tshards=16, tscale=150)
q["jobs"].append(dict(name="exh", mode="plain", run="^TestExhaustive$", shards=1, timeout=300))
t["jobs"].append(dict(name="exh", mode="plain", run="^TestExhaustive$", shards=1, timeout=1200))
t["jobs"].append(fuzz_job("FuzzEscapes", 180))
add("C07", "c07", q, t, twins=True)

# ---- C17 rune-aware helpers ----------------------------------------------------
q, t = rapid_jobs(tshards=16, tscale=100)
t["jobs"].append(fuzz_job("FuzzStrs", 150))
add("C17", "c17", q, t, twins=True)

# ---- C15 std re-implementations -----------------------------------------------
q, t = rapid_jobs(tshards=16, tscale=60)
t["jobs"].append(dict(name="ipv4all", mode="plain", run="^TestIPv4All$", shards=16, timeout=3000, env={"VERIF_NSHARDS": 16}))
t["jobs"].append(fuzz_job("FuzzParseUint", 150))
t["jobs"].append(fuzz_job("FuzzHex", 90))
add("C15", "c15", q, t, twins=True)

# ---- C08 AES helpers -----------------------------------------------------------
q, t = rapid_jobs(tshards=16, tscale=200)
t["jobs"].append(fuzz_job("FuzzUnpad", 150))
for _tier in (q, t):
    _tier["jobs"].append(dict(name="firstops", mode="plain", run="^(TestFirstOps|TestPadSweep)$", shards=1, timeout=300))
add("C08", "c08", q, t, twins=True)

# ---- C09 secret-based encryption ----------------------------------------------
q, t = rapid_jobs(tshards=16, tscale=40)
t["jobs"].append(dict(name="openssl", mode="plain", run="^TestOpenSSL$", shards=1, scale=10, timeout=600))
t["jobs"].append(fuzz_job("FuzzDecrypt", 180))
for _tier in (q, t):
    _tier["jobs"].append(dict(name="firstops", mode="plain", run="^TestFirstOps$", shards=1, timeout=300))
add("C09", "c09", q, t, twins=True)
ASSUMPTIONS["C09"] = ["the harness' own EVP_BytesToKey(MD5,1)/AES-256-CBC/CTR/GCM reference (written from the OpenSSL definition on top of crypto/*) is correct; it is itself cross-checked against /usr/bin/openssl in the thorough tier when the binary is present"]

# ---- C02 skip lists ------------------------------------------------------------
q, t = rapid_jobs(tshards=16, tscale=80)
add("C02", "c02", q, t, twins=True)
ASSUMPTIONS["C02"] = ["tower heights are injected by replacing the list's private *rand.Rand through reflection; if that field disappears the check falls back to the list's own randomness and says so (class FALLBACK)",
                      "the very first insertion into a zero-value list draws its height from the list's own time-seeded source (lazy Init re-creates it); all later heights are case-controlled"]

# ---- C03 roaring bitmap / C16 bit sets ------------------------------------------
q, t = rapid_jobs(tshards=16, tscale=64)
add("C03", "c03", q, t, twins=True)
q, t = rapid_jobs(tshards=16, tscale=30)  # bits_huge allocates 256-512 MiB per case: 16 shards stay below 10 GiB
add("C16", "c16", q, t)

# ---- C04 heaps -------------------------------------------------------------------
q, t = rapid_jobs(tshards=16, tscale=80)
add("C04", "c04", q, t, twins=True)

# ---- C13 linked lists --------------------------------------------------------------
q, t = rapid_jobs(tshards=16, tscale=50)
add("C13", "c13", q, t, twins=True)

# ---- C14 slicez ---------------------------------------------------------------------
q, t = rapid_jobs(tshards=16, tscale=100)
add("C14", "c14", q, t, twins=True)

# ---- C10 rings, sequential -------------------------------------------------------------
q, t = rapid_jobs(tshards=12, tscale=60)
t["jobs"].append(dict(name="wrap", mode="plain", run="^TestWrapHonest$", shards=4, timeout=3000))
add("C10", "c10", q, t, twins=True)
ASSUMPTIONS["C10"] = ["quick tier reaches counter values near 2^32 with a reflection helper that writes the state k push/pop pairs would produce; the helper is validated against honest stepping in every run (sub-check fastforward_selfcheck) and skips itself if the struct layout changes; the thorough tier performs the >2^32 operations honestly"]

# ---- C05 / C06 trie ------------------------------------------------------------------------
q, t = rapid_jobs(tshards=16, tscale=150)
t["jobs"].append(fuzz_job("FuzzTrie", 200))
add("C05", "c05", q, t, twins=True)
q, t = rapid_jobs(tshards=16, tscale=150)
t["jobs"].append(fuzz_job("FuzzReplace", 200))
add("C06", "c06", q, t, twins=True)

# ---- C18 algz dp / graph ----------------------------------------------------------------------
q, t = rapid_jobs(tshards=16, tscale=100)
add("C18", "c18", q, t, twins=True)
ASSUMPTIONS["C18"] = ["the code under test iterates Go maps, whose order the harness cannot control: every case is executed 5 times in the same process; a failure that depends on one particular iteration order may need several replays to reappear"]

# ---- C11 SyncList (controlled schedules + race detector) ------------------------------------------
add("C11", "c11",
    {"jobs": [dict(name="sched", mode="sched", run="^TestProps$", shards=6, scale=2, timeout=600),
              dict(name="exh", mode="sched", run="^TestExhaustive$", shards=1, timeout=600),
              dict(name="race", mode="race", run="^TestRaced$", shards=3, scale=1, timeout=600),
              dict(name="loops", mode="race", run="^TestRacedLoops$", shards=2, scale=1, timeout=600),
              dict(name="types", mode="race", run="^(TestElementTypes|TestLongRun|TestElementsAcrossGC)$", shards=1, scale=1, timeout=600)]},
    {"jobs": [dict(name="sched", mode="sched", run="^TestProps$", shards=10, scale=80, timeout=3000),
              dict(name="types", mode="race", run="^(TestElementTypes|TestLongRun|TestElementsAcrossGC)$", shards=2, scale=8, timeout=3000),
              dict(name="exh", mode="sched", run="^TestExhaustive$", shards=1, timeout=3000),
              dict(name="race", mode="race", run="^TestRaced$", shards=3, scale=30, timeout=3000),
              dict(name="loops", mode="race", run="^TestRacedLoops$", shards=2, scale=15, timeout=3000)]},
    replay_modes=["sched", "race"])

# ---- C01 SyncRing (controlled schedules + race detector) ------------------------------------------
add("C01", "c01",
    {"jobs": [dict(name="sched", mode="sched", run="^TestProps$", shards=6, scale=2, timeout=600),
              dict(name="exh", mode="sched", run="^TestExhaustive$", shards=1, timeout=600),
              dict(name="race", mode="race", run="^TestRaced$", shards=3, scale=1, timeout=600),
              dict(name="loops", mode="race", run="^(TestRacedLoops|TestElementsAcrossGC)$", shards=2, scale=1, timeout=600)]},
    {"jobs": [dict(name="sched", mode="sched", run="^TestProps$", shards=10, scale=80, timeout=3000),
              dict(name="exh", mode="sched", run="^TestExhaustive$", shards=1, timeout=3000),
              dict(name="race", mode="race", run="^TestRaced$", shards=3, scale=30, timeout=3000),
              dict(name="loops", mode="race", run="^(TestRacedLoops|TestElementsAcrossGC)$", shards=2, scale=15, timeout=3000)]},
    replay_modes=["sched", "race"])

# ---- C12 SafeKV (controlled schedules + race detector) ------------------------------------------
add("C12", "c12",
    {"jobs": [dict(name="sched", mode="sched", run="^TestProps$", shards=6, scale=2, timeout=600),
              dict(name="exh", mode="sched", run="^TestExhaustive$", shards=1, timeout=600),
              dict(name="race", mode="race", run="^TestRaced$", shards=3, scale=1, timeout=600),
              dict(name="loops", mode="race", run="^TestRacedLoops$", shards=2, scale=1, timeout=600),
              dict(name="keytypes", mode="race", run="^(TestKeyTypes|TestPointerValues)$", shards=1, scale=1, timeout=600)]},
    {"jobs": [dict(name="sched", mode="sched", run="^TestProps$", shards=10, scale=100, timeout=3000),
              dict(name="keytypes", mode="race", run="^(TestKeyTypes|TestPointerValues)$", shards=2, scale=30, timeout=3000),
              dict(name="exh", mode="sched", run="^TestExhaustive$", shards=1, timeout=3000),
              dict(name="race", mode="race", run="^TestRaced$", shards=3, scale=30, timeout=3000),
              dict(name="loops", mode="race", run="^TestRacedLoops$", shards=2, scale=30, timeout=3000)]},
    replay_modes=["sched", "race"])

# ---- C19 Limiter (sampled schedules, plain and under the race detector) ---------------------------
add("C19", "c19",
    {"jobs": [dict(name="plain", mode="plain", run="^TestLimiter$", shards=6, scale=2, timeout=600),
              dict(name="race", mode="race", run="^TestLimiter$", shards=3, scale=1, timeout=600)]},
    {"jobs": [dict(name="plain", mode="plain", run="^TestLimiter$", shards=10, scale=20, timeout=3000),
              dict(name="race", mode="race", run="^TestLimiter$", shards=6, scale=8, timeout=3000)]},
    replay_modes=["plain", "race"])
