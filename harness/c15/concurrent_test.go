package c15

// The helpers are pure functions: a result must not depend on other goroutines using the same helpers at the
// same time (pooled hash states, shared output blocks).

import (
	"bytes"
	"crypto/sha256"
	"encoding/base64"
	"fmt"

	"github.com/welllog/golib/hashz"
	"github.com/welllog/golib/strz"
	"pgregory.net/rapid"

	"verif/harness/internal/g"
	"verif/harness/internal/pb"
)

type concCase struct{ Inputs []g.B } // bytes: JSON would not preserve invalid UTF-8 in strings

func genConc(t *rapid.T) concCase {
	c := concCase{}
	for _, s := range append(rapid.SliceOfN(g.Bytes(40), 2, 5).Draw(t, "inputs"), "", "00ff", "zz") {
		c.Inputs = append(c.Inputs, g.B(s))
	}
	return c
}

func runConc(c concCase, r *pb.Rec) error {
	if len(c.Inputs) > 16 {
		return nil
	}
	names := []string{"Md5ToString", "Sha1ToString", "Sha256ToString", "Sha512ToString", "HmacToString", "Sha256Stream", "HexEncodeToString", "HexDecodeToString", "Base64EncodeToString", "Base64DecodeToString", "ParseUint"}
	fns := []func(string) string{
		func(s string) string { return hashz.Md5ToString(s) },
		func(s string) string { return hashz.Sha1ToString(s) },
		func(s string) string { return hashz.Sha256ToString([]byte(s)) },
		func(s string) string { return hashz.Sha512ToString(s) },
		func(s string) string { return hashz.HmacToString("key", s, sha256.New) },
		func(s string) string {
			b, err := hashz.Sha256Stream(bytes.NewReader([]byte(s)))
			return fmt.Sprint(string(b), err)
		},
		func(s string) string { return strz.HexEncodeToString(s) },
		func(s string) string { v, err := strz.HexDecodeToString(s); return fmt.Sprint(v, err) },
		func(s string) string { return strz.Base64EncodeToString(s, base64.StdEncoding) },
		func(s string) string {
			v, err := strz.Base64DecodeToString(s, base64.StdEncoding)
			return fmt.Sprint(v, err)
		},
		func(s string) string { v, err := strz.ParseUint(s, 16, 64); return fmt.Sprint(v, err != nil) },
	}
	var inputs []string
	for _, b := range c.Inputs {
		inputs = append(inputs, string(b))
	}
	if err := pb.SameConcurrently(names, fns, inputs, 8, 25); err != nil {
		return err
	}
	r.NonTrivial()
	return nil
}

func init() {
	pb.Register("concurrent_callers", pb.Options{Base: 100,
		Rule: "4..8 byte strings; the digest, HMAC, stream, hex, base64 and ParseUint helpers are first evaluated one call at a time, then 8 goroutines repeat all calls 25 times concurrently; oracle: every concurrent result equals the result of the same call made alone; every case is non-trivial"},
		genConc, runConc)
}
