// C15 — Re-implemented standard routines agree with the Go standard library.
package c15

import (
	"bytes"
	"crypto/hmac"
	"crypto/md5"
	"crypto/sha1"
	"crypto/sha256"
	"crypto/sha512"
	"encoding/base64"
	"encoding/hex"
	"encoding/json"
	"errors"
	"fmt"
	"hash"
	"io"
	"math/big"
	"os"
	"strconv"
	"strings"
	"testing"

	"github.com/welllog/golib/hashz"
	"github.com/welllog/golib/strz"
	"pgregory.net/rapid"

	"verif/harness/internal/g"
	"verif/harness/internal/pb"
)

func TestMain(m *testing.M)   { pb.Main(m) }
func TestProps(t *testing.T)  { pb.RunProps(t) }
func TestReplay(t *testing.T) { pb.RunReplay(t) }

// ---------------------------------------------------------------- ParseUint

type puCase struct {
	S       g.B
	Base    int
	BitSize int
}

const digits = "0123456789abcdefghijklmnopqrstuvwxyz"

func genPU(t *rapid.T) puCase {
	c := puCase{
		Base:    rapid.OneOf(rapid.SampledFrom([]int{0, 0, 2, 8, 10, 16, 36}), rapid.IntRange(-1, 37)).Draw(t, "base"),
		BitSize: rapid.OneOf(rapid.SampledFrom([]int{0, 8, 16, 32, 64, 1, 63}), rapid.IntRange(-1, 65)).Draw(t, "bitSize"),
	}
	// digits are rendered in the *effective* base
	eff, prefix := c.Base, ""
	if c.Base == 0 {
		prefix = rapid.SampledFrom([]string{"", "", "0x", "0X", "0o", "0O", "0b", "0B", "0"}).Draw(t, "prefix")
		eff = map[string]int{"": 10, "0x": 16, "0X": 16, "0o": 8, "0O": 8, "0b": 2, "0B": 2, "0": 8}[prefix]
	}
	if eff < 2 || eff > 36 {
		eff = 10
	}
	bs := c.BitSize
	if bs == 0 {
		bs = strconv.IntSize
	}
	if bs < 1 || bs > 64 {
		bs = 64
	}
	var v *big.Int
	maxVal := new(big.Int).Sub(new(big.Int).Lsh(big.NewInt(1), uint(bs)), big.NewInt(1))
	max64 := new(big.Int).SetUint64(1<<64 - 1)
	switch rapid.IntRange(0, 5).Draw(t, "mag") {
	case 0: // around maxVal of the bit size
		v = new(big.Int).Add(maxVal, big.NewInt(int64(rapid.IntRange(-2, 2).Draw(t, "d"))))
	case 1: // around 2^64
		v = new(big.Int).Add(max64, big.NewInt(int64(rapid.IntRange(-2, 3).Draw(t, "d"))))
	case 2: // around cutoff*base: (maxUint64/base+1)*base
		cut := new(big.Int).Add(new(big.Int).Div(max64, big.NewInt(int64(eff))), big.NewInt(1))
		v = new(big.Int).Mul(cut, big.NewInt(int64(eff)))
		v.Add(v, big.NewInt(int64(rapid.IntRange(-2, 2).Draw(t, "d"))))
		if rapid.Bool().Draw(t, "cutonly") {
			v = new(big.Int).Add(cut, big.NewInt(int64(rapid.IntRange(-1, 1).Draw(t, "d2"))))
		}
	case 3: // much larger
		v = new(big.Int).Lsh(big.NewInt(int64(rapid.IntRange(1, 1000).Draw(t, "m"))), uint(rapid.IntRange(60, 80).Draw(t, "sh")))
	default:
		v = new(big.Int).SetUint64(rapid.Uint64().Draw(t, "u"))
		v.Rsh(v, uint(rapid.IntRange(0, 63).Draw(t, "shr")))
	}
	if v.Sign() < 0 {
		v.SetInt64(0)
	}
	body := []byte(v.Text(eff))
	// upper-case some letters
	for i := range body {
		if body[i] >= 'a' && rapid.IntRange(0, 3).Draw(t, "up") == 0 {
			body[i] -= 32
		}
	}
	// mutations: underscores, illegal digit, sign, leading zeros, empty
	switch rapid.IntRange(0, 9).Draw(t, "mut") {
	case 0:
		pos := rapid.IntRange(0, len(body)).Draw(t, "upos")
		body = append(body[:pos:pos], append([]byte("_"), body[pos:]...)...)
	case 1:
		for k := rapid.IntRange(1, 3).Draw(t, "nus"); k > 0 && len(body) > 1; k-- {
			pos := rapid.IntRange(1, len(body)-1).Draw(t, "upos")
			body = append(body[:pos:pos], append([]byte("_"), body[pos:]...)...)
		}
	case 2:
		pos := rapid.IntRange(0, len(body)-1).Draw(t, "dpos")
		body[pos] = rapid.SampledFrom([]byte(digits+"ABCXYZ +-.:/@[`{\xff\x00")).Draw(t, "bad")
	case 3:
		body = append([]byte(rapid.SampledFrom([]string{"+", "-", " ", "0", "00", "_"}).Draw(t, "lead")), body...)
	case 4:
		body = body[:0]
	case 5:
		body = append(body, rapid.SampledFrom([]string{"_", " ", "g", "z", "0", "8", "2"}).Draw(t, "tail")...)
	}
	c.S = append([]byte(prefix), body...)
	return c
}

// defined types that satisfy the library's ~string | ~[]byte constraints: results must not depend on whether
// the caller uses the predeclared type or one of its own.
type nstr string
type nbytes []byte

func runPU(c puCase, r *pb.Rec) error {
	s := g.Window(string(c.S), len(c.S)+c.Base)          // a window into a larger string: digits, letters, escapes as neighbours
	in, intact := g.WindowBytes(c.S, len(c.S)+c.BitSize) // a window into a larger array (spare capacity behind it)
	defer func() {
		if e := intact(); e != nil {
			panic(fmt.Sprintf("ParseUint(%q): %v", c.S, e))
		}
	}()
	want, werr := strconv.ParseUint(string(c.S), c.Base, c.BitSize)
	got, gerr := strz.ParseUint(s, c.Base, c.BitSize)
	gotB, gerrB := strz.ParseUint(in, c.Base, c.BitSize)
	if !bytes.Equal(in, c.S) {
		return fmt.Errorf("ParseUint modified its []byte input")
	}
	if got != want || (gerr == nil) != (werr == nil) {
		return fmt.Errorf("ParseUint(%q,%d,%d) = %d,%v; strconv: %d,%v", s, c.Base, c.BitSize, got, gerr, want, werr)
	}
	if gotB != got || (gerrB == nil) != (gerr == nil) {
		return fmt.Errorf("ParseUint differs for string and []byte on %q: %d,%v vs %d,%v", s, got, gerr, gotB, gerrB)
	}
	gotN, gerrN := strz.ParseUint(nstr(s), c.Base, c.BitSize)
	gotNB, gerrNB := strz.ParseUint(nbytes(in), c.Base, c.BitSize)
	if gotN != got || gotNB != got || (gerrN == nil) != (gerr == nil) || (gerrNB == nil) != (gerr == nil) {
		return fmt.Errorf("ParseUint differs for defined string/[]byte types on %q: %d,%v / %d,%v vs %d,%v", s, gotN, gerrN, gotNB, gerrNB, got, gerr)
	}
	us := bytes.IndexByte(c.S, '_') >= 0
	r.ClassIf(us, "underscore")
	r.ClassIf(us && werr == nil, "underscore accepted")
	if ne, ok := werr.(*strconv.NumError); ok && ne.Err == strconv.ErrRange {
		r.Class("out of range")
		r.NonTrivial()
	}
	r.ClassIf(werr == nil, "accepted")
	r.ClassIf(c.Base == 0 && len(c.S) > 1 && c.S[0] == '0', "base prefix")
	r.NonTrivialIf(us || (werr == nil && want > 1<<32))
	return nil
}

// ---------------------------------------------------------------- hex / base64

type encCase struct {
	Op  string // hexenc hexdec hexinplace b64
	S   g.B
	Enc int
}

var b64encs = []*base64.Encoding{base64.StdEncoding, base64.URLEncoding, base64.RawStdEncoding, base64.RawURLEncoding}

func genEnc(t *rapid.T) encCase {
	c := encCase{Op: rapid.SampledFrom([]string{"hexenc", "hexdec", "hexdec", "hexinplace", "b64enc", "b64dec"}).Draw(t, "op"), Enc: rapid.IntRange(0, 3).Draw(t, "enc")}
	raw := rapid.SliceOfN(rapid.Byte(), 0, 20).Draw(t, "raw")
	if rapid.IntRange(0, 19).Draw(t, "long") == 0 {
		raw = g.BytesLen(rapid.SampledFrom([]int{63, 64, 65, 255, 256, 257, 1023, 1024, 1025, 4096, 5000}).Draw(t, "longLen")).Draw(t, "longRaw")
	}
	// a wrong character is any byte value: fixed lists of "typical" bad characters miss whole classes (control bytes, 0x80..0xff)
	anyBad := func(label string, typical []byte) byte {
		if rapid.Bool().Draw(t, label+"Any") {
			return rapid.Byte().Draw(t, label+"Byte")
		}
		return rapid.SampledFrom(typical).Draw(t, label)
	}
	switch c.Op {
	case "hexenc", "b64enc":
		c.S = raw
	case "hexdec", "hexinplace":
		s := []byte(hex.EncodeToString(raw))
		for i := range s {
			if s[i] >= 'a' && rapid.Bool().Draw(t, "up") {
				s[i] -= 32
			}
		}
		switch rapid.IntRange(0, 6).Draw(t, "mut") {
		case 0:
			if len(s) > 0 {
				s = s[:rapid.IntRange(0, len(s)-1).Draw(t, "cut")]
			}
		case 1:
			if len(s) > 0 {
				s[rapid.IntRange(0, len(s)-1).Draw(t, "pos")] = anyBad("bad", []byte("gG/:@`\x00\xff "))
			}
		case 3: // two adjacent bad characters (both halves of one pair, or straddling two pairs)
			if len(s) >= 2 {
				i := rapid.IntRange(0, len(s)-2).Draw(t, "pos")
				s[i] = anyBad("bad1", []byte("xgG:\r \x00\xff"))
				s[i+1] = anyBad("bad2", []byte("yzZ/\n@\x01\xfe"))
			}
		case 4: // short strings over a hostile alphabet
			s = []byte(rapid.StringOfN(rapid.RuneFrom([]rune("0123456789abcdefABCDEFxXgG \r\n:")), 0, 6, -1).Draw(t, "hostile"))
		case 2: // odd length with an invalid last or earlier char
			s = append(s, rapid.SampledFrom([]byte("0afgZ")).Draw(t, "odd"))
			if len(s) > 1 && rapid.Bool().Draw(t, "alsobad") {
				s[rapid.IntRange(0, len(s)-1).Draw(t, "pos")] = 'x'
			}
		}
		c.S = s
	case "b64dec":
		s := []byte(b64encs[c.Enc].EncodeToString(raw))
		switch rapid.IntRange(0, 4).Draw(t, "mut") {
		case 0:
			if len(s) > 0 {
				s = s[:rapid.IntRange(0, len(s)-1).Draw(t, "cut")]
			}
		case 1:
			if len(s) > 0 {
				s[rapid.IntRange(0, len(s)-1).Draw(t, "pos")] = anyBad("bad", []byte("-_+/=\n\r !A"))
			}
		case 2:
			s = append(s, rapid.SampledFrom([]string{"=", "==", "A", "\n"}).Draw(t, "tail")...)
		}
		c.S = s
	}
	return c
}

func errText(e error) string {
	if e == nil {
		return "<nil>"
	}
	return e.Error()
}

func runEnc(c encCase, r *pb.Rec) error {
	in, intact := g.WindowBytes(c.S, len(c.S)+c.Enc) // a window into a larger array whose neighbours the caller owns
	s := g.Window(string(c.S), len(c.S)+1)
	// results handed out are looked at again after the caller has reused its input buffer for something else
	type heldResult struct {
		what string
		got  func() string
		want string
	}
	var held []heldResult
	hold := func(what, want string, got func() string) { held = append(held, heldResult{what, got, want}) }
	switch c.Op {
	case "hexenc":
		want := hex.EncodeToString(c.S)
		if g1, g2, g3, g4 := string(strz.HexEncode(in)), string(strz.HexEncode(s)), strz.HexEncodeToString(in), strz.HexEncodeToString(s); g1 != want || g2 != want || g3 != want || g4 != want {
			return fmt.Errorf("HexEncode(%x) = %q/%q/%q/%q want %q", c.S, g1, g2, g3, g4, want)
		}
		if g1, g2, g3, g4 := string(strz.HexEncode(nbytes(in))), string(strz.HexEncode(nstr(s))), strz.HexEncodeToString(nbytes(in)), strz.HexEncodeToString(nstr(s)); g1 != want || g2 != want || g3 != want || g4 != want {
			return fmt.Errorf("HexEncode(%x) with defined string/[]byte types = %q/%q/%q/%q want %q", c.S, g1, g2, g3, g4, want)
		}
		h1, h2 := strz.HexEncode(in), strz.HexEncodeToString(in)
		hold("HexEncode([]byte)", want, func() string { return string(h1) })
		hold("HexEncodeToString([]byte)", want, func() string { return h2 })
	case "hexdec":
		dst := make([]byte, hex.DecodedLen(len(c.S)))
		n, werr := hex.Decode(dst, c.S)
		want := dst[:n]
		g1, e1 := strz.HexDecode(in)
		g2, e2 := strz.HexDecode(s)
		g3, e3 := strz.HexDecodeToString(in)
		g4, e4 := strz.HexDecodeToString(s)
		g5, e5 := strz.HexDecode(nstr(s))
		g6, e6 := strz.HexDecodeToString(nbytes(in))
		// results handed out (also the decoded prefix returned with an error) must survive later calls
		strz.HexDecode("00112233445566778899aabbccddeeff")
		strz.HexDecodeToString("ffeeddccbbaa99887766554433221100zz")
		for i, x := range []struct {
			b []byte
			e error
		}{{g1, e1}, {g2, e2}, {[]byte(g3), e3}, {[]byte(g4), e4}, {g5, e5}, {[]byte(g6), e6}} {
			if !bytes.Equal(x.b, want) || errText(x.e) != errText(werr) {
				return fmt.Errorf("HexDecode variant %d (%q) = %x, %v; encoding/hex: %x, %v", i, c.S, x.b, x.e, want, werr)
			}
		}
		hold("HexDecode([]byte)", string(want), func() string { return string(g1) })
		hold("HexDecodeToString([]byte)", string(want), func() string { return g3 })
		r.ClassIf(werr != nil && len(c.S)%2 == 1, "odd length")
		_, isInv := werr.(hex.InvalidByteError)
		r.ClassIf(isInv && len(c.S)%2 == 1, "invalid byte in odd-length input")
		r.NonTrivialIf(werr != nil)
	case "hexinplace":
		dst := make([]byte, hex.DecodedLen(len(c.S)))
		n, werr := hex.Decode(dst, c.S)
		gn, gerr := strz.HexDecodeInPlace(in)
		if gn != n || errText(gerr) != errText(werr) || !bytes.Equal(in[:gn], dst[:n]) {
			return fmt.Errorf("HexDecodeInPlace(%q) = %d,%v (%x); encoding/hex %d,%v (%x)", c.S, gn, gerr, in[:gn], n, werr, dst[:n])
		}
		in = append(in[:0], c.S...) // allowed to modify
	case "b64enc":
		enc := b64encs[c.Enc]
		want := enc.EncodeToString(c.S)
		if g1, g2, g3, g4 := string(strz.Base64Encode(in, enc)), string(strz.Base64Encode(s, enc)), strz.Base64EncodeToString(in, enc), strz.Base64EncodeToString(s, enc); g1 != want || g2 != want || g3 != want || g4 != want {
			return fmt.Errorf("Base64Encode(%x) = %q/%q/%q/%q want %q", c.S, g1, g2, g3, g4, want)
		}
		if g1, g2, g3, g4 := string(strz.Base64Encode(nbytes(in), enc)), string(strz.Base64Encode(nstr(s), enc)), strz.Base64EncodeToString(nbytes(in), enc), strz.Base64EncodeToString(nstr(s), enc); g1 != want || g2 != want || g3 != want || g4 != want {
			return fmt.Errorf("Base64Encode(%x) with defined string/[]byte types = %q/%q/%q/%q want %q", c.S, g1, g2, g3, g4, want)
		}
		h1, h2 := strz.Base64Encode(in, enc), strz.Base64EncodeToString(in, enc)
		hold("Base64Encode([]byte)", want, func() string { return string(h1) })
		hold("Base64EncodeToString([]byte)", want, func() string { return h2 })
	case "b64dec":
		enc := b64encs[c.Enc]
		want, werr := enc.DecodeString(s)
		g1, e1 := strz.Base64Decode(in, enc)
		g2, e2 := strz.Base64Decode(s, enc)
		g3, e3 := strz.Base64DecodeToString(in, enc)
		g4, e4 := strz.Base64DecodeToString(s, enc)
		g5, e5 := strz.Base64Decode(nstr(s), enc)
		g6, e6 := strz.Base64DecodeToString(nbytes(in), enc)
		// results handed out (also the decoded prefix returned with an error) must survive later calls
		for _, e := range b64encs {
			strz.Base64Decode("QUJDREVGR0hJSktMTU5PUFFSU1RVVldYWVo", e)
			strz.Base64DecodeToString([]byte("enp6enp6enp6enp6enp6enp6enp6!!"), e)
		}
		for i, x := range []struct {
			b []byte
			e error
		}{{g1, e1}, {g2, e2}, {[]byte(g3), e3}, {[]byte(g4), e4}, {g5, e5}, {[]byte(g6), e6}} {
			if !bytes.Equal(x.b, want) || errText(x.e) != errText(werr) {
				return fmt.Errorf("Base64Decode variant %d enc %d (%q) = %x, %v; encoding/base64: %x, %v", i, c.Enc, c.S, x.b, x.e, want, werr)
			}
		}
		hold("Base64Decode([]byte)", string(want), func() string { return string(g1) })
		hold("Base64DecodeToString([]byte)", string(want), func() string { return g3 })
		r.NonTrivialIf(werr != nil)
		r.ClassIf(werr != nil, "base64 corrupt")
	}
	if !bytes.Equal(in, c.S) {
		return fmt.Errorf("%s modified its input", c.Op)
	}
	if e := intact(); e != nil {
		return fmt.Errorf("%s(%q): %v", c.Op, c.S, e)
	}
	for i := range in {
		in[i] = 'Z' - byte(i%5) // the caller goes on using its buffer
	}
	for _, h := range held {
		if got := h.got(); got != h.want {
			return fmt.Errorf("%s of %q: the result changed to %q (was %q) when the caller reused its input buffer", h.what, c.S, got, h.want)
		}
	}
	r.NonTrivialIf(len(c.S) > 2)
	return nil
}

// ---------------------------------------------------------------- digests / HMAC

type digCase struct {
	Data   g.B
	Key    g.B
	Chunks []int
	FailAt int // >= 0: before each healthy stream call, the same helper is fed a reader that fails after this many bytes
}

func dataLen(t *rapid.T) int {
	if rapid.IntRange(0, 29).Draw(t, "large") == 0 {
		return rapid.SampledFrom([]int{32767, 32768, 32769, 40000}).Draw(t, "largeLen") // around io.Copy's buffer
	}
	return rapid.OneOf(rapid.IntRange(0, 300), rapid.SampledFrom([]int{0, 55, 56, 63, 64, 65, 111, 112, 127, 128, 129})).Draw(t, "ndata")
}

func genDig(t *rapid.T) digCase {
	return digCase{
		Data:   g.BytesLen(dataLen(t)).Draw(t, "data"),
		Key:    g.BytesLen(rapid.OneOf(rapid.IntRange(0, 150), rapid.SampledFrom([]int{0, 63, 64, 65, 127, 128, 129})).Draw(t, "nkey")).Draw(t, "key"),
		Chunks: rapid.SliceOfN(rapid.IntRange(0, 70), 0, 8).Draw(t, "chunks"),
		FailAt: rapid.OneOf(rapid.Just(-1), rapid.IntRange(0, 80)).Draw(t, "failAt"),
	}
}

type chunkReader struct {
	data   []byte
	chunks []int
}

func (c *chunkReader) Read(p []byte) (int, error) {
	if len(c.data) == 0 {
		return 0, io.EOF
	}
	n := len(p)
	if len(c.chunks) > 0 {
		if c.chunks[0] < n {
			n = c.chunks[0]
		}
		c.chunks = c.chunks[1:]
	}
	if n > len(c.data) {
		n = len(c.data)
	}
	copy(p, c.data[:n])
	c.data = c.data[n:]
	if len(c.data) == 0 && n > 0 && n%2 == 0 {
		return n, io.EOF // data together with EOF
	}
	return n, nil
}

type errReader struct{}

func (errReader) Read([]byte) (int, error) { return 0, errors.New("injected read fault") }

func runDig(c digCase, r *pb.Rec) error {
	in := append(make([]byte, 0, len(c.Data)+5), c.Data...)
	s := string(c.Data)
	type one struct {
		name   string
		want   []byte
		gotB   []byte
		gotS   []byte
		strB   string
		strS   string
		stream func(io.Reader) ([]byte, error)
	}
	h := func(b []byte) string { return hex.EncodeToString(b) }
	m5, s1, s224, s256, s384, s512, s5224, s5256 := md5.Sum(c.Data), sha1.Sum(c.Data), sha256.Sum224(c.Data), sha256.Sum256(c.Data), sha512.Sum384(c.Data), sha512.Sum512(c.Data), sha512.Sum512_224(c.Data), sha512.Sum512_256(c.Data)
	all := []one{
		{"md5", m5[:], hashz.Md5(in), hashz.Md5(s), hashz.Md5ToString(in), hashz.Md5ToString(s), hashz.Md5Stream},
		{"sha1", s1[:], hashz.Sha1(in), hashz.Sha1(s), hashz.Sha1ToString(in), hashz.Sha1ToString(s), hashz.Sha1Stream},
		{"sha224", s224[:], hashz.Sha224(in), hashz.Sha224(s), hashz.Sha224ToString(in), hashz.Sha224ToString(s), hashz.Sha224Stream},
		{"sha256", s256[:], hashz.Sha256(in), hashz.Sha256(s), hashz.Sha256ToString(in), hashz.Sha256ToString(s), hashz.Sha256Stream},
		{"sha384", s384[:], hashz.Sha384(in), hashz.Sha384(s), hashz.Sha384ToString(in), hashz.Sha384ToString(s), hashz.Sha384Stream},
		{"sha512", s512[:], hashz.Sha512(in), hashz.Sha512(s), hashz.Sha512ToString(in), hashz.Sha512ToString(s), hashz.Sha512Stream},
		{"sha512_224", s5224[:], hashz.Sha512_224(in), hashz.Sha512_224(s), hashz.Sha512_224ToString(in), hashz.Sha512_224ToString(s), nil},
		{"sha512_256", s5256[:], hashz.Sha512_256(in), hashz.Sha512_256(s), hashz.Sha512_256ToString(in), hashz.Sha512_256ToString(s), nil},
	}
	held := hashz.Sha256(in)
	heldCopy := string(held)
	hashz.Sha256("some other input")
	hashz.Sha256Stream(bytes.NewReader([]byte("yet another input")))
	if string(held) != heldCopy {
		return fmt.Errorf("the slice returned by Sha256 changed after later calls")
	}
	if len(c.Data)%53 == 11 {
		// results stay the caller's also after far more output has been produced than any shared block could hold
		heldStr, heldHex, heldMac := hashz.Md5ToString(in), strz.HexEncodeToString(in), hashz.HmacToString(c.Key, in, sha1.New)
		k1, k2, k3 := strings.Clone(heldStr), strings.Clone(heldHex), strings.Clone(heldMac)
		for i := 0; i < 1200; i++ {
			hashz.Sha512ToString(strconv.Itoa(i))
			strz.HexEncode([]byte{byte(i), 1, 2, 3})
		}
		if string(held) != heldCopy || heldStr != k1 || heldHex != k2 || heldMac != k3 {
			return fmt.Errorf("a digest / hex result handed out earlier changed after 2400 later calls (about 160 KB of further results): %q %q %q %q", held, heldStr, heldHex, heldMac)
		}
		r.Class("results re-read after 160 KB of later results")
	}
	ns, nb := nstr(s), nbytes(in)
	namedForms := map[string][4]string{
		"md5":        {string(hashz.Md5(ns)), string(hashz.Md5(nb)), hashz.Md5ToString(ns), hashz.Md5ToString(nb)},
		"sha1":       {string(hashz.Sha1(ns)), string(hashz.Sha1(nb)), hashz.Sha1ToString(ns), hashz.Sha1ToString(nb)},
		"sha224":     {string(hashz.Sha224(ns)), string(hashz.Sha224(nb)), hashz.Sha224ToString(ns), hashz.Sha224ToString(nb)},
		"sha256":     {string(hashz.Sha256(ns)), string(hashz.Sha256(nb)), hashz.Sha256ToString(ns), hashz.Sha256ToString(nb)},
		"sha384":     {string(hashz.Sha384(ns)), string(hashz.Sha384(nb)), hashz.Sha384ToString(ns), hashz.Sha384ToString(nb)},
		"sha512":     {string(hashz.Sha512(ns)), string(hashz.Sha512(nb)), hashz.Sha512ToString(ns), hashz.Sha512ToString(nb)},
		"sha512_224": {string(hashz.Sha512_224(ns)), string(hashz.Sha512_224(nb)), hashz.Sha512_224ToString(ns), hashz.Sha512_224ToString(nb)},
		"sha512_256": {string(hashz.Sha512_256(ns)), string(hashz.Sha512_256(nb)), hashz.Sha512_256ToString(ns), hashz.Sha512_256ToString(nb)},
	}
	for _, o := range all {
		w := h(o.want)
		if nf := namedForms[o.name]; nf[0] != w || nf[1] != w || nf[2] != w || nf[3] != w {
			return fmt.Errorf("%s(%x) called with defined string/[]byte types: %q want %q", o.name, c.Data, nf, w)
		}
		if string(o.gotB) != w || string(o.gotS) != w || o.strB != w || o.strS != w {
			return fmt.Errorf("%s(%x): %q %q %q %q want %q", o.name, c.Data, o.gotB, o.gotS, o.strB, o.strS, w)
		}
		if o.stream != nil {
			if c.FailAt >= 0 {
				// a stream that breaks half-way must not influence later calls (pooled/reused hash state)
				junk := bytes.Repeat([]byte{0x5a}, c.FailAt)
				o.stream(io.MultiReader(bytes.NewReader(junk), errReader{}))
			}
			got, err := o.stream(&chunkReader{data: append([]byte(nil), c.Data...), chunks: append([]int(nil), c.Chunks...)})
			if err != nil || string(got) != w {
				return fmt.Errorf("%sStream(%x chunks %v) = %q,%v want %q", o.name, c.Data, c.Chunks, got, err, w)
			}
			// readers that can seek, handed over after the caller has already consumed a prefix: the digest is that of
			// what the reader still delivers
			prefix := []byte("consumed before the call: ")[:len(c.Data)%7+1]
			whole := append(append([]byte(nil), prefix...), c.Data...)
			br := bytes.NewReader(whole)
			io.CopyN(io.Discard, br, int64(len(prefix)))
			sr := strings.NewReader(string(whole))
			sr.Seek(int64(len(prefix)), io.SeekStart)
			sec := io.NewSectionReader(bytes.NewReader(append(append([]byte("outside"), whole...), "outside"...)), 7, int64(len(whole)))
			sec.Seek(int64(len(prefix)), io.SeekStart)
			for ri, rd := range []io.Reader{br, sr, sec} {
				if got, err := o.stream(rd); err != nil || string(got) != w {
					return fmt.Errorf("%sStream over a seekable reader (kind %d) of which %d bytes had been consumed before the call = %q,%v; digest of the remaining %d bytes: %q", o.name, ri, len(prefix), got, err, len(c.Data), w)
				}
			}
		}
	}
	for i, hf := range []func() hash.Hash{md5.New, sha1.New, sha256.New, sha512.New} {
		mac := hmac.New(hf, c.Key)
		mac.Write(c.Data)
		w := h(mac.Sum(nil))
		key := append([]byte(nil), c.Key...)
		if a, b, cc, d := string(hashz.Hmac(key, in, hf)), string(hashz.Hmac(string(c.Key), s, hf)), hashz.HmacToString(key, s, hf), hashz.HmacToString(string(c.Key), in, hf); a != w || b != w || cc != w || d != w {
			return fmt.Errorf("Hmac #%d key %x data %x: %q %q %q %q want %q", i, c.Key, c.Data, a, b, cc, d, w)
		}
		if a, b := string(hashz.Hmac(nbytes(key), ns, hf)), hashz.HmacToString(nstr(c.Key), nb, hf); a != w || b != w {
			return fmt.Errorf("Hmac #%d key %x data %x with defined string/[]byte types: %q %q want %q", i, c.Key, c.Data, a, b, w)
		}
		if !bytes.Equal(key, c.Key) {
			return fmt.Errorf("Hmac modified its key")
		}
		// the caller refills its key buffer in place (key rotation, a pooled buffer): same memory and length, other key
		for k := 0; k < 2 && len(key) > 0; k++ {
			for j := range key {
				key[j] ^= byte(0x5a + j + k)
			}
			m2 := hmac.New(hf, key)
			m2.Write(c.Data)
			w2 := h(m2.Sum(nil))
			if a, b := string(hashz.Hmac(key, in, hf)), hashz.HmacToString(key, s, hf); a != w2 || b != w2 {
				return fmt.Errorf("Hmac #%d with key %x held in the buffer that held key %x at the previous call, data %x: %q %q want %q", i, key, c.Key, c.Data, a, b, w2)
			}
		}
		if len(c.Key) > 0 && (len(c.Data)+len(c.Key)+i)%29 == 0 {
			// keys of one length, each allocated, used and dropped, with a garbage collection before the next one is
			// allocated at (usually) the same address
			r.Class("same-length keys in recycled memory, a collection between calls")
			if err := g.Recycle(4, func(round int) error {
				k2 := make([]byte, len(c.Key))
				for j := range k2 {
					k2[j] = c.Key[j] + byte(round+1)
				}
				m2 := hmac.New(hf, k2)
				m2.Write(c.Data)
				if a, w2 := string(hashz.Hmac(string(k2), in, hf)), h(m2.Sum(nil)); a != w2 {
					return fmt.Errorf("Hmac #%d, key %d of a series of same-length keys in recycled memory (%x), data %x: %q want %q", i, round, k2, c.Data, a, w2)
				}
				return nil
			}); err != nil {
				return err
			}
		}
	}
	if !bytes.Equal(in, c.Data) {
		return fmt.Errorf("digest helper modified its input")
	}
	r.NonTrivialIf(len(c.Data) > 64)
	r.ClassIf(len(c.Key) > 64, "hmac key longer than block")
	r.ClassIf(len(c.Data) > 32000, "data larger than the copy buffer")
	r.ClassIf(c.FailAt > 0, "healthy stream after a broken one")
	return nil
}

// ---------------------------------------------------------------- IPv4

type ipCase struct{ X uint32 }

func genIP(t *rapid.T) ipCase {
	switch rapid.IntRange(0, 2).Draw(t, "k") {
	case 0:
		o := func() uint32 {
			return rapid.SampledFrom([]uint32{0, 1, 9, 10, 99, 100, 127, 128, 199, 200, 254, 255}).Draw(t, "o")
		}
		return ipCase{o()<<24 | o()<<16 | o()<<8 | o()}
	case 1:
		pos := uint(rapid.IntRange(0, 3).Draw(t, "pos")) * 8
		pos2 := uint(rapid.IntRange(0, 3).Draw(t, "pos2")) * 8
		return ipCase{uint32(rapid.IntRange(0, 255).Draw(t, "a"))<<pos | uint32(rapid.IntRange(0, 255).Draw(t, "b"))<<pos2}
	}
	return ipCase{rapid.Uint32().Draw(t, "x")}
}

func runIP(c ipCase, r *pb.Rec) error {
	s := strz.LongToIPv4(c.X)
	want := fmt.Sprintf("%d.%d.%d.%d", byte(c.X>>24), byte(c.X>>16), byte(c.X>>8), byte(c.X))
	if s != want {
		return fmt.Errorf("LongToIPv4(%#x) = %q want %q", c.X, s, want)
	}
	if back := strz.IPv4ToLong(s); back != c.X {
		return fmt.Errorf("IPv4ToLong(LongToIPv4(%#x)=%q) = %#x", c.X, s, back)
	}
	r.NonTrivialIf(c.X > 255)
	return nil
}

// all 2^32 addresses, split over VERIF_NSHARDS processes (thorough tier)
func TestIPv4All(t *testing.T) {
	shard, _ := strconv.Atoi(os.Getenv("VERIF_SHARD"))
	nsh, _ := strconv.Atoi(os.Getenv("VERIF_NSHARDS"))
	if nsh <= 0 {
		nsh = 1
	}
	st := pb.Stats("ipv4_all")
	st.SetExhaustive(true)
	st.SetRule("every uint32 x (the range is split over the shards and each shard enumerates its slice completely): IPv4ToLong(LongToIPv4(x)) == x and the dotted form equals the four octets; all cases are distinct, x > 255 counts as non-trivial; counted, not hashed (the hash set would need 32 GiB)")
	per := uint64(1<<32) / uint64(nsh)
	lo, hi := uint64(shard)*per, uint64(shard+1)*per
	if shard == nsh-1 {
		hi = 1 << 32
	}
	rec := &pb.Rec{}
	rec.NonTrivial()
	var buf [16]byte
	for x := lo; x < hi; x++ {
		v := uint32(x)
		s := strz.LongToIPv4(v)
		b := strconv.AppendUint(buf[:0], uint64(v>>24), 10)
		b = append(b, '.')
		b = strconv.AppendUint(b, uint64(byte(v>>16)), 10)
		b = append(b, '.')
		b = strconv.AppendUint(b, uint64(byte(v>>8)), 10)
		b = append(b, '.')
		b = strconv.AppendUint(b, uint64(byte(v)), 10)
		if s != string(b) || strz.IPv4ToLong(s) != v {
			js, _ := json.Marshal(ipCase{v})
			st.Violation("exhaustive", js, fmt.Errorf("IPv4 round trip fails for %#x: %q -> %#x", v, s, strz.IPv4ToLong(s)))
			t.Fatalf("IPv4 round trip fails for %#x", v)
		}
		// one evidence record per 2^16 block keeps the collector cheap; the block key is the high half
		if v&0xffff == 0xffff {
			st.CaseKey(uint64(v>>16), rec, func() []byte { return []byte(fmt.Sprintf(`{"block_of_65536_addresses_ending_at":%q}`, s)) })
		}
	}
	st.Note("shard %d/%d enumerated addresses [%d,%d): %d addresses (evaluations/distinct count 65536-address blocks)", shard, nsh, lo, hi, hi-lo)
}

// native fuzz targets (thorough tier)
func FuzzParseUint(f *testing.F) {
	for _, s := range []string{"", "0", "18446744073709551615", "18446744073709551616", "0x_1", "0b1_0", "1__0", "_1", "1_", "0o777", "0XfF", "255", "256", "zz", "-1", "+1"} {
		for _, b := range []int{0, 2, 10, 16, 36} {
			f.Add(s, b, 64)
			f.Add(s, b, 8)
		}
	}
	f.Fuzz(func(t *testing.T, s string, base, bits int) {
		if err := runPU(puCase{S: []byte(s), Base: base%40 - 1, BitSize: bits%68 - 1}, nil); err != nil {
			t.Fatal(err)
		}
	})
}

func FuzzHex(f *testing.F) {
	for _, s := range []string{"", "0", "00", "0g", "g0", "abc", "ABCDEF", "zz1", "1z", "12345"} {
		f.Add(s)
	}
	f.Fuzz(func(t *testing.T, s string) {
		for _, op := range []string{"hexdec", "hexinplace", "hexenc"} {
			if err := runEnc(encCase{Op: op, S: []byte(s)}, nil); err != nil {
				t.Fatal(err)
			}
		}
	})
}

func init() {
	pb.Register("parseuint", pb.Options{Twins: 3, Base: 40000, Required: []string{"underscore accepted", "out of range", "base prefix", "accepted"},
		Rule: "strings assembled from a base prefix, the digits of a magnitude centred on the overflow cut-offs of the (base, bitSize) pair (maxVal±2, 2^64±2, cutoff·base±2, cutoff±1, much larger, uniform) rendered in that base, and mutations (underscores legal/illegal, digit >= base, sign, empty, trailing garbage); base -1..37, bitSize -1..65; oracle strconv.ParseUint (value and error-ness), string == []byte; non-trivial = contains '_' or is out of range or > 2^32"},
		genPU, runPU)
	pb.Register("hex_base64", pb.Options{Twins: 3, Base: 30000, Required: []string{"invalid byte in odd-length input", "odd length", "base64 corrupt"},
		Rule: "hex/base64 encode and decode of valid and corrupted inputs (cut, bad char at any position, odd length with and without an invalid char); oracle encoding/hex, encoding/base64 incl. decoded prefix and error text, all four string/[]byte/ToString variants, input unchanged; non-trivial = error case or > 2 bytes"},
		genEnc, runEnc)
	pb.Register("digests", pb.Options{Twins: 3, Base: 3000, Required: []string{"results re-read after 160 KB of later results", "hmac key longer than block", "healthy stream after a broken one", "data larger than the copy buffer"},
		Rule: "data 0..300 bytes, HMAC keys 0..150 bytes, stream form through a reader with drawn chunk sizes (incl. 0-byte reads and data+EOF); oracle crypto/* digests in lower-case hex; non-trivial = data longer than one block"},
		genDig, runDig)
	pb.Register("ipv4", pb.Options{Base: 30000, Rule: "boundary octets, one or two non-zero octets, uniform uint32; oracle dotted-quad of the octets and IPv4ToLong(LongToIPv4(x)) == x; non-trivial = x > 255"},
		genIP, runIP)
	pb.RegisterReplay("ipv4_all", func(raw json.RawMessage) error {
		var c ipCase
		if err := json.Unmarshal(raw, &c); err != nil {
			return fmt.Errorf("BADREPLAY: %v", err)
		}
		return runIP(c, &pb.Rec{})
	})
}
