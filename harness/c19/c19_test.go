// C19 — Limiter bounds concurrency, runs every task once and survives panics.
package c19

import (
	"encoding/json"
	"fmt"
	"os"
	"reflect"
	"runtime"
	"strings"
	"sync"
	"sync/atomic"
	"testing"
	"time"

	"github.com/welllog/golib/goz"
	"pgregory.net/rapid"

	"verif/harness/internal/pb"
)

func TestMain(m *testing.M)   { pb.Main(m) }
func TestReplay(t *testing.T) { pb.RunReplay(t) }

const (
	bReturn = iota
	bYield
	bGate
	bPanicBeforeGate
	bPanicAfterGate
	bPanicNow
	bNil    // a nil func value is submitted: nothing can run, but the slot must come back and Wait must not hang
	bGoexit // the function ends its goroutine with runtime.Goexit (what t.Fatal / t.SkipNow do): finished, not panicked
)

type task struct {
	B int // behaviour
	K int // yields; for panicking tasks: which kind of value is raised (see raise)
}

// tagErr is raised by pointer: the handler must receive the very same pointer.
type tagErr struct {
	i   int
	pad int // > 0: the messages of the string panic and of this error are padded to exactly this many bytes
}

func (e *tagErr) Error() string { return padTo(fmt.Sprintf("tagErr %d", e.i), e.pad) }

func padTo(s string, n int) string {
	if n <= len(s)+1 {
		return s
	}
	return s + ":" + strings.Repeat("x", n-len(s)-1)
}

var nilMap map[int]int

// raise panics with the value kind k selects: explicit values (string, pointer) and faults raised by the runtime.
// brokenErr is an error whose Error method itself panics (a wrapper around a nil cause): whoever prints the
// panic value with %v is protected by package fmt; whoever calls Error() directly is not.
type brokenErr struct{ cause error }

func (e *brokenErr) Error() string { return "wrapped: " + e.cause.Error() }

// brokenStringer likewise for String().
type brokenStringer struct{ p *tagErr }

func (s brokenStringer) String() string { return s.p.Error() + fmt.Sprint(s.p.i) }

func raise(i, k int, ptr *tagErr) {
	switch k % 8 {
	case 6:
		panic(&brokenErr{})
	case 7:
		panic(brokenStringer{})
	case 0:
		panic(padTo(fmt.Sprintf("p%d", i), ptr.pad))
	case 1:
		panic(ptr)
	case 2:
		nilMap[i] = 1
	case 3:
		s := make([]int, i%3)
		_ = s[i%3+i%2]
	case 4:
		var q *tagErr
		_ = q.i
	default:
		z := i - i
		_ = i / z
	}
	panic("HARNESS: raise did not panic")
}

// raised returns the value the same raise call produces when recovered directly.
func raised(i, k int, ptr *tagErr) (v any) {
	defer func() { v = recover() }()
	raise(i, k, ptr)
	return nil
}

// samePanic: the handler must get the panic value itself - same dynamic type, identical for comparable values,
// same message for the runtime's error values.
func samePanic(want, got any) bool {
	if reflect.TypeOf(want) != reflect.TypeOf(got) {
		return false
	}
	if we, ok := want.(runtime.Error); ok {
		return we.Error() == got.(runtime.Error).Error()
	}
	if _, ok := want.(*brokenErr); ok {
		return true // a fresh pointer per panic: the type identifies it (its Error method cannot be called)
	}
	return want == got
}

type limCase struct {
	Limit    int
	Tasks    []task
	Order    []int // release order of the gates (indices into Tasks)
	Handler  bool
	Procs    int
	Timed    bool // after the first Wait() the idle Limiter is also waited on with a timeout (returns at once)
	Twin     bool // a second Limiter with the same limit argument is kept saturated for the whole scenario
	Warmup   bool // the Limiter runs one function to completion (Go, Wait) before the panic handler is configured: a setter called after first use
	LogDepth int  // > 0: the configured handler is the library's own goz.LogPanic(logger, LogDepth); the logger must receive one line per panic naming the value
	WaitForm int  // how "Wait() without timeout" is spelled: 0 l.Wait(), 1 l.Wait(empty...) with an empty non-nil slice, 2 with a nil slice
	Churn    int  // this many functions that return at once are pushed through the Limiter before the final saturation probe (counters inside the Limiter must not drift)
	Crowd    int  // > 0: this many unrelated goroutines are parked in the process for the whole scenario
	Fluent   bool // afterwards: NewLimiter(n).SetPanicHandler(h).Go(f) as one expression - the handle is dropped at once -, collections are forced while f is parked, then f panics: the handler must still be told
	MsgLen   int  // > 0: panic messages (string panics, error panics) are padded to exactly this many bytes
	Expire   bool // (not under the race detector) a timed Wait expires while functions run; after they finished the Limiter is used again
}

func gen(t *rapid.T) (c limCase) {
	c = limCase{Limit: rapid.OneOf(rapid.IntRange(1, 6), rapid.IntRange(-2, 6)).Draw(t, "limit"), Handler: rapid.IntRange(0, 3).Draw(t, "handler") != 0,
		Procs: rapid.SampledFrom([]int{1, 2, 3, 4, 5, 6, 16}).Draw(t, "procs"), Timed: rapid.Bool().Draw(t, "timed"), Twin: rapid.IntRange(0, 3).Draw(t, "twin") == 0}
	defer func() {
		c.Expire = rapid.IntRange(0, 2).Draw(t, "expire") == 0
		c.WaitForm = rapid.SampledFrom([]int{0, 0, 1, 2}).Draw(t, "waitForm")
		c.LogDepth = rapid.SampledFrom([]int{0, 0, 0, 0, 1, 5, 33, 64, 500}).Draw(t, "logDepth")
		c.Warmup = rapid.IntRange(0, 3).Draw(t, "warmup") == 0
		c.Crowd = rapid.SampledFrom([]int{0, 0, 0, 0, 0, 0, 0, 0, 0, 0, 0, 0, 0, 0, 0, 0, 0, 0, 0, 0, 0, 0, 0, 0, 0, 0, 0, 0, 0, 0, 0, 0, 0, 0, 0, 0, 0, 0, 0, 0, 0, 0, 0, 0, 0, 0, 0, 300, 4200, 5000}).Draw(t, "crowd")
		c.Fluent = rapid.IntRange(0, 15).Draw(t, "fluent") == 0
		c.MsgLen = rapid.SampledFrom([]int{0, 0, 0, 0, 0, 0, 15, 16, 17, 63, 64, 65, 127, 128, 129, 255, 256, 257, 511, 512, 513, 1023, 1024, 1025, 4095, 4096, 4097, 65535, 65536, 65537}).Draw(t, "msgLen")
		if !c.Handler && c.MsgLen > 1025 {
			c.MsgLen = 1025 // the default reporter writes to the standard output of the test process: keep that small
		}
		c.Churn = rapid.SampledFrom([]int{0, 0, 0, 0, 0, 0, 300, 300, 300, 5000, 66000, 70000}).Draw(t, "churn")
	}()
	n := rapid.IntRange(1, 24).Draw(t, "ntasks")
	for i := 0; i < n; i++ {
		c.Tasks = append(c.Tasks, task{B: rapid.SampledFrom([]int{bReturn, bYield, bGate, bGate, bGate, bPanicBeforeGate, bPanicAfterGate, bPanicNow, bGate, bYield, bReturn, bPanicNow, bNil, bGoexit}).Draw(t, "b"), K: rapid.IntRange(0, 7).Draw(t, "k")})
	}
	var gates []int
	for i, tk := range c.Tasks {
		if tk.B == bGate || tk.B == bPanicBeforeGate || tk.B == bPanicAfterGate || (tk.B == bGoexit && tk.K%2 == 1) {
			gates = append(gates, i)
		}
	}
	if len(gates) > 0 {
		c.Order = rapid.Permutation(gates).Draw(t, "order")
	}
	return c
}

// errInconclusive: a generous real-time bound was hit without a state that proves a violation.
type inconclusive struct{ msg string }

func (e inconclusive) Error() string { return "INCONCLUSIVE: " + e.msg }

type world struct {
	n             int
	inside        int32
	blocked       int32 // tasks currently parked on their gate
	maxInside     int32
	started       int32
	finished      int32
	execs         []int32
	gates         []chan struct{}
	parked        []int32 // task i is waiting on its gate
	opened        []int32 // the harness has opened gate i
	submitted     int32
	submitterDone int32
	violation     atomic.Value
	mu            sync.Mutex
	handled       []any
	ptrs          []*tagErr
	lastDump      string
}

func (w *world) fail(format string, a ...any) {
	w.violation.CompareAndSwap(nil, fmt.Sprintf(format, a...))
}

func (w *world) body(i int, tk task) func() {
	return func() {
		now := atomic.AddInt32(&w.inside, 1)
		atomic.AddInt32(&w.started, 1)
		if int(now) > w.n {
			w.fail("%d functions running at once with limit %d", now, w.n)
		}
		for {
			m := atomic.LoadInt32(&w.maxInside)
			if now <= m || atomic.CompareAndSwapInt32(&w.maxInside, m, now) {
				break
			}
		}
		if c := atomic.AddInt32(&w.execs[i], 1); c != 1 {
			w.fail("task %d executed %d times", i, c)
		}
		defer func() {
			atomic.AddInt32(&w.finished, 1)
			atomic.AddInt32(&w.inside, -1)
		}()
		wait := func() {
			atomic.StoreInt32(&w.parked[i], 1)
			atomic.AddInt32(&w.blocked, 1)
			<-w.gates[i]
			atomic.AddInt32(&w.blocked, -1)
			atomic.StoreInt32(&w.parked[i], 0)
		}
		switch tk.B {
		case bYield:
			for k := 0; k < tk.K; k++ {
				runtime.Gosched()
			}
		case bGate:
			wait()
		case bGoexit:
			if tk.K%2 == 1 {
				wait()
			}
			runtime.Goexit()
		case bPanicNow, bPanicBeforeGate:
			raise(i, tk.K, w.ptrs[i])
		case bPanicAfterGate:
			wait()
			raise(i, tk.K, w.ptrs[i])
		}
	}
}

// submitLoop is the submitting goroutine (its name is looked up in goroutine dumps).
func submitLoop(l *goz.Limiter, w *world, bodies []func()) {
	for _, b := range bodies {
		l.Go(b)
		atomic.AddInt32(&w.submitted, 1)
	}
	atomic.StoreInt32(&w.submitterDone, 1)
}

// goroutineState inspects a dump of all goroutines. For every goroutine that has a frame of package goz
// (the Limiter's workers, the submitter while inside Limiter.Go, the goroutine calling Wait) it looks at the
// scheduler state in the header: parked goroutines ("chan send", "chan receive", "semacquire", "select",
// "sync.WaitGroup.Wait") cannot move unless somebody else acts; anything else is still running.
type gstate struct {
	submitterInSend bool // the goroutine running submitLoop is parked in a channel send
	moving          int  // goz goroutines that are running or runnable
	workersInSend   int  // worker goroutines parked in a channel send (waiting for a slot inside the worker)
	truncated       bool // the dump did not fit: no conclusion may be drawn
	dump            string
}

func firstGozFrame(g string) string {
	for _, l := range strings.Split(g, "\n") {
		if strings.Contains(l, "golib/goz.") && !strings.HasPrefix(l, "created by") {
			return strings.TrimSpace(l)
		}
	}
	return "(only created-by frame)"
}

// waitingState reports whether a goroutine header shows a state that lasts until another goroutine acts
// (a wait for a mutex is not one of them: it ends on its own; "semacquire" is not either: the runtime shows it for
// short internal waits of a goroutine inside Limiter.Go, observed on the unchanged tree).
func waitingState(head string) bool {
	for _, s := range []string{"[chan send", "[chan receive", "[select", "[sync.Cond.Wait"} {
		if strings.Contains(head, s) {
			return true
		}
	}
	return false
}

func goroutineState() (st gstate) {
	buf := dumpBuf()
	n := runtime.Stack(buf, true)
	st.truncated = n == len(buf)
	for _, g := range strings.Split(string(buf[:n]), "\n\n") {
		if !strings.Contains(g, "golib/goz.") {
			continue
		}
		head := g[:strings.IndexByte(g+"\n", '\n')]
		st.dump += head + " " + firstGozFrame(g) + "; "
		// parked for good (until the harness or another function acts) only in these three situations;
		// every other state - running, runnable, syscall, or waiting for some internal lock such as the
		// stdout file lock inside the default panic handler - will change on its own
		parked := false
		switch {
		case strings.Contains(head, "[chan receive") && (strings.Contains(g, "(*world).body") || strings.Contains(g, "c19.run.func")):
			parked = true // a function parked on its harness gate (or a function of the twin Limiter parked on its hold channel)
		case waitingState(head) && (strings.Contains(g, "goz.(*Limiter).add(") || strings.Contains(g, "goz.(*Limiter).Go(")):
			parked = true // waiting for a slot (whatever the Limiter waits on: channel, condition variable, semaphore)
		case strings.Contains(g, "goz.(*Limiter).Wait") && (strings.Contains(head, "[semacquire") || strings.Contains(head, "[sync.WaitGroup.Wait") || strings.Contains(head, "[chan receive") || strings.Contains(head, "[select")):
			parked = true // a caller of Wait
		}
		if strings.Contains(g, "c19.submitLoop") {
			st.submitterInSend = waitingState(head) && (strings.Contains(g, "goz.(*Limiter).add(") || strings.Contains(g, "goz.(*Limiter).Go("))
		} else if strings.Contains(head, "[chan send") {
			st.workersInSend++
		}
		if !parked {
			st.moving++
		}
	}
	return
}

// waiterParked reports whether a goroutine inside Limiter.Wait is parked (it will stay so until the
// functions finish).
func waiterParked() bool {
	buf := dumpBuf()
	n := runtime.Stack(buf, true)
	for _, g := range strings.Split(string(buf[:n]), "\n\n") {
		if strings.Contains(g, "goz.(*Limiter).Wait") {
			head := g[:strings.IndexByte(g+"\n", '\n')]
			if strings.Contains(head, "[semacquire") || strings.Contains(head, "[sync.WaitGroup.Wait") || strings.Contains(head, "[chan receive") || strings.Contains(head, "[select") {
				return true
			}
		}
	}
	return false
}

// waitQuiescent waits until nothing can change without the harness acting: every launched task has
// started and is finished or parked on its gate, and the submitter is done or parked in the Limiter.
// It returns whether the submitter is blocked.
func (w *world) waitQuiescent(total int) (submitterBlocked bool, err error) {
	deadline := time.Now().Add(20 * time.Second)
	for spins := 0; ; spins++ {
		if v := w.violation.Load(); v != nil {
			return false, fmt.Errorf("%s", v)
		}
		started, finished, blocked, submitted := atomic.LoadInt32(&w.started), atomic.LoadInt32(&w.finished), atomic.LoadInt32(&w.blocked), atomic.LoadInt32(&w.submitted)
		done := atomic.LoadInt32(&w.submitterDone) == 1
		waking := false // a task parked on a gate the harness already opened is about to move
		for i := range w.parked {
			if atomic.LoadInt32(&w.opened[i]) == 1 && atomic.LoadInt32(&w.parked[i]) == 1 {
				waking = true
			}
		}
		if !waking && started == finished+blocked {
			// final only if no goroutine of the Limiter can still move on its own: functions that have
			// returned may still be giving their slot back, launched functions may not have started yet
			gs := goroutineState()
			stable := atomic.LoadInt32(&w.started) == started && atomic.LoadInt32(&w.finished) == finished && atomic.LoadInt32(&w.blocked) == blocked && atomic.LoadInt32(&w.submitted) == submitted
			w.lastDump = gs.dump
			if gs.moving == 0 && stable && !gs.truncated {
				if done && atomic.LoadInt32(&w.submitterDone) == 1 {
					return false, nil
				}
				if gs.submitterInSend {
					return true, nil
				}
			}
		}
		if time.Now().After(deadline) {
			return false, inconclusive{fmt.Sprintf("no quiescent state within 20s (started %d finished %d blocked %d submitted %d of %d); goroutines of the Limiter: %s", started, finished, blocked, submitted, total, w.lastDump)}
		}
		if spins < 200 {
			runtime.Gosched()
		} else {
			time.Sleep(50 * time.Microsecond)
		}
	}
}

// churnLoop submits n short functions (its name is looked up in goroutine dumps).
func churnLoop(l *goz.Limiter, fn func(), n int, submitted *int64, done chan struct{}) {
	defer close(done)
	for i := 0; i < n; i++ {
		l.Go(fn)
		atomic.AddInt64(submitted, 1)
	}
}

// limiterWorkers counts goroutines with a frame of package goz other than the churn submitter and the functions
// of the twin Limiter.
// dumpSize is the buffer for goroutine dumps (larger while a crowd of unrelated goroutines is parked).
var dumpSize atomic.Int64

func dumpBuf() []byte { return make([]byte, max(1<<20, int(dumpSize.Load()))) }

func limiterWorkers() int {
	buf := dumpBuf()
	n := runtime.Stack(buf, true)
	if n == len(buf) {
		return 1 // truncated dump: no conclusion
	}
	k := 0
	for _, g := range strings.Split(string(buf[:n]), "\n\n") {
		if !strings.Contains(g, "golib/goz.") || strings.Contains(g, "c19.churnLoop") || strings.Contains(g, "c19.run.func") {
			continue
		}
		k++
	}
	return k
}

// fluent: the Limiter is built, configured and used in one expression, so the program holds no reference to it
// while its function runs; collections (and the finalizer goroutine) get their chance while the function is
// parked; then it panics. The configured handler must be told, and the worker must finish.
func fluent(n int, r *pb.Rec) error {
	gate := make(chan struct{})
	var handled atomic.Value
	var inside atomic.Int32
	goz.NewLimiter(n).SetPanicHandler(func(p any) { handled.Store(p) }).Go(func() {
		inside.Add(1)
		<-gate
		panic("late panic of a function whose Limiter the program no longer references")
	})
	for deadline := time.Now().Add(20 * time.Second); inside.Load() == 0; {
		if time.Now().After(deadline) {
			close(gate)
			return inconclusive{"fluent scenario: the function did not start within 20s"}
		}
		runtime.Gosched()
	}
	for i := 0; i < 3; i++ {
		runtime.GC()
		time.Sleep(time.Millisecond) // lets the finalizer goroutine run; only makes the scenario more telling, decides nothing
	}
	close(gate)
	for deadline := time.Now().Add(20 * time.Second); ; {
		if handled.Load() != nil {
			break
		}
		if limiterWorkers() == 0 && handled.Load() == nil {
			return fmt.Errorf("NewLimiter(%d).SetPanicHandler(h).Go(f): f panicked after garbage collections had run while it was parked (the program held no reference to the Limiter any more); the worker goroutine is gone and the configured handler was never called", n)
		}
		if time.Now().After(deadline) {
			return inconclusive{"fluent scenario: neither handler call nor worker exit within 20s"}
		}
		time.Sleep(200 * time.Microsecond)
	}
	r.Class("Limiter used as one expression, collections while its function is parked, late panic")
	return nil
}

// waitUntimed calls Wait without a timeout in one of its spellings.
func waitUntimed(l *goz.Limiter, form int) {
	switch form {
	case 1:
		l.Wait([]time.Duration{}...)
	case 2:
		var none []time.Duration
		l.Wait(none...)
	default:
		l.Wait()
	}
}

// waitStuck reports (state-based, from a goroutine dump) that a caller of Wait is parked while no other
// goroutine of the Limiter exists any more: every worker has exited, so nobody is left to wake it.
// A waiter that has been woken is runnable, not parked, so the state is final.
func waitStuck() (bool, string) {
	buf := make([]byte, 1<<20)
	n := runtime.Stack(buf, true)
	if n == len(buf) {
		return false, ""
	}
	waiters, others := 0, 0
	desc := ""
	for _, g := range strings.Split(string(buf[:n]), "\n\n") {
		if !strings.Contains(g, "golib/goz.") {
			continue
		}
		head := g[:strings.IndexByte(g+"\n", '\n')]
		switch {
		case strings.Contains(g, "goz.(*Limiter).Wait") && !strings.Contains(g, "goz.(*Limiter).Wait.func") &&
			(strings.Contains(head, "[semacquire") || strings.Contains(head, "[sync.WaitGroup.Wait")):
			waiters++
			desc += head + "; "
		case strings.Contains(head, "[chan receive") && strings.Contains(g, "c19.run.func"):
			// a function of the twin Limiter parked on its hold channel: another Limiter
		default:
			others++
		}
	}
	return waiters > 0 && others == 0, desc
}

// awaitWait waits for an untimed Wait to return. A Wait that is provably stuck is a violation; a bound hit
// without such a state is no verdict.
func awaitWait(done <-chan struct{}, what string) error {
	deadline := time.Now().Add(20 * time.Second)
	for stuckSeen := 0; ; {
		select {
		case <-done:
			return nil
		case <-time.After(2 * time.Millisecond):
		}
		if st, desc := waitStuck(); st {
			if stuckSeen++; stuckSeen >= 3 {
				select {
				case <-done:
					return nil
				default:
				}
				return fmt.Errorf("%s never returns: its goroutine is parked in the WaitGroup while no other goroutine of the Limiter exists any more (every submitted function has finished): %s", what, desc)
			}
		} else {
			stuckSeen = 0
		}
		if time.Now().After(deadline) {
			return inconclusive{what + " did not return within 20s"}
		}
	}
}

func run(c limCase, r *pb.Rec) (err error) {
	if len(c.Tasks) == 0 || len(c.Tasks) > 64 || c.Limit > 32 {
		return nil
	}
	n := c.Limit
	if n < 1 {
		n = 3
	}
	if c.Procs >= 1 {
		defer runtime.GOMAXPROCS(runtime.GOMAXPROCS(c.Procs))
	}
	if c.Crowd > 0 && c.Crowd <= 20000 {
		// a process that is busy with other things: thousands of goroutines that have nothing to do with the Limiter
		release := make(chan struct{})
		var up sync.WaitGroup
		up.Add(c.Crowd)
		for i := 0; i < c.Crowd; i++ {
			go func() { up.Done(); <-release }()
		}
		up.Wait()
		dumpSize.Store(int64(4<<20 + 600*c.Crowd))
		defer func() { close(release); dumpSize.Store(0) }()
		r.ClassIf(c.Crowd >= 4096, "more than 4096 unrelated goroutines parked in the process")
	}
	if c.Fluent {
		defer func() {
			if err == nil {
				err = fluent(n, r)
			}
		}()
	}
	if c.Twin {
		// an independent Limiter created with the same argument holds all of ITS slots for the whole scenario:
		// limiters must not share capacity
		twin := goz.NewLimiter(c.Limit)
		hold := make(chan struct{})
		var in int32
		for i := 0; i < n; i++ {
			twin.Go(func() { atomic.AddInt32(&in, 1); <-hold })
		}
		for deadline := time.Now().Add(20 * time.Second); atomic.LoadInt32(&in) < int32(n); {
			if time.Now().After(deadline) {
				close(hold)
				return inconclusive{"the twin Limiter did not start its functions within 20s"}
			}
			runtime.Gosched()
		}
		defer func() { close(hold); twin.Wait() }()
		r.Class("second Limiter saturated alongside")
	}
	l := goz.NewLimiter(c.Limit)
	tot := len(c.Tasks) + 2*n
	w := &world{n: n, execs: make([]int32, tot), gates: make([]chan struct{}, tot), parked: make([]int32, tot), opened: make([]int32, tot), ptrs: make([]*tagErr, tot)}
	if c.Warmup {
		// first use before configuration: the Limiter is idle again when the handler is set, so the setter does not
		// race with any worker
		var ran int32
		l.Go(func() { atomic.StoreInt32(&ran, 1) })
		wd := make(chan struct{})
		go func() { waitUntimed(l, c.WaitForm); close(wd) }()
		if err := awaitWait(wd, "Wait() after the first function"); err != nil {
			return err
		}
		if atomic.LoadInt32(&ran) != 1 {
			return fmt.Errorf("Wait() returned before the first submitted function ran")
		}
		for deadline := time.Now().Add(20 * time.Second); limiterWorkers() > 0; {
			if time.Now().After(deadline) {
				return inconclusive{"the worker of the warm-up function did not exit within 20s"}
			}
			runtime.Gosched()
		}
		r.ClassIf(c.Handler, "panic handler configured after the Limiter was first used")
	}
	logged := &logSink{}
	if c.Handler && c.LogDepth > 0 {
		l.SetPanicHandler(goz.LogPanic(logged, c.LogDepth))
	} else if c.Handler {
		l.SetPanicHandler(func(p any) {
			w.mu.Lock()
			w.handled = append(w.handled, p)
			w.mu.Unlock()
		})
	}
	var bodies []func()
	var wantPanics []any
	runtimeFaults := 0
	nilCount, goexits := 0, 0
	for i, tk := range c.Tasks {
		w.gates[i] = make(chan struct{})
		w.ptrs[i] = &tagErr{i, c.MsgLen}
		if tk.B == bNil {
			bodies = append(bodies, nil)
			nilCount++
			continue
		}
		bodies = append(bodies, w.body(i, tk))
		if tk.B == bGoexit {
			goexits++
			continue
		}
		if tk.B >= bPanicBeforeGate {
			v := raised(i, tk.K, w.ptrs[i])
			wantPanics = append(wantPanics, v)
			if _, ok := v.(runtime.Error); ok {
				runtimeFaults++
			}
		}
	}
	expected := len(c.Tasks) - nilCount // functions that can run
	// phase 1+2: submit everything; release the gates one at a time, each time from a quiescent state
	go submitLoop(l, w, bodies)
	order := append([]int(nil), c.Order...)
	closed := map[int]bool{}
	saturated := false
	var waitReturned int32
	waitDone := make(chan struct{})
	waitStarted := false
	for {
		blockedSub, err := w.waitQuiescent(len(c.Tasks))
		if err != nil {
			return err
		}
		if !waitStarted && atomic.LoadInt32(&w.submitterDone) == 1 {
			// every Go call has returned: from now on Wait() must block until all functions have finished
			waitStarted = true
			go func() { waitUntimed(l, c.WaitForm); atomic.StoreInt32(&waitReturned, 1); close(waitDone) }()
		}
		if atomic.LoadInt32(&waitReturned) == 1 {
			if f := atomic.LoadInt32(&w.finished); int(f) != expected {
				return fmt.Errorf("Wait() returned with %d of %d functions finished", f, expected)
			}
		}
		if blockedSub {
			// the submitter waits for a slot while nothing runs: every slot must be held by a parked task
			if b := atomic.LoadInt32(&w.blocked); int(b) != n {
				return fmt.Errorf("slot leak: the submitter is blocked in Limiter.Go although only %d of %d slots are held by running functions (submitted %d, finished %d); goroutines of the Limiter: %s", b, n, atomic.LoadInt32(&w.submitted), atomic.LoadInt32(&w.finished), w.lastDump)
			}
			saturated = true
		}
		// release the next gate whose task may be parked or not yet started
		next := -1
		for _, g := range order {
			if !closed[g] {
				next = g
				break
			}
		}
		if next < 0 {
			if !blockedSub {
				break
			}
			return fmt.Errorf("HARNESS: submitter blocked but every gate is open")
		}
		closed[next] = true
		atomic.StoreInt32(&w.opened[next], 1)
		close(w.gates[next])
	}
	if !waitStarted {
		go func() { waitUntimed(l, c.WaitForm); atomic.StoreInt32(&waitReturned, 1); close(waitDone) }()
	}
	if err := awaitWait(waitDone, "Wait()"); err != nil {
		return err
	}
	if f := atomic.LoadInt32(&w.finished); int(f) != expected {
		return fmt.Errorf("Wait() returned with %d of %d functions finished", f, expected)
	}
	for i := range c.Tasks {
		if c.Tasks[i].B == bNil {
			continue
		}
		if e := atomic.LoadInt32(&w.execs[i]); e != 1 {
			return fmt.Errorf("task %d executed %d times", i, e)
		}
	}
	if v := w.violation.Load(); v != nil {
		return fmt.Errorf("%s", v)
	}
	if c.Handler && c.LogDepth > 0 {
		// the library's logging handler: one Error call per panic (a nil func may add one), each line naming the value
		lines := logged.lines()
		used := make([]bool, len(lines))
		for _, want := range wantPanics {
			text := fmt.Sprintf("panic: %v  Traceback:", want) // up to the delimiter: "p1" must not claim the line of "p14"
			if len(text) > 64 {
				text = text[:40] // a padded message: its beginning (which ends in ":x...") identifies the line; whether a logger may clip long texts is not the property's business
			}
			found := false
			for j, ln := range lines {
				if !used[j] && strings.HasPrefix(ln, text) {
					used[j], found = true, true
					break
				}
			}
			if !found {
				return fmt.Errorf("LogPanic(logger, %d) is the handler: a function panicked with %T(%v) but no logged line starts with %q; logged: %q", c.LogDepth, want, want, text, lines)
			}
		}
		if len(lines) < len(wantPanics) || len(lines) > len(wantPanics)+nilCount+goexits {
			return fmt.Errorf("LogPanic handler: %d lines logged for %d panics: %q", len(lines), len(wantPanics), lines)
		}
		r.ClassIf(len(wantPanics) > 0 && c.LogDepth > 32, "library LogPanic handler with a depth above 32")
	} else if c.Handler {
		w.mu.Lock()
		got := append([]any(nil), w.handled...)
		w.mu.Unlock()
		// every raised value reaches the handler exactly once, as the value itself (multiset match)
		used := make([]bool, len(got))
		for _, want := range wantPanics {
			found := false
			for j, g := range got {
				if !used[j] && samePanic(want, g) {
					used[j], found = true, true
					break
				}
			}
			if !found {
				return fmt.Errorf("a function panicked with %T(%v) but the handler did not receive that value; it received %d value(s): %s", want, want, len(got), describe(got))
			}
		}
		// a nil func may or may not be reported to the handler (calling it faults inside the Limiter's worker);
		// if it is, the value is the runtime's error
		spare := 0
		for j, g := range got {
			if !used[j] {
				if g == nil && goexits > 0 {
					continue // a handler told about a Goexit (recover() returns nil there) is tolerated
				}
				if _, ok := g.(runtime.Error); !ok || spare >= nilCount {
					return fmt.Errorf("panic handler was called %d times for %d panics (and %d nil functions): unexpected value %T(%v); all values: %s", len(got), len(wantPanics), nilCount, g, g, describe(got))
				}
				spare++
			}
		}
		r.ClassIf(runtimeFaults > 0, "handler checked against a fault raised by the runtime")
	}
	if c.Timed {
		// the timed form on an idle Limiter returns at once and leaves nothing behind; the untimed Wait of the
		// next phase must still block (only done while idle: a timed Wait that expires leaves a goroutine inside
		// WaitGroup.Wait, and submitting again then is a documented WaitGroup misuse in the library as it is)
		l.Wait(5 * time.Second)
		// make sure the helper goroutine of the timed Wait is gone before anything is submitted again
		for deadline := time.Now().Add(20 * time.Second); ; {
			buf := make([]byte, 1<<18)
			if !strings.Contains(string(buf[:runtime.Stack(buf, true)]), "goz.(*Limiter).Wait.func") {
				break
			}
			if time.Now().After(deadline) {
				return inconclusive{"the helper goroutine of a timed Wait on an idle Limiter did not finish within 20s"}
			}
			runtime.Gosched()
		}
		r.Class("timed Wait on the idle Limiter")
	}
	extra := 0
	if c.Expire && os.Getenv("VERIF_MODE") != "race" {
		// a timed Wait gives up while functions are running; they finish afterwards with nobody waiting, the
		// Limiter goes idle (the helper goroutine of the timed Wait is gone) and is then used again in phase 3,
		// where Wait() must block as ever. Not under the race detector: it has no way to see that the helper's
		// WaitGroup.Wait returned before the next Add and reports the reuse on the unchanged library.
		extra = 1 + len(c.Tasks)%n
		var mid []func()
		for i := 0; i < extra; i++ {
			w.gates[len(c.Tasks)+i] = make(chan struct{})
			mid = append(mid, w.body(len(c.Tasks)+i, task{B: bGate}))
		}
		atomic.StoreInt32(&w.submitterDone, 0)
		go submitLoop(l, w, mid)
		if _, err := w.waitQuiescent(extra); err != nil {
			return err
		}
		timedDone := make(chan struct{})
		go func() { l.Wait(20 * time.Millisecond); close(timedDone) }()
		select {
		case <-timedDone:
		case <-time.After(20 * time.Second):
			return inconclusive{"Wait(20ms) did not return within 20s"}
		}
		for i := 0; i < extra; i++ {
			atomic.StoreInt32(&w.opened[len(c.Tasks)+i], 1)
			close(w.gates[len(c.Tasks)+i])
		}
		if _, err := w.waitQuiescent(extra); err != nil {
			return err
		}
		for deadline := time.Now().Add(20 * time.Second); ; {
			buf := make([]byte, 1<<18)
			if d := string(buf[:runtime.Stack(buf, true)]); !strings.Contains(d, "goz.(*Limiter).Wait") && !strings.Contains(d, "goz.(*Limiter).done") {
				break
			}
			if time.Now().After(deadline) {
				return inconclusive{"the helper goroutine of an expired timed Wait did not finish within 20s after all functions had finished"}
			}
			runtime.Gosched()
		}
		if f := atomic.LoadInt32(&w.finished); int(f) != expected+extra {
			return fmt.Errorf("HARNESS: %d of %d functions finished before phase 3", f, expected+extra)
		}
		r.Class("timed Wait expired while functions ran, Limiter reused after going idle")
	}
	if c.Churn > 0 && c.Churn <= 200000 {
		churn := c.Churn
		if os.Getenv("VERIF_MODE") == "race" && churn > 5000 {
			churn = 5000 // the race detector makes goroutine starts an order of magnitude slower
		}
		var ran, submitted int64
		fn := func() { atomic.AddInt64(&ran, 1) }
		subDone := make(chan struct{})
		go churnLoop(l, fn, churn, &submitted, subDone)
		// Go must keep admitting: the functions return at once. If every function admitted so far has finished, no
		// worker goroutine of the Limiter exists any more (nobody is left who could give a slot back) and the
		// submitter still sits inside Go, the Limiter has lost its slots (state-based; time only confirms stability).
		stuck, lastSub := 0, int64(-1)
		for deadline := time.Now().Add(60 * time.Second); ; {
			select {
			case <-subDone:
			case <-time.After(100 * time.Millisecond):
				sub, rn := atomic.LoadInt64(&submitted), atomic.LoadInt64(&ran)
				if sub == lastSub && rn == sub && limiterWorkers() == 0 {
					if stuck++; stuck >= 5 {
						return fmt.Errorf("slot leak after %d short functions on one Limiter (limit %d): all of them have finished, no worker goroutine is left, and the next Go call does not return", sub, n)
					}
				} else {
					stuck = 0
				}
				lastSub = sub
				if time.Now().After(deadline) {
					return inconclusive{fmt.Sprintf("submitting %d short functions did not finish within 60s (%d submitted, %d ran)", churn, sub, rn)}
				}
				continue
			}
			break
		}
		churnDone := make(chan struct{})
		go func() { waitUntimed(l, c.WaitForm); close(churnDone) }()
		if err := awaitWait(churnDone, fmt.Sprintf("Wait() after %d short functions", churn)); err != nil {
			return err
		}
		if got := atomic.LoadInt64(&ran); got != int64(churn) {
			return fmt.Errorf("Wait() returned after %d of %d short functions had run", got, churn)
		}
		r.ClassIf(churn >= 65536, "more than 65536 functions completed on one Limiter before the saturation probe")
	}
	// phase 3: after the panics, n more gate-blocked functions must all get inside at the same time
	base := len(c.Tasks) + extra
	var more []func()
	for i := 0; i < n; i++ {
		w.gates[base+i] = make(chan struct{})
		more = append(more, w.body(base+i, task{B: bGate}))
	}
	atomic.StoreInt32(&w.submitterDone, 0)
	go submitLoop(l, w, more)
	blockedSub, err := w.waitQuiescent(n)
	if err != nil {
		return err
	}
	if b := atomic.LoadInt32(&w.blocked); blockedSub || int(b) != n {
		return fmt.Errorf("slot leak after %d panics: only %d of %d later submissions run concurrently (submitter blocked: %v); goroutines of the Limiter: %s", len(wantPanics), b, n, blockedSub, w.lastDump)
	}
	// the Limiter is being reused: Wait() must block while the n functions are parked inside
	waitDone2 := make(chan struct{})
	var waitReturned2 int32
	go func() { waitUntimed(l, c.WaitForm); atomic.StoreInt32(&waitReturned2, 1); close(waitDone2) }()
	for deadline := time.Now().Add(20 * time.Second); ; {
		if atomic.LoadInt32(&waitReturned2) == 1 {
			return fmt.Errorf("Wait() on a reused Limiter returned while %d submitted functions were still running", atomic.LoadInt32(&w.blocked))
		}
		if waiterParked() {
			break
		}
		if time.Now().After(deadline) {
			return inconclusive{"the goroutine calling the second Wait() neither parked nor returned within 20s"}
		}
		runtime.Gosched()
	}
	for i := 0; i < n; i++ {
		atomic.StoreInt32(&w.opened[base+i], 1)
		close(w.gates[base+i])
	}
	if err := awaitWait(waitDone2, "the second Wait() (Limiter reused)"); err != nil {
		return err
	}
	if v := w.violation.Load(); v != nil {
		return fmt.Errorf("%s", v)
	}
	if f := atomic.LoadInt32(&w.finished); int(f) != expected+extra+n {
		return fmt.Errorf("second Wait() returned with %d of %d functions finished", f, expected+extra+n)
	}
	if int(atomic.LoadInt32(&w.maxInside)) > n {
		return fmt.Errorf("max concurrency %d > limit %d", w.maxInside, n)
	}
	r.ClassIf(saturated, "saturated: submitter blocked with all slots held")
	r.ClassIf(len(wantPanics) > 0, "panics raised")
	r.ClassIf(c.Limit < 1, "limit below 1 (default 3)")
	r.ClassIf(nilCount > 0, "nil func submitted")
	r.ClassIf(goexits > 0, "function ended by runtime.Goexit")
	r.ClassIf(c.WaitForm == 1, "Wait called with an empty non-nil duration slice")
	r.ClassIf(!c.Handler && len(wantPanics) > 0, "panic without handler")
	r.ClassIf(len(wantPanics) > 0 && c.MsgLen >= 255 && c.MsgLen <= 257, "panic message of exactly 255..257 bytes")
	r.ClassIf(len(wantPanics) > 0 && c.MsgLen >= 4095, "panic message of >= 4095 bytes")
	r.ClassIf(int(w.maxInside) == n, "limit reached")
	r.NonTrivialIf(len(wantPanics) > 0 && saturated)
	return nil
}

// logSink is the Logger handed to goz.LogPanic.
type logSink struct {
	mu sync.Mutex
	ls []string
}

func (s *logSink) Error(args ...any) {
	s.mu.Lock()
	s.ls = append(s.ls, fmt.Sprint(args...))
	s.mu.Unlock()
}

func (s *logSink) lines() []string {
	s.mu.Lock()
	defer s.mu.Unlock()
	return append([]string(nil), s.ls...)
}

func describe(vs []any) string {
	var b strings.Builder
	for _, v := range vs {
		fmt.Fprintf(&b, "%T(%.80v) ", v, v)
	}
	return b.String()
}

func TestLimiter(t *testing.T) {
	st := pb.Stats("limiter")
	st.SetRule("scenarios: limit -2..6 (below 1 => 3), 1..24 functions that return / yield / park on a harness gate / panic (before or after the gate), drawn gate release order, with or without panic handler, panic messages (string and error values) as drawn or padded to exactly 15..17, 63..65, 127..129, 255..257, 511..513, 1023..1025, 4095..4097, 65535..65537 bytes (at most 1025 when the default reporter prints them), GOMAXPROCS 1..16; the harness releases one gate at a time, each time from a quiescent state, and after Wait() submits n more parked functions that must all run concurrently; monitors: concurrency never above n, exactly-once execution, Wait() only after all finished, handler receives every panic value itself (strings, pointers by identity, runtime faults by type and message), an expired timed Wait followed by idle and reuse (plain mode), no slot leaked (state-based: submitter parked in the Limiter's channel send while fewer than n functions hold slots); schedules inside the Limiter are sampled, not owned; non-trivial = a panic followed by a saturation phase")
	st.Require("more than 4096 unrelated goroutines parked in the process", "Limiter used as one expression, collections while its function is parked, late panic", "panic message of exactly 255..257 bytes", "panic message of >= 4095 bytes", "second Limiter saturated alongside", "timed Wait on the idle Limiter", "handler checked against a fault raised by the runtime", "nil func submitted", "panic handler configured after the Limiter was first used", "library LogPanic handler with a depth above 32", "function ended by runtime.Goexit", "more than 65536 functions completed on one Limiter before the saturation probe", "Wait called with an empty non-nil duration slice", "timed Wait expired while functions ran, Limiter reused after going idle", "saturated: submitter blocked with all slots held", "panics raised", "limit below 1 (default 3)", "panic without handler", "limit reached")
	// the default panic handler prints to stdout: keep the test output clean (swapped once, not per case)
	if dn, err := os.OpenFile(os.DevNull, os.O_WRONLY, 0); err == nil {
		old := os.Stdout
		os.Stdout = dn
		defer func() { os.Stdout = old; dn.Close() }()
	}
	g := rapid.Custom(gen)
	n := pb.Scaled(400)
	for i := 0; i < n; i++ {
		c := g.Example(int(pb.Seed("limiter")%1000003) + i)
		js, _ := json.Marshal(c)
		if cur := os.Getenv("VERIF_CURRENT_CASE"); cur != "" {
			b, _ := json.Marshal(pb.ReplayFile{Property: os.Getenv("VERIF_PROPERTY"), Prop: "limiter", Kind: "race-detector", Mode: os.Getenv("VERIF_MODE"), Case: js})
			os.WriteFile(cur, b, 0o644)
		}
		rec := &pb.Rec{}
		err := run(c, rec)
		if _, inc := err.(inconclusive); inc {
			rec.Class(err.Error())
			st.Note("%v: %s", err, js)
			st.Case(js, rec)
			t.Errorf("NO-VERDICT %v", err)
			return
		}
		if err != nil {
			st.Violation("scenario", js, err)
			t.Fatalf("scenario %s: %v", js, err)
		}
		st.Case(js, rec)
	}
}

func init() {
	pb.RegisterReplay("limiter", func(raw json.RawMessage) error {
		var c limCase
		if err := json.Unmarshal(raw, &c); err != nil {
			return fmt.Errorf("BADREPLAY: %v", err)
		}
		for i := 0; i < 50; i++ { // schedule-dependent: repeat
			if err := run(c, &pb.Rec{}); err != nil {
				return err
			}
		}
		return nil
	})
}
