package c04

// Handles of heaps that no longer exist. A program keeps an element handle of a heap it has dropped; after a
// garbage collection a new heap is built (its internals may occupy the memory of the old one). Remove and Fix
// with the old handle must be ignored by the new heap, like any handle of another heap.

import (
	"fmt"
	"runtime"
	"sort"

	"github.com/welllog/golib/heapz"
	"pgregory.net/rapid"

	"verif/harness/internal/pb"
)

type droppedCase struct {
	Rounds int
	N      int   // elements of every heap
	Keep   []int // positions (push order) of the handles kept from every dropped heap
	Vals   []int
}

func genDropped(t *rapid.T) droppedCase {
	n := rapid.IntRange(1, 12).Draw(t, "n")
	return droppedCase{Rounds: rapid.IntRange(2, 6).Draw(t, "rounds"), N: n,
		Keep: rapid.SliceOfN(rapid.IntRange(0, n-1), 1, 3).Draw(t, "keep"), Vals: rapid.SliceOfN(rapid.IntRange(0, 9), n, n).Draw(t, "vals")}
}

func runDropped(c droppedCase, r *pb.Rec) error {
	if c.Rounds < 1 || c.Rounds > 10 || c.N < 1 || c.N > 64 || len(c.Vals) != c.N || len(c.Keep) > 8 {
		return nil
	}
	lessInt := func(a, b int) bool { return a < b }
	var kept []*heapz.Element[int]
	build := func(round int) (*heapz.Heap[int], []*heapz.Element[int]) {
		h := heapz.New[int](round%3, lessInt)
		var hs []*heapz.Element[int]
		for _, v := range c.Vals {
			hs = append(hs, h.Push(v+100*round))
		}
		return &h, hs
	}
	for round := 0; round < c.Rounds; round++ {
		func() { // a heap that is dropped with its elements still in it; the program keeps some handles
			_, hs := build(round)
			for _, k := range c.Keep {
				if k >= 0 && k < len(hs) {
					kept = append(kept, hs[k])
				}
			}
		}()
		runtime.GC()
		h, hs := build(round)
		for _, old := range kept {
			h.Remove(old)
			h.Fix(old)
		}
		if h.Len() != c.N {
			return fmt.Errorf("round %d: Remove/Fix with handles of heaps that were dropped (a collection ago) changed a new heap: Len %d, want %d", round, h.Len(), c.N)
		}
		for i, e := range hs {
			if e.Index() < 0 {
				return fmt.Errorf("round %d: element %d of the new heap was taken out by Remove with a handle of a dropped heap", round, i)
			}
		}
		want := append([]int(nil), c.Vals...)
		sort.Ints(want)
		for i, w := range want {
			e := h.Pop()
			if e == nil || e.Value != w+100*round {
				return fmt.Errorf("round %d: pop %d of the new heap = %v, want %d", round, i, e, w+100*round)
			}
		}
	}
	r.NonTrivialIf(c.N >= 3)
	return nil
}

func init() {
	pb.Register("heap_handles_of_dropped_heaps", pb.Options{Base: 150,
		Rule: "2..6 rounds: a heap of 1..12 elements is built and dropped while the program keeps 1..3 of its element handles, a garbage collection runs, a new heap with the same number of elements is built, and Remove / Fix are called on it with every kept handle; oracle: the new heap keeps all its elements (Len, Index() of its handles, drain in sorted order); non-trivial = >= 3 elements"},
		genDropped, runDropped)
}
