// C04 — heapz heaps behave as priority queues with stable element handles.
package c04

import (
	stdheap "container/heap"
	"fmt"
	"sort"
	"testing"

	"github.com/welllog/golib/heapz"
	"pgregory.net/rapid"

	"verif/harness/internal/pb"
)

func TestMain(m *testing.M)   { pb.Main(m) }
func TestProps(t *testing.T)  { pb.RunProps(t) }
func TestReplay(t *testing.T) { pb.RunReplay(t) }

type val struct{ A, B, ID int }

// strict weak orders with many ties
var orders = []func(x, y val) bool{
	func(x, y val) bool { return x.A < y.A },
	func(x, y val) bool { return x.A > y.A },
	func(x, y val) bool { return x.A < y.A || (x.A == y.A && x.B < y.B) },
	func(x, y val) bool { return x.A/2 < y.A/2 }, // coarser classes: more ties
}

type hop struct {
	K    int
	A, B int // value fields / index
	H    int // handle selector
}

const (
	hPush = iota
	hPushElemFresh
	hPushElemPopped
	hPop
	hPeek
	hRemoveLive
	hRemoveStale
	hRemoveForeign
	hFixLive
	hFixStale
	hFixForeign
	hInit
	hPopAll
	nH
)

type heapCase struct {
	Order int
	Cap   int
	Ops   []hop
}

func genHeap(t *rapid.T) heapCase {
	c := heapCase{Order: rapid.IntRange(0, len(orders)-1).Draw(t, "order"), Cap: rapid.IntRange(0, 4).Draw(t, "cap")}
	kinds := []int{hPush, hPush, hPush, hPush, hPushElemFresh, hPushElemPopped, hPop, hPop, hPeek, hRemoveLive, hRemoveLive, hRemoveStale, hRemoveForeign, hFixLive, hFixLive, hFixLive, hFixStale, hFixForeign, hInit, hPopAll}
	n := rapid.IntRange(1, 80).Draw(t, "nops")
	for i := 0; i < n; i++ {
		k := rapid.SampledFrom(kinds).Draw(t, "op")
		if (k == hInit || k == hPopAll) && rapid.IntRange(0, 3).Draw(t, "rare") != 0 {
			k = hPush
		}
		c.Ops = append(c.Ops, hop{K: k, A: rapid.IntRange(0, 5).Draw(t, "a"), B: rapid.IntRange(0, 2).Draw(t, "b"), H: rapid.IntRange(0, 1000).Draw(t, "h")})
	}
	return c
}

func runHeap(c heapCase, r *pb.Rec) error {
	if c.Order < 0 || c.Order >= len(orders) {
		return nil
	}
	less := orders[c.Order]
	h := heapz.New[val](c.Cap, less)
	other := heapz.New[val](0, less) // supplies foreign handles
	var foreign []*heapz.Element[val]
	for i := 0; i < 5; i++ {
		foreign = append(foreign, other.Push(val{A: i, ID: -1 - i}))
	}
	// the model is keyed by the unique value ID; handles are learned when the heap hands them out
	// (Push, Peek, Pop) - after Init(slice) none is known until Peek/Pop reveals one
	model := map[int]val{}
	known := map[int]*heapz.Element[val]{} // ID -> handle of a live element
	var stale []*heapz.Element[val]
	nextID := 0
	newVal := func(o hop) val { nextID++; return val{A: o.A, B: o.B, ID: nextID} }
	knownList := func() []*heapz.Element[val] {
		ids := make([]int, 0, len(known))
		for id := range known {
			ids = append(ids, id)
		}
		sort.Ints(ids)
		out := make([]*heapz.Element[val], len(ids))
		for i, id := range ids {
			out[i] = known[id]
		}
		return out
	}
	// checkOut validates an element handed out by Peek/Pop: a live member, the same handle as before, minimal
	checkOut := func(e *heapz.Element[val], what string) error {
		if e == nil {
			return fmt.Errorf("%s returned nil with %d elements", what, len(model))
		}
		m, ok := model[e.Value.ID]
		if !ok || m != e.Value {
			return fmt.Errorf("%s returned %+v which is not a live element (model has %+v, present %v)", what, e.Value, m, ok)
		}
		if k, ok := known[e.Value.ID]; ok && k != e {
			return fmt.Errorf("%s returned a different handle for element %d: handles are not stable", what, e.Value.ID)
		}
		for _, x := range model {
			if less(x, e.Value) {
				return fmt.Errorf("%s returned %+v but live element %+v precedes it", what, e.Value, x)
			}
		}
		return nil
	}
	hasTie := func() bool {
		vs := make([]val, 0, len(model))
		for _, v := range model {
			vs = append(vs, v)
		}
		for i, x := range vs {
			for _, y := range vs[i+1:] {
				if !less(x, y) && !less(y, x) {
					return true
				}
			}
		}
		return false
	}
	interesting := false
	afterInit := false
	for step, o := range c.Ops {
		fail := func(f string, a ...any) error {
			return fmt.Errorf("step %d op %d: %s", step, o.K, fmt.Sprintf(f, a...))
		}
		switch o.K {
		case hPush:
			v := newVal(o)
			e := h.Push(v)
			if e == nil || e.Value != v {
				return fail("Push returned a wrong element")
			}
			model[v.ID], known[v.ID] = v, e
		case hPushElemFresh:
			v := newVal(o)
			e := &heapz.Element[val]{Value: v}
			h.PushElement(e)
			model[v.ID], known[v.ID] = v, e
		case hPushElemPopped:
			if len(stale) == 0 {
				continue
			}
			i := o.H % len(stale)
			e := stale[i]
			stale = append(stale[:i], stale[i+1:]...)
			e.Value = newVal(o)
			h.PushElement(e)
			model[e.Value.ID], known[e.Value.ID] = e.Value, e
			r.Class("popped element pushed again")
		case hPop:
			e := h.Pop()
			if len(model) == 0 {
				if e != nil {
					return fail("Pop on empty heap returned %+v", e.Value)
				}
				continue
			}
			if err := checkOut(e, "Pop"); err != nil {
				return fail("%v", err)
			}
			if e.Index() != -1 {
				return fail("popped element reports Index() = %d", e.Index())
			}
			delete(model, e.Value.ID)
			delete(known, e.Value.ID)
			stale = append(stale, e)
		case hPeek:
			e := h.Peek()
			if len(model) == 0 {
				if e != nil {
					return fail("Peek on empty heap returned %+v", e.Value)
				}
				continue
			}
			if err := checkOut(e, "Peek"); err != nil {
				return fail("%v", err)
			}
			if _, ok := known[e.Value.ID]; !ok && afterInit {
				r.Class("handle learned through Peek after Init")
			}
			known[e.Value.ID] = e
		case hRemoveLive:
			ks := knownList()
			if len(ks) == 0 {
				continue
			}
			e := ks[o.H%len(ks)]
			idx := e.Index()
			if len(model) >= 4 && idx > 0 && idx < len(model)-1 && hasTie() {
				interesting = true
				r.Class("remove by handle in the middle")
			}
			r.ClassIf(afterInit, "Remove/Fix by a handle of an Init-built heap")
			h.Remove(e)
			if e.Index() != -1 {
				return fail("removed element reports Index() = %d", e.Index())
			}
			delete(model, e.Value.ID)
			delete(known, e.Value.ID)
			stale = append(stale, e)
		case hRemoveStale:
			if len(stale) == 0 {
				continue
			}
			h.Remove(stale[o.H%len(stale)])
			r.Class("stale handle")
		case hRemoveForeign:
			h.Remove(foreign[o.H%len(foreign)])
			r.Class("foreign handle")
		case hFixLive:
			ks := knownList()
			if len(ks) == 0 {
				continue
			}
			e := ks[o.H%len(ks)]
			idx := e.Index()
			e.Value.A, e.Value.B = o.A, o.B
			model[e.Value.ID] = e.Value
			if len(model) >= 4 && idx > 0 && idx < len(model)-1 && hasTie() {
				interesting = true
			}
			r.ClassIf(afterInit, "Remove/Fix by a handle of an Init-built heap")
			h.Fix(e)
			if ni := e.Index(); ni >= 0 && idx >= 0 {
				r.ClassIf(ni < idx, "fix moved up")
				r.ClassIf(ni > idx, "fix moved down")
			}
		case hFixStale:
			if len(stale) == 0 {
				continue
			}
			e := stale[o.H%len(stale)]
			e.Value.A = o.A
			h.Fix(e)
			r.Class("stale handle")
		case hFixForeign:
			h.Fix(foreign[o.H%len(foreign)])
			r.Class("foreign handle")
		case hInit:
			// the old content and all its handles are dropped (Init with live handles is undefined);
			// handles of the new content become known only through Peek/Pop
			n := o.H % 9
			s := make([]val, n)
			model, known, stale = map[int]val{}, map[int]*heapz.Element[val]{}, nil
			for i := range s {
				nextID++
				s[i] = val{A: (o.A + i*(o.B+1)*5) % 6, B: i % 3, ID: nextID}
				model[nextID] = s[i]
			}
			if o.A%2 == 1 { // re-initialise with another comparator: the heap must order by the new one from now on
				less = orders[(c.Order+1+o.B)%len(orders)]
				r.Class("Init with another comparator")
			}
			h.Init(s, less)
			afterInit = true
			r.Class("Init")
		case hPopAll:
			// PopAll is repeated Pop: the loop body may push while draining, or stop early
			pushes := o.A % 3
			stopAt := -1
			if o.B == 2 {
				stopAt = o.H % 4
			}
			n := 0
			var bad error
			h.PopAll()(func(v val) bool {
				m, ok := model[v.ID]
				if !ok || m != v {
					bad = fmt.Errorf("PopAll yielded %+v which is not a live element", v)
					return false
				}
				for _, x := range model {
					if less(x, v) {
						bad = fmt.Errorf("PopAll yielded %+v while %+v, which precedes it, is still stored", v, x)
						return false
					}
				}
				delete(model, v.ID)
				if e, ok := known[v.ID]; ok {
					stale = append(stale, e)
					delete(known, v.ID)
				}
				if n < pushes { // the consumer pushes new work while draining
					nv := newVal(hop{A: (v.A + n*3 + o.H) % 6, B: n % 3})
					e := h.Push(nv)
					model[nv.ID], known[nv.ID] = nv, e
					r.Class("push during PopAll")
				}
				if o.B == 1 && n%2 == 1 && len(model) > 0 {
					// ... or takes a further element itself (a batch consumer): PopAll goes on with what is left
					e := h.Pop()
					if e == nil {
						bad = fmt.Errorf("Pop inside a PopAll loop returned nil with %d elements stored", len(model))
						return false
					}
					if m, ok := model[e.Value.ID]; !ok || m != e.Value {
						bad = fmt.Errorf("Pop inside a PopAll loop returned %+v which is not a live element", e.Value)
						return false
					}
					delete(model, e.Value.ID)
					delete(known, e.Value.ID)
					stale = append(stale, e)
					r.Class("pop during PopAll")
				}
				n++
				return n-1 != stopAt
			})
			if bad != nil {
				return fail("%v", bad)
			}
			if stopAt < 0 && len(model) != 0 {
				return fail("PopAll ended with %d elements left", len(model))
			}
			r.Class("PopAll")
		}
		if h.Len() != len(model) {
			return fail("Len = %d, model %d", h.Len(), len(model))
		}
		if other.Len() != len(foreign) {
			return fail("the other heap changed size: %d", other.Len())
		}
		for _, e := range stale {
			if e.Index() != -1 {
				return fail("element that left the heap reports Index() = %d", e.Index())
			}
		}
		if len(model) > 0 {
			if err := checkOut(h.Peek(), "Peek after step"); err != nil {
				return fail("%v", err)
			}
		}
	}
	// final drain
	var prev *heapz.Element[val]
	for len(model) > 0 {
		e := h.Pop()
		if err := checkOut(e, "final drain: Pop"); err != nil {
			return err
		}
		if prev != nil && less(e.Value, prev.Value) {
			return fmt.Errorf("final drain not sorted: %+v before %+v", prev.Value, e.Value)
		}
		prev = e
		delete(model, e.Value.ID)
	}
	if h.Pop() != nil || h.Len() != 0 {
		return fmt.Errorf("heap not empty after draining all live elements")
	}
	r.NonTrivialIf(interesting)
	return nil
}

// ---------------------------------------------------------------- Slice[T]

type sliceCase struct {
	Order int
	Init  []int
	Ops   []hop
}

const (
	sPush = iota
	sPop
	sPeek
	sRemove
	sFix
	sPopAll
)

func genSlice(t *rapid.T) sliceCase {
	c := sliceCase{Order: rapid.IntRange(0, len(orders)-1).Draw(t, "order"), Init: rapid.SliceOfN(rapid.IntRange(0, 5), 0, 8).Draw(t, "init")}
	kinds := []int{sPush, sPush, sPush, sPop, sPeek, sRemove, sRemove, sFix, sFix, sPopAll}
	n := rapid.IntRange(1, 60).Draw(t, "nops")
	for i := 0; i < n; i++ {
		k := rapid.SampledFrom(kinds).Draw(t, "op")
		if k == sPopAll && rapid.IntRange(0, 4).Draw(t, "rare") != 0 {
			k = sPush
		}
		c.Ops = append(c.Ops, hop{K: k, A: rapid.IntRange(0, 5).Draw(t, "a"), B: rapid.IntRange(0, 2).Draw(t, "b"), H: rapid.IntRange(-1, 12).Draw(t, "i")})
	}
	return c
}

func heapOrdered(vs []val, less func(x, y val) bool) error {
	for i := 1; i < len(vs); i++ {
		if less(vs[i], vs[(i-1)/2]) {
			return fmt.Errorf("heap order violated: Values[%d]=%+v precedes its parent Values[%d]=%+v", i, vs[i], (i-1)/2, vs[(i-1)/2])
		}
	}
	return nil
}

func runSlice(c sliceCase, r *pb.Rec) error {
	if c.Order < 0 || c.Order >= len(orders) {
		return nil
	}
	less := orders[c.Order]
	model := map[int]val{} // by ID
	id := 0
	init := make([]val, len(c.Init))
	for i, a := range c.Init {
		id++
		init[i] = val{A: a, B: i % 3, ID: id}
		model[id] = init[i]
	}
	s := heapz.FromSlice(init, less)
	if len(init) == 0 && c.Order%2 == 0 {
		s = heapz.NewSlice[val](len(c.Ops)%5, less) // the other constructor: empty, with some spare capacity
	}
	same := func(where string) error {
		if s.Len() != len(model) || len(s.Values) != len(model) {
			return fmt.Errorf("%s: Len = %d, model %d", where, s.Len(), len(model))
		}
		for _, v := range s.Values {
			if m, ok := model[v.ID]; !ok || m != v {
				return fmt.Errorf("%s: Values holds %+v, model has %+v (present %v)", where, v, m, ok)
			}
		}
		seen := map[int]bool{}
		for _, v := range s.Values {
			if seen[v.ID] {
				return fmt.Errorf("%s: element %+v duplicated", where, v)
			}
			seen[v.ID] = true
		}
		return heapOrdered(s.Values, less)
	}
	if err := same("after FromSlice"); err != nil {
		return err
	}
	interesting := false
	for step, o := range c.Ops {
		fail := func(f string, a ...any) error {
			return fmt.Errorf("step %d op %d i=%d: %s", step, o.K, o.H, fmt.Sprintf(f, a...))
		}
		minimal := func(v val) error {
			for _, x := range model {
				if less(x, v) {
					return fmt.Errorf("returned %+v but %+v precedes it", v, x)
				}
			}
			return nil
		}
		switch o.K {
		case sPush:
			id++
			v := val{A: o.A, B: o.B, ID: id}
			s.Push(v)
			model[id] = v
		case sPop:
			v, ok := s.Pop()
			if ok != (len(model) > 0) {
				return fail("Pop ok=%v with %d elements", ok, len(model))
			}
			if ok {
				if m, in := model[v.ID]; !in || m != v {
					return fail("Pop returned %+v which is not an element", v)
				}
				if err := minimal(v); err != nil {
					return fail("Pop %v", err)
				}
				delete(model, v.ID)
			}
		case sPeek:
			v, ok := s.Peek()
			if ok != (len(model) > 0) {
				return fail("Peek ok=%v with %d elements", ok, len(model))
			}
			if ok {
				if err := minimal(v); err != nil {
					return fail("Peek %v", err)
				}
			}
		case sRemove:
			valid := o.H >= 0 && o.H < len(s.Values)
			var want val
			if valid {
				want = s.Values[o.H]
				if len(s.Values) >= 4 && o.H > 0 && o.H < len(s.Values)-1 {
					interesting = true
				}
			}
			v, ok := s.Remove(o.H)
			if ok != valid || (ok && v != want) {
				return fail("Remove = %+v,%v; want %+v,%v", v, ok, want, valid)
			}
			if ok {
				delete(model, v.ID)
			}
			r.ClassIf(!valid, "index out of range")
		case sFix:
			if o.H >= 0 && o.H < len(s.Values) {
				v := s.Values[o.H]
				v.A, v.B = o.A, o.B
				s.Values[o.H] = v
				model[v.ID] = v
				if len(s.Values) >= 4 && o.H > 0 && o.H < len(s.Values)-1 {
					interesting = true
				}
			} else {
				r.Class("index out of range")
			}
			s.Fix(o.H)
		case sPopAll:
			// repeated Pop; the loop body may push while draining, or stop early
			pushes := o.A % 3
			stopAt := -1
			if o.B == 2 {
				stopAt = (o.H + 1) % 4
			}
			n := 0
			var bad error
			s.PopAll()(func(v val) bool {
				if m, in := model[v.ID]; !in || m != v {
					bad = fmt.Errorf("PopAll invented %+v", v)
					return false
				}
				if err := minimal(v); err != nil {
					bad = fmt.Errorf("PopAll %v", err)
					return false
				}
				delete(model, v.ID)
				if n < pushes {
					id++
					nv := val{A: (v.A + n*3 + o.H + 6) % 6, B: n % 3, ID: id}
					s.Push(nv)
					model[id] = nv
					r.Class("push during PopAll")
				}
				if o.B == 1 && n%2 == 1 && len(model) > 0 {
					x, ok := s.Pop()
					if m, in := model[x.ID]; !ok || !in || m != x {
						bad = fmt.Errorf("Pop inside a PopAll loop returned %+v,%v with %d elements stored", x, ok, len(model))
						return false
					}
					delete(model, x.ID)
					r.Class("pop during PopAll")
				}
				n++
				return n-1 != stopAt
			})
			if bad != nil {
				return fail("%v", bad)
			}
			if stopAt < 0 && len(model) != 0 {
				return fail("PopAll ended with %d elements left", len(model))
			}
		}
		if err := same(fmt.Sprintf("after step %d (op %d i=%d)", step, o.K, o.H)); err != nil {
			return err
		}
	}
	r.NonTrivialIf(interesting)
	return nil
}

// ---------------------------------------------------------------- large populations and capacities

type bigCase struct {
	Kind   int // 0 New(cap)+Push, 1 Heap.Init(slice), 2 FromSlice, 3 NewSlice(cap)+Push, 4 generic Init on a plain container
	N      int // initial population
	Cap    int // requested capacity (kinds 0 and 3)
	Order  int
	Seed   uint64
	Span   int // values 0..Span-1
	Pops   int // percentage of the population popped in the first drain phase
	Touch  int // handles removed / fixed (kinds 0, 1), indices removed / fixed (kinds 2, 3, 4)
	Pushes int // pushes after the first drain phase
}

func genBig(t *rapid.T) bigCase {
	return bigCase{Kind: rapid.IntRange(0, 4).Draw(t, "kind"),
		N:     rapid.OneOf(rapid.IntRange(0, 64), rapid.SampledFrom([]int{255, 256, 257, 1023, 1024, 1025, 4095, 4096, 4097, 8192}), rapid.IntRange(500, 9000)).Draw(t, "n"),
		Cap:   rapid.SampledFrom([]int{0, 1, 16, 1023, 1024, 2048, 4096, 20000}).Draw(t, "cap"),
		Order: rapid.IntRange(0, len(orders)-1).Draw(t, "order"), Seed: rapid.Uint64().Draw(t, "seed"),
		Span: rapid.SampledFrom([]int{2, 40, 1000, 1 << 30}).Draw(t, "span"), Pops: rapid.SampledFrom([]int{0, 10, 50, 75, 90, 99, 100}).Draw(t, "pops"),
		Touch: rapid.IntRange(0, 60).Draw(t, "touch"), Pushes: rapid.OneOf(rapid.IntRange(0, 20), rapid.IntRange(0, 3000)).Draw(t, "pushes")}
}

func runBig(c bigCase, r *pb.Rec) error {
	if c.Kind < 0 || c.Kind > 4 || c.N < 0 || c.N > 20000 || c.Cap < 0 || c.Cap > 50000 || c.Order < 0 || c.Order >= len(orders) || c.Span < 1 || c.Pushes > 20000 || c.Touch > 1000 {
		return nil
	}
	less := orders[c.Order]
	st := c.Seed | 1
	rnd := func(n int) int {
		st ^= st << 13
		st ^= st >> 7
		st ^= st << 17
		return int(st % uint64(n))
	}
	id := 0
	mk := func() val { id++; return val{A: rnd(c.Span), B: rnd(3), ID: id} }
	init := make([]val, c.N)
	for i := range init {
		init[i] = mk()
	}
	// reference: the same multiset in container/heap under the same order
	ref := &plainStd{plain{less: less}}
	model := map[int]val{}
	add := func(v val) { stdheap.Push(ref, v); model[v.ID] = v }
	// uniform view of the five forms
	var (
		push   func(v val)
		pop    func() (val, bool)
		length func() int
		order  func() error
		h      heapz.Heap[val]
		sl     heapz.Slice[val]
		pl     *plain
		hs     = map[int]*heapz.Element[val]{}
	)
	switch c.Kind {
	case 0, 1:
		if c.Kind == 0 {
			h = heapz.New[val](c.Cap, less)
			for _, v := range init {
				hs[v.ID] = h.Push(v)
			}
		} else {
			h.Init(append([]val(nil), init...), less)
		}
		push = func(v val) { hs[v.ID] = h.Push(v) }
		pop = func() (val, bool) {
			e := h.Pop()
			if e == nil {
				return val{}, false
			}
			if e.Index() != -1 {
				return e.Value, false
			}
			return e.Value, true
		}
		length = h.Len
		order = func() error { return nil }
	case 2, 3:
		if c.Kind == 2 {
			sl = heapz.FromSlice(append([]val(nil), init...), less)
		} else {
			sl = heapz.NewSlice[val](c.Cap, less)
			for _, v := range init {
				sl.Push(v)
			}
		}
		push, pop, length = sl.Push, sl.Pop, sl.Len
		order = func() error { return heapOrdered(sl.Values, less) }
	default:
		pl = &plain{vs: append([]val(nil), init...), less: less}
		heapz.Init[val](pl)
		push = func(v val) { heapz.Push[val](pl, v) }
		pop = func() (val, bool) {
			if pl.Len() == 0 {
				return val{}, false
			}
			return heapz.Pop[val](pl).(val), true
		}
		length = pl.Len
		order = func() error { return heapOrdered(pl.vs, less) }
	}
	for _, v := range init {
		add(v)
	}
	where := fmt.Sprintf("kind %d, %d initial elements, cap %d, order %d, span %d", c.Kind, c.N, c.Cap, c.Order, c.Span)
	if err := order(); err != nil {
		return fmt.Errorf("%s: after construction: %v", where, err)
	}
	popCheck := func(phase string, k int) error {
		for i := 0; i < k; i++ {
			got, ok := pop()
			if !ok {
				return fmt.Errorf("%s: %s: Pop #%d failed with %d elements held (or the popped handle still reports an index)", where, phase, i+1, len(model))
			}
			want := stdheap.Pop(ref).(val)
			if less(want, got) {
				return fmt.Errorf("%s: %s: Pop #%d returned %+v although %+v precedes it", where, phase, i+1, got, want)
			}
			if less(got, want) {
				return fmt.Errorf("HARNESS: reference heap returned %+v although %+v precedes it", want, got)
			}
			m, present := model[got.ID]
			if !present || m != got {
				return fmt.Errorf("%s: %s: Pop #%d returned %+v which is not held (duplicated or invented)", where, phase, i+1, got)
			}
			delete(model, got.ID)
			if got.ID != want.ID { // same priority class, another element: keep the reference in step
				for j, x := range ref.vs {
					if x.ID == got.ID {
						ref.vs[j] = want
						stdheap.Fix(ref, j)
						break
					}
				}
			}
			if length() != len(model) {
				return fmt.Errorf("%s: %s: Len = %d after Pop #%d, %d elements held", where, phase, length(), i+1, len(model))
			}
		}
		return order()
	}
	if err := popCheck("first drain", len(model)*c.Pops/100); err != nil {
		return err
	}
	// remove / fix somewhere inside
	for i := 0; i < c.Touch && len(model) > 0; i++ {
		switch {
		case c.Kind <= 1 && len(hs) > 0:
			// pick a live handle (kind 1 has none until learned: skip)
			var e *heapz.Element[val]
			if k := 1 + rnd(id); hs[k] != nil { // ids are 1..id; deterministic choice (no map iteration)
				if _, live := model[k]; live {
					e = hs[k]
				}
			}
			if e == nil || e.Index() < 0 {
				continue
			}
			v := e.Value
			if i%2 == 0 {
				h.Remove(e)
				delete(model, v.ID)
				delete(hs, v.ID)
				for j, x := range ref.vs {
					if x.ID == v.ID {
						stdheap.Remove(ref, j)
						break
					}
				}
				if e.Index() != -1 {
					return fmt.Errorf("%s: removed handle reports Index %d", where, e.Index())
				}
			} else {
				nv := val{A: rnd(c.Span), B: v.B, ID: v.ID}
				e.Value = nv
				h.Fix(e)
				model[v.ID] = nv
				for j, x := range ref.vs {
					if x.ID == v.ID {
						ref.vs[j] = nv
						stdheap.Fix(ref, j)
						break
					}
				}
			}
		case c.Kind == 2 || c.Kind == 3:
			j := rnd(sl.Len())
			v := sl.Values[j]
			if i%2 == 0 {
				got, ok := sl.Remove(j)
				if !ok || got != v {
					return fmt.Errorf("%s: Slice.Remove(%d) = %+v,%v want %+v", where, j, got, ok, v)
				}
				delete(model, v.ID)
				for k, x := range ref.vs {
					if x.ID == v.ID {
						stdheap.Remove(ref, k)
						break
					}
				}
			} else {
				nv := val{A: rnd(c.Span), B: v.B, ID: v.ID}
				sl.Values[j] = nv
				sl.Fix(j)
				model[v.ID] = nv
				for k, x := range ref.vs {
					if x.ID == v.ID {
						ref.vs[k] = nv
						stdheap.Fix(ref, k)
						break
					}
				}
			}
		case c.Kind == 4:
			j := rnd(pl.Len())
			v := pl.vs[j]
			if got := heapz.Remove[val](pl, j).(val); got != v {
				return fmt.Errorf("%s: generic Remove(%d) = %+v want %+v", where, j, got, v)
			}
			delete(model, v.ID)
			for k, x := range ref.vs {
				if x.ID == v.ID {
					stdheap.Remove(ref, k)
					break
				}
			}
		}
		if length() != len(model) {
			return fmt.Errorf("%s: Len = %d after Remove/Fix, %d elements held", where, length(), len(model))
		}
	}
	if err := order(); err != nil {
		return fmt.Errorf("%s: after Remove/Fix: %v", where, err)
	}
	for i := 0; i < c.Pushes; i++ {
		v := mk()
		push(v)
		add(v)
	}
	if length() != len(model) {
		return fmt.Errorf("%s: Len = %d after %d pushes, %d elements held", where, length(), c.Pushes, len(model))
	}
	if err := popCheck("final drain", len(model)); err != nil {
		return err
	}
	if _, ok := pop(); ok || length() != 0 {
		return fmt.Errorf("%s: drained heap: Pop succeeded or Len = %d", where, length())
	}
	r.ClassIf(c.N >= 4096, ">= 4096 elements at construction")
	r.ClassIf((c.Kind == 0 || c.Kind == 3) && c.Cap >= 1024 && c.N*4 <= c.Cap && c.N >= 2, "capacity >= 1024 at most a quarter full")
	r.ClassIf(c.N >= 1024 && c.Pops >= 90, "large heap drained below a quarter")
	r.NonTrivialIf(c.N >= 256)
	return nil
}

// ---------------------------------------------------------------- generic Init/Push/Pop/Remove/Fix over caller-supplied containers

// plain slice container
type plain struct {
	vs   []val
	less func(x, y val) bool
}

func (p *plain) Len() int           { return len(p.vs) }
func (p *plain) Less(i, j int) bool { return p.less(p.vs[i], p.vs[j]) }
func (p *plain) Swap(i, j int)      { p.vs[i], p.vs[j] = p.vs[j], p.vs[i] }
func (p *plain) Push(x val)         { p.vs = append(p.vs, x) }
func (p *plain) Pop() val           { n := len(p.vs) - 1; x := p.vs[n]; p.vs = p.vs[:n]; return x }

// the same container for container/heap
type plainStd struct{ plain }

func (p *plainStd) Push(x any) { p.vs = append(p.vs, x.(val)) }
func (p *plainStd) Pop() any   { n := len(p.vs) - 1; x := p.vs[n]; p.vs = p.vs[:n]; return x }

// items that track their own index (container/heap's PriorityQueue example)
type item struct {
	v     val
	index int
}
type pq struct {
	items []*item
	less  func(x, y val) bool
}

func (p *pq) Len() int           { return len(p.items) }
func (p *pq) Less(i, j int) bool { return p.less(p.items[i].v, p.items[j].v) }
func (p *pq) Swap(i, j int) {
	p.items[i], p.items[j] = p.items[j], p.items[i]
	p.items[i].index, p.items[j].index = i, j
}
func (p *pq) Push(x *item) { x.index = len(p.items); p.items = append(p.items, x) }
func (p *pq) Pop() *item {
	n := len(p.items) - 1
	x := p.items[n]
	p.items[n] = nil
	p.items = p.items[:n]
	x.index = -1
	return x
}

func runGeneric(c sliceCase, r *pb.Rec) error {
	if c.Order < 0 || c.Order >= len(orders) {
		return nil
	}
	less := orders[c.Order]
	a := &plain{less: less}
	b := &plainStd{plain{less: less}}
	q := &pq{less: less}
	id := 0
	var items []*item
	for i, x := range c.Init {
		id++
		v := val{A: x, B: i % 3, ID: id}
		a.vs = append(a.vs, v)
		b.vs = append(b.vs, v)
		it := &item{v: v, index: i}
		q.items = append(q.items, it)
		items = append(items, it)
	}
	heapz.Init[val](a)
	stdheap.Init(b)
	heapz.Init[*item](q)
	classKey := func(v val) val { // what a strict weak order determines of a popped value: its equivalence class
		return v
	}
	_ = classKey
	check := func(where string) error {
		if err := heapOrdered(a.vs, less); err != nil {
			return fmt.Errorf("%s (plain container): %v", where, err)
		}
		if len(a.vs) != len(b.vs) || len(q.items) != len(b.vs) {
			return fmt.Errorf("%s: sizes differ: heapz plain %d, heapz pq %d, container/heap %d", where, len(a.vs), len(q.items), len(b.vs))
		}
		for i, it := range q.items {
			if it.index != i {
				return fmt.Errorf("%s: pq item at %d records index %d", where, i, it.index)
			}
			if i > 0 && less(it.v, q.items[(i-1)/2].v) {
				return fmt.Errorf("%s (index-tracking container): heap order violated at %d", where, i)
			}
		}
		// same multiset in all three
		cnt := map[int]int{}
		for _, v := range a.vs {
			cnt[v.ID]++
		}
		for _, v := range b.vs {
			cnt[v.ID] += 10
		}
		for _, it := range q.items {
			cnt[it.v.ID] += 100
		}
		for idv, n := range cnt {
			if n != 111 {
				return fmt.Errorf("%s: element %d present %d/%d/%d times (heapz plain / container/heap / heapz pq)", where, idv, n%10, n/10%10, n/100)
			}
		}
		return nil
	}
	if err := check("after Init"); err != nil {
		return err
	}
	equiv := func(x, y val) bool { return !less(x, y) && !less(y, x) }
	interesting := false
	for step, o := range c.Ops {
		where := fmt.Sprintf("step %d op %d i=%d", step, o.K, o.H)
		switch o.K {
		case sPush:
			id++
			v := val{A: o.A, B: o.B, ID: id}
			heapz.Push[val](a, v)
			stdheap.Push(b, v)
			it := &item{v: v}
			heapz.Push[*item](q, it)
			items = append(items, it)
		case sPop, sPeek, sPopAll:
			if len(b.vs) == 0 {
				continue
			}
			x := heapz.Pop[val](a).(val)
			y := stdheap.Pop(b).(val)
			z := heapz.Pop[*item](q).(*item)
			if !equiv(x, y) || !equiv(z.v, y) {
				return fmt.Errorf("%s: Pop gave %+v (plain) / %+v (pq), container/heap gave %+v: different priority class", where, x, z.v, y)
			}
			// re-align the multisets: ties may pop different members of the class; remove the same IDs everywhere
			if x.ID != y.ID || z.v.ID != y.ID {
				// put back and remove y by identity in all three (keeps the differential meaningful after ties)
				heapz.Push[val](a, x)
				z.index = -1
				heapz.Push[*item](q, z)
				ra, rq := -1, -1
				for i, v := range a.vs {
					if v.ID == y.ID {
						ra = i
					}
				}
				for i, it := range q.items {
					if it.v.ID == y.ID {
						rq = i
					}
				}
				if ra < 0 || rq < 0 {
					return fmt.Errorf("%s: element %+v popped by container/heap is missing from the heapz containers", where, y)
				}
				heapz.Remove[val](a, ra)
				heapz.Remove[*item](q, rq)
				r.Class("tie popped differently, re-aligned by Remove")
			}
		case sRemove:
			if len(b.vs) == 0 {
				continue
			}
			// remove the same element (by ID) from all three, addressed by its index in each
			target := b.vs[((o.H%len(b.vs))+len(b.vs))%len(b.vs)]
			ib := index(b.vs, target.ID)
			ia := index(a.vs, target.ID)
			iq := -1
			for i, it := range q.items {
				if it.v.ID == target.ID {
					iq = i
				}
			}
			if ia < 0 || iq < 0 {
				return fmt.Errorf("%s: element %+v missing", where, target)
			}
			if len(a.vs) >= 4 && ia > 0 && ia < len(a.vs)-1 {
				interesting = true
			}
			x := heapz.Remove[val](a, ia).(val)
			y := stdheap.Remove(b, ib).(val)
			z := heapz.Remove[*item](q, iq).(*item)
			if x.ID != target.ID || y.ID != target.ID || z.v.ID != target.ID {
				return fmt.Errorf("%s: Remove returned %+v / %+v, want %+v", where, x, z.v, target)
			}
		case sFix:
			if len(b.vs) == 0 {
				continue
			}
			target := b.vs[((o.H%len(b.vs))+len(b.vs))%len(b.vs)]
			ib, ia := index(b.vs, target.ID), index(a.vs, target.ID)
			nv := val{A: o.A, B: o.B, ID: target.ID}
			b.vs[ib] = nv
			a.vs[ia] = nv
			iq := -1
			for i, it := range q.items {
				if it.v.ID == target.ID {
					it.v = nv
					iq = i
				}
			}
			if len(a.vs) >= 4 && ia > 0 && ia < len(a.vs)-1 {
				interesting = true
			}
			heapz.Fix[val](a, ia)
			stdheap.Fix(b, ib)
			heapz.Fix[*item](q, iq)
		}
		if err := check("after " + where); err != nil {
			return err
		}
	}
	// drain: priority classes must agree pop by pop
	for len(b.vs) > 0 {
		x, y, z := heapz.Pop[val](a).(val), stdheap.Pop(b).(val), heapz.Pop[*item](q).(*item)
		if !equiv(x, y) || !equiv(z.v, y) {
			return fmt.Errorf("final drain: %+v / %+v vs container/heap %+v", x, z.v, y)
		}
	}
	if len(a.vs) != 0 || len(q.items) != 0 {
		return fmt.Errorf("final drain: heapz containers not empty")
	}
	r.NonTrivialIf(interesting)
	return nil
}

func index(vs []val, id int) int {
	for i, v := range vs {
		if v.ID == id {
			return i
		}
	}
	return -1
}

func init() {
	pb.Register("heap_handles", pb.Options{Twins: 3, Base: 10000, Required: []string{"stale handle", "foreign handle", "fix moved up", "fix moved down", "remove by handle in the middle", "popped element pushed again", "Init", "PopAll", "push during PopAll", "pop during PopAll", "handle learned through Peek after Init", "Remove/Fix by a handle of an Init-built heap", "Init with another comparator"},
		Rule: "<= 80 operations on Heap[T] (New with cap 0..4): Push, PushElement (fresh / previously popped element), Pop, Peek, Remove/Fix with live, stale and foreign handles, Init (old handles dropped; handles of the new content are learned through Peek/Pop and then used for Remove/Fix), PopAll (also with pushes from inside the loop body and early stop); values 0..5 with ties, four strict weak orders; oracle: multiset model keyed by handle identity (Pop/Peek minimal live handle, Index()==-1 after leaving, stale/foreign ignored, Len, final drain by identity sorted); non-trivial = Remove/Fix by handle at a non-root non-last position on a heap of >= 4 elements with a tie"},
		genHeap, runHeap)
	pb.Register("slice_heap", pb.Options{Twins: 3, Base: 10000, Required: []string{"index out of range", "push during PopAll", "pop during PopAll"},
		Rule: "FromSlice of 0..8 values then <= 60 Push/Pop/Peek/Remove(i)/Fix(i)/PopAll with i in -1..12; oracle: multiset model by element id, !less(child,parent) over Values and Len after every call; non-trivial = Remove/Fix at an inner index of >= 4 elements"},
		genSlice, runSlice)
	pb.Register("heap_large", pb.Options{Base: 250, Required: []string{">= 4096 elements at construction", "capacity >= 1024 at most a quarter full", "large heap drained below a quarter"},
		Rule: "the five forms (New+Push, Heap.Init, FromSlice, NewSlice+Push, generic Init on a caller container) with 0..9000 initial elements (sizes around 256/1024/4096/8192 sampled), requested capacities 0..20000, value spans 2..2^30, a first drain of 0..100%, up to 60 Remove/Fix by handle or index, up to 3000 further pushes, final drain; oracle: container/heap on the same multiset under the same order (no remaining element precedes the popped one, element identity by id, Len after every Pop), heap order of Values after each phase; non-trivial = >= 256 initial elements"},
		genBig, runBig)
	pb.Register("generic_interface", pb.Options{Twins: 3, Base: 8000,
		Rule: "the generic Init/Push/Pop/Remove/Fix over a plain slice container and an index-tracking container, in lock step with container/heap on the same sequence; oracle: heap order after every call, index bookkeeping, equal multisets, popped values in the same priority class as container/heap's; non-trivial = Remove/Fix at an inner index of >= 4 elements"},
		genSlice, runGeneric)
}
