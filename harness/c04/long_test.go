package c04

// Long run on ONE Heap: tens of thousands of Push / Remove-by-handle / Pop / Fix calls. Handles that left the
// heap early are kept as probes for the whole run: they must keep reporting Index() == -1 and stay ignored by
// Remove and Fix however many elements come and go afterwards (no recycling of element objects behind the
// caller's back).

import (
	stdheap "container/heap"
	"fmt"

	"github.com/welllog/golib/heapz"
	"pgregory.net/rapid"

	"verif/harness/internal/pb"
)

type heapLong struct {
	Seed  uint64
	Steps int
	Order int
	Peak  int
}

func genHeapLong(t *rapid.T) heapLong {
	return heapLong{Seed: rapid.Uint64().Draw(t, "seed"), Steps: rapid.SampledFrom([]int{4000, 30000}).Draw(t, "steps"), Order: rapid.IntRange(0, len(orders)-1).Draw(t, "order"),
		Peak: rapid.SampledFrom([]int{2, 16, 200}).Draw(t, "peak")}
}

func runHeapLong(c heapLong, r *pb.Rec) error {
	if c.Steps < 1 || c.Steps > 300000 || c.Order < 0 || c.Order >= len(orders) || c.Peak < 1 || c.Peak > 100000 {
		return nil
	}
	less := orders[c.Order]
	st := c.Seed | 1
	rnd := func(n int) int {
		st ^= st << 13
		st ^= st >> 7
		st ^= st << 17
		return int(st % uint64(n))
	}
	h := heapz.New[val](0, less)
	ref := &plainStd{plain{less: less}}
	var live []*heapz.Element[val]
	var probes []*heapz.Element[val] // left the heap long ago
	probeVals := map[*heapz.Element[val]]val{}
	id, removes := 0, 0
	growing := true
	refDrop := func(idv int) {
		for j, x := range ref.vs {
			if x.ID == idv {
				stdheap.Remove(ref, j)
				return
			}
		}
	}
	for step := 0; step < c.Steps; step++ {
		where := fmt.Sprintf("heap long run (seed %d, order %d, peak %d), step %d", c.Seed, c.Order, c.Peak, step)
		// the size wanders between a few elements and the peak
		if len(live) >= c.Peak {
			growing = false
		} else if len(live) <= c.Peak/8 {
			growing = true
		}
		op := rnd(10)
		if growing && op >= 4 && op < 9 && rnd(2) == 0 {
			op = 0
		}
		switch {
		case op < 4 && len(live) < c.Peak || len(live) == 0:
			id++
			v := val{A: rnd(40), B: rnd(3), ID: id}
			e := h.Push(v)
			if e == nil || e.Value != v || e.Index() < 0 {
				return fmt.Errorf("%s: Push returned a handle %v for %+v", where, e, v)
			}
			for _, p := range probes {
				if p == e {
					return fmt.Errorf("%s: Push handed out an element object that the caller still holds as a handle of an element removed earlier", where)
				}
			}
			live = append(live, e)
			stdheap.Push(ref, v)
		case op < 8:
			i := rnd(len(live))
			e := live[i]
			v := e.Value
			h.Remove(e)
			removes++
			if e.Index() != -1 {
				return fmt.Errorf("%s: removed handle reports Index %d", where, e.Index())
			}
			refDrop(v.ID)
			live[i] = live[len(live)-1]
			live = live[:len(live)-1]
			if len(probes) < 64 {
				probes = append(probes, e)
				probeVals[e] = v
			}
		case op == 8:
			e := h.Pop()
			want := stdheap.Pop(ref).(val)
			if e == nil || less(want, e.Value) || less(e.Value, want) {
				return fmt.Errorf("%s: Pop returned %v, container/heap %+v", where, e, want)
			}
			if e.Value.ID != want.ID {
				refDrop(e.Value.ID)
				stdheap.Push(ref, want)
			}
			for i, x := range live {
				if x == e {
					live[i] = live[len(live)-1]
					live = live[:len(live)-1]
					break
				}
			}
			if e.Index() != -1 {
				return fmt.Errorf("%s: popped handle reports Index %d", where, e.Index())
			}
		default:
			i := rnd(len(live))
			e := live[i]
			nv := val{A: rnd(40), B: e.Value.B, ID: e.Value.ID}
			for j, x := range ref.vs {
				if x.ID == nv.ID {
					ref.vs[j] = nv
					stdheap.Fix(ref, j)
					break
				}
			}
			e.Value = nv
			h.Fix(e)
		}
		if h.Len() != len(live) || h.Len() != ref.Len() {
			return fmt.Errorf("%s: Len = %d, %d live handles, reference %d", where, h.Len(), len(live), ref.Len())
		}
		if step%512 == 511 || step == c.Steps-1 {
			for _, p := range probes {
				if p.Index() != -1 || p.Value != probeVals[p] {
					return fmt.Errorf("%s: the handle of an element removed long ago reports Index %d and value %+v (it was %+v): it denotes another element now", where, p.Index(), p.Value, probeVals[p])
				}
				n := h.Len()
				h.Remove(p)
				h.Fix(p)
				if h.Len() != n {
					return fmt.Errorf("%s: Remove of a handle that left the heap long ago changed Len from %d to %d", where, n, h.Len())
				}
			}
			if top := h.Peek(); (top == nil) != (ref.Len() == 0) || (top != nil && (less(ref.vs[0], top.Value) || less(top.Value, ref.vs[0]))) {
				return fmt.Errorf("%s: Peek disagrees with container/heap", where)
			}
		}
	}
	r.ClassIf(removes >= 8192, ">= 8192 removals by handle on one heap")
	r.NonTrivialIf(c.Steps >= 30000)
	return nil
}

func init() {
	pb.Register("heap_long_run", pb.Options{Base: 10, Required: []string{">= 8192 removals by handle on one heap"},
		Rule: "4000 or 30000 PRNG-driven Push / Remove by handle / Pop / Fix calls on one Heap kept below 2..200 elements, in lock step with container/heap; the first 64 removed handles are kept as probes and re-examined every 512 steps (Index() == -1, value untouched, Remove/Fix ignored, never handed out again by Push); oracle also Len after every call and Pop/Peek minimality; non-trivial = 30000 operations"},
		genHeapLong, runHeapLong)
}
