package c02

// SkipListWithCmp under a comparator for which different keys compare equal (integers compared by k/4: four
// spellings per key, like case-insensitive strings). Keys that compare equal are one key of the map. Which
// spelling the list remembers is its own business, but every way of looking at a binding must show the same
// spelling at a given moment, and it must be one that was actually inserted: Keys, Range, All, GetNode, Head,
// RangeWithStart and RangeWithRange (whose start argument is usually yet another spelling).

import (
	"fmt"
	"sort"

	"github.com/welllog/golib/listz"
	"pgregory.net/rapid"

	"verif/harness/internal/pb"
)

type eqOp struct {
	K    int // 0 Set 1 SetNx 2 SetX 3 Remove 4 Get
	Key  int // 0..39: class Key/4, spelling Key%4
	Val  int
	S, E int // probe keys for the range queries after the step
}

type eqCase struct{ Ops []eqOp }

func genEq(t *rapid.T) eqCase {
	var c eqCase
	for i, n := 0, rapid.IntRange(1, 30).Draw(t, "n"); i < n; i++ {
		c.Ops = append(c.Ops, eqOp{K: rapid.SampledFrom([]int{0, 0, 0, 1, 2, 3, 3, 4}).Draw(t, "k"), Key: rapid.IntRange(0, 39).Draw(t, "key"), Val: 100 + i,
			S: rapid.IntRange(-4, 43).Draw(t, "s"), E: rapid.IntRange(-4, 43).Draw(t, "e")})
	}
	return c
}

func cls(k int) int {
	if k < 0 {
		return -1
	}
	return k / 4
}

func runEq(c eqCase, r *pb.Rec) error {
	if len(c.Ops) > 64 {
		return nil
	}
	s := listz.NewSkipListWithCmp[int, int](func(a, b int) int { return cls(a) - cls(b) })
	model := map[int]int{}            // class -> value
	spelled := map[int]map[int]bool{} // class -> spellings inserted since the class was last absent
	other := false
	for step, o := range c.Ops {
		if o.Key < 0 || o.Key > 39 {
			return nil
		}
		cl := cls(o.Key)
		_, present := model[cl]
		where := fmt.Sprintf("step %d op %d key %d (class %d)", step, o.K, o.Key, cl)
		note := func() {
			if spelled[cl] == nil {
				spelled[cl] = map[int]bool{}
			}
			if present && !spelled[cl][o.Key] {
				other = true
			}
			spelled[cl][o.Key] = true
		}
		switch o.K {
		case 0:
			s.Set(o.Key, o.Val)
			note()
			model[cl] = o.Val
		case 1:
			if got := s.SetNx(o.Key, o.Val); got != !present {
				return fmt.Errorf("%s: SetNx = %v, an equal key present: %v", where, got, present)
			}
			if !present {
				note()
				model[cl] = o.Val
			}
		case 2:
			if got := s.SetX(o.Key, o.Val); got != present {
				return fmt.Errorf("%s: SetX = %v, an equal key present: %v", where, got, present)
			}
			if present {
				note()
				model[cl] = o.Val
			}
		case 3:
			v, ok := s.Remove(o.Key)
			if ok != present || (ok && v != model[cl]) {
				return fmt.Errorf("%s: Remove = %d,%v, model %d,%v", where, v, ok, model[cl], present)
			}
			delete(model, cl)
			delete(spelled, cl)
		case 4:
			v, ok := s.Get(o.Key)
			if ok != present || (ok && v != model[cl]) {
				return fmt.Errorf("%s: Get = %d,%v, model %d,%v", where, v, ok, model[cl], present)
			}
		}
		// every view of the bindings
		var classes []int
		for k := range model {
			classes = append(classes, k)
		}
		sort.Ints(classes)
		keys, vals := s.Keys(), s.Values()
		if len(keys) != len(classes) || len(vals) != len(classes) || s.Len() != len(classes) {
			return fmt.Errorf("%s: Keys/Values/Len = %d/%d/%d entries, model %d", where, len(keys), len(vals), s.Len(), len(classes))
		}
		rep := map[int]int{}
		for i, k := range keys {
			if cls(k) != classes[i] || vals[i] != model[classes[i]] {
				return fmt.Errorf("%s: Keys/Values[%d] = (%d,%d), model has class %d with value %d", where, i, k, vals[i], classes[i], model[classes[i]])
			}
			if !spelled[classes[i]][k] {
				return fmt.Errorf("%s: Keys() reports the key %d, which was never inserted (inserted spellings of that key: %v)", where, k, spelled[classes[i]])
			}
			rep[classes[i]] = k
		}
		same := func(what string, from int, call func(func(int, int) bool)) error {
			var got []int
			call(func(k, v int) bool {
				got = append(got, k)
				if v != model[cls(k)] {
					got = append(got, -999)
				}
				return true
			})
			var want []int
			for _, c := range classes {
				if c >= from {
					want = append(want, rep[c])
				}
			}
			if fmt.Sprint(got) != fmt.Sprint(want) {
				return fmt.Errorf("%s: %s yields the keys %v; Keys() shows these bindings as %v (same bindings, the same spelling of every key is expected)", where, what, got, want)
			}
			return nil
		}
		if err := same("Range", -1<<30, s.Range); err != nil {
			return err
		}
		if err := same("All", -1<<30, func(f func(int, int) bool) { s.All()(f) }); err != nil {
			return err
		}
		if err := same(fmt.Sprintf("RangeWithStart(%d)", o.S), cls(o.S), func(f func(int, int) bool) { s.RangeWithStart(o.S, f) }); err != nil {
			return err
		}
		if cls(o.S) <= cls(o.E) {
			var got, want []int
			s.RangeWithRange(o.S, o.E, func(k, v int) bool { got = append(got, k); return true })
			for _, c := range classes {
				if c >= cls(o.S) && c < cls(o.E) {
					want = append(want, rep[c])
				}
			}
			if fmt.Sprint(got) != fmt.Sprint(want) {
				return fmt.Errorf("%s: RangeWithRange(%d,%d) yields the keys %v; Keys() shows these bindings as %v", where, o.S, o.E, got, want)
			}
		}
		for _, c := range classes {
			if n := s.GetNode(4*c + (step+c)%4); n == nil || n.Key() != rep[c] || n.Value() != model[c] {
				return fmt.Errorf("%s: GetNode(%d) = %v; the binding is (%d,%d) according to Keys()/Values()", where, 4*c+(step+c)%4, n, rep[c], model[c])
			}
		}
		if h := s.Head(); (h == nil) != (len(classes) == 0) || (h != nil && h.Key() != rep[classes[0]]) {
			return fmt.Errorf("%s: Head() disagrees with Keys()[0]", where)
		}
	}
	r.ClassIf(other, "a present key addressed by another spelling that compares equal")
	r.NonTrivialIf(other)
	return nil
}

func init() {
	pb.Register("skiplist_cmp_equal_keys", pb.Options{Twins: 3, Base: 4000, Required: []string{"a present key addressed by another spelling that compares equal"},
		Rule: "SkipListWithCmp[int,int] with the comparator a/4 - b/4 (four spellings compare equal), <= 30 Set/SetNx/SetX/Remove/Get calls over keys 0..39; after every call Keys/Values/Len against the model of classes, the reported spelling must be one that was inserted, and Range, All, RangeWithStart, RangeWithRange (probe keys in other spellings, also absent), GetNode and Head must show the same spelling of every key as Keys(); non-trivial = a present key was addressed by another spelling"},
		genEq, runEq)
}
