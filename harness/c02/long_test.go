package c02

// Long runs on ONE skip list: tens of thousands of Set/Remove calls (towers from the list's own random source),
// with Len and point lookups checked after every call and the full ascending enumeration at checkpoints.

import (
	"fmt"
	"sort"

	"github.com/welllog/golib/listz"
	"pgregory.net/rapid"

	"verif/harness/internal/pb"
)

type skipLong struct {
	Cmp   bool // SkipListWithCmp (comparator a-b style, not normalised) instead of SkipList
	Seed  uint64
	Steps int
	Span  int // keys 0..Span-1
	Clear int // Clear every Clear-th step (0: never)
}

func genSkipLong(t *rapid.T) skipLong {
	return skipLong{Cmp: rapid.Bool().Draw(t, "cmp"), Seed: rapid.Uint64().Draw(t, "seed"), Steps: rapid.SampledFrom([]int{3000, 40000}).Draw(t, "steps"),
		Span: rapid.SampledFrom([]int{8, 100, 3000}).Draw(t, "span"), Clear: rapid.SampledFrom([]int{0, 0, 997, 9001}).Draw(t, "clear")}
}

type skipAPI struct {
	set    func(k, v int)
	remove func(k int) (int, bool)
	get    func(k int) (int, bool)
	length func() int
	rng    func(func(k, v int) bool)
	from   func(k int, f func(k, v int) bool)
	clear  func()
}

func runSkipLong(c skipLong, r *pb.Rec) error {
	if c.Steps < 1 || c.Steps > 300000 || c.Span < 1 || c.Span > 1000000 || c.Clear < 0 {
		return nil
	}
	var a skipAPI
	if c.Cmp {
		s := listz.NewSkipListWithCmp[int, int](func(x, y int) int { return x - y })
		a = skipAPI{func(k, v int) { s.Set(k, v) }, s.Remove, s.Get, s.Len, s.Range, s.RangeWithStart, s.Clear}
	} else {
		var s listz.SkipList[int, int] // zero value
		a = skipAPI{func(k, v int) { s.Set(k, v) }, s.Remove, s.Get, s.Len, s.Range, s.RangeWithStart, s.Clear}
	}
	st := c.Seed | 1
	rnd := func(n int) int {
		st ^= st << 13
		st ^= st >> 7
		st ^= st << 17
		return int(st % uint64(n))
	}
	model := map[int]int{}
	for step := 0; step < c.Steps; step++ {
		where := fmt.Sprintf("skip list long run (cmp %v, seed %d, span %d), step %d", c.Cmp, c.Seed, c.Span, step)
		k := rnd(c.Span)
		switch {
		case c.Clear > 0 && step%c.Clear == c.Clear-1:
			a.clear()
			model = map[int]int{}
		case rnd(2) == 0:
			a.set(k, step)
			model[k] = step
		default:
			v, ok := a.remove(k)
			if wv, wok := model[k]; ok != wok || (ok && v != wv) {
				return fmt.Errorf("%s: Remove(%d) = %d,%v want %d,%v", where, k, v, ok, wv, wok)
			}
			delete(model, k)
		}
		if a.length() != len(model) {
			return fmt.Errorf("%s: Len = %d, model %d", where, a.length(), len(model))
		}
		q := rnd(c.Span)
		if v, ok := a.get(q); func() bool { wv, wok := model[q]; return ok != wok || (ok && v != wv) }() {
			return fmt.Errorf("%s: Get(%d) = %d,%v, model %v", where, q, v, ok, model[q])
		}
		if step%2048 == 2047 || step == c.Steps-1 {
			keys := make([]int, 0, len(model))
			for k := range model {
				keys = append(keys, k)
			}
			sort.Ints(keys)
			i := 0
			var bad error
			a.rng(func(k, v int) bool {
				if i >= len(keys) || k != keys[i] || v != model[k] {
					bad = fmt.Errorf("%s: Range position %d yields %d=%d", where, i, k, v)
					return false
				}
				i++
				return true
			})
			if bad == nil && i != len(keys) {
				bad = fmt.Errorf("%s: Range enumerated %d of %d bindings", where, i, len(keys))
			}
			if bad != nil {
				return bad
			}
			start := rnd(c.Span)
			j := sort.SearchInts(keys, start)
			a.from(start, func(k, v int) bool {
				if j >= len(keys) || k != keys[j] {
					bad = fmt.Errorf("%s: RangeWithStart(%d) yields %d at position %d", where, start, k, j)
					return false
				}
				j++
				return true
			})
			if bad == nil && j != len(keys) {
				bad = fmt.Errorf("%s: RangeWithStart(%d) stopped early", where, start)
			}
			if bad != nil {
				return bad
			}
		}
	}
	r.ClassIf(c.Steps >= 40000, ">= 40000 operations on one list")
	r.NonTrivialIf(c.Steps >= 40000)
	return nil
}

func init() {
	pb.Register("skiplist_long_run", pb.Options{Twins: 3, Base: 10, Required: []string{">= 40000 operations on one list"},
		Rule: "3000 or 40000 PRNG-driven Set/Remove calls (keys below 8..3000, optional Clear every 997th/9001st step) on one zero-value SkipList or one SkipListWithCmp with the comparator x-y, towers from the list's own random source; oracle: map model (Remove results, Len and a random Get after every call, Range and RangeWithStart every 2048 steps); non-trivial = 40000 operations"},
		genSkipLong, runSkipLong)
}
