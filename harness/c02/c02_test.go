// C02 — SkipList and SkipListWithCmp behave as an ordered map.
package c02

import (
	"fmt"
	"iter"
	"math"
	"math/rand"
	"reflect"
	"sort"
	"testing"
	"unsafe"

	"github.com/welllog/golib/listz"
	"pgregory.net/rapid"

	"verif/harness/internal/pb"
)

func TestMain(m *testing.M)   { pb.Main(m) }
func TestProps(t *testing.T)  { pb.RunProps(t) }
func TestReplay(t *testing.T) { pb.RunReplay(t) }

// ---- tower-height control: the list's private *rand.Rand is replaced by one whose source
// returns words chosen by the case, so tower heights are part of the (shrinkable) case.

type heightSrc struct {
	heights []int
	state   uint64
	used    int
}

func (h *heightSrc) Uint64() uint64 {
	if len(h.heights) > 0 {
		l := h.heights[0]
		h.heights = h.heights[1:]
		h.used++
		if l < 1 {
			l = 1
		}
		if l > 32 {
			l = 32
		}
		// randomLevel: level = ((32 - bits.Len64(k & (2^32-1))) & 31) + 1  =>  k = 1 << (32-l)
		return uint64(1) << uint(32-l)
	}
	h.state ^= h.state << 13
	h.state ^= h.state >> 7
	h.state ^= h.state << 17
	return h.state
}
func (h *heightSrc) Int63() int64 { return int64(h.Uint64() >> 1) }
func (h *heightSrc) Seed(int64)   {}

var randFieldMissing bool

// installRand makes list.rand point to r (whenever the list re-created its own source).
func installRand(list any, r *rand.Rand) {
	f := reflect.ValueOf(list).Elem().FieldByName("rand")
	if !f.IsValid() || f.Type() != reflect.TypeOf(r) {
		randFieldMissing = true
		return
	}
	p := (**rand.Rand)(unsafe.Pointer(f.UnsafeAddr()))
	if *p != nil && *p != r {
		*p = r
	}
}

func levelOf(list any) int {
	f := reflect.ValueOf(list).Elem().FieldByName("level")
	if !f.IsValid() || f.Kind() != reflect.Int {
		return -1
	}
	return int(f.Int())
}

// ---- uniform API over the four instantiations

type api[K any] struct {
	list           any
	Set            func(K, int)
	SetNx, SetX    func(K, int) bool
	Remove, Get    func(K) (int, bool)
	Clear          func()
	Init           func() // re-initialise (same comparator)
	Node           func(K) (key K, val int, nextKey K, hasNext, ok bool)
	NodeSetValue   func(K, int) bool
	Hold           func(K) (read func() (K, int), write func(int), ok bool) // a node handle kept by the caller
	Head           func() (K, int, bool)
	Len            func() int
	Keys           func() []K
	Values         func() []int
	Range, All     func(func(K, int) bool)
	AllSeq         func() iter.Seq2[K, int] // the sequence value itself, to be kept and ranged later
	RangeWithStart func(K, func(K, int) bool)
	RangeWithRange func(K, K, func(K, int) bool)
}

func ordAPI[K interface{ ~int | ~string | ~float64 }](s *listz.SkipList[K, int]) api[K] {
	return api[K]{list: s, Set: s.Set, SetNx: s.SetNx, SetX: s.SetX, Remove: s.Remove, Get: s.Get, Clear: s.Clear, Init: s.Init,
		Node: func(k K) (key K, val int, nk K, hn, ok bool) {
			n := s.GetNode(k)
			if n == nil {
				return
			}
			key, val, ok = n.Key(), n.Value(), true
			if nx := n.Next(); nx != nil {
				nk, hn = nx.Key(), true
			}
			return
		},
		NodeSetValue: func(k K, v int) bool {
			n := s.GetNode(k)
			if n == nil {
				return false
			}
			n.SetValue(v)
			return true
		},
		Hold: func(k K) (func() (K, int), func(int), bool) {
			n := s.GetNode(k)
			if n == nil {
				return nil, nil, false
			}
			return func() (K, int) { return n.Key(), n.Value() }, func(v int) { n.SetValue(v) }, true
		},
		Head: func() (k K, v int, ok bool) {
			if n := s.Head(); n != nil {
				return n.Key(), n.Value(), true
			}
			return
		},
		Len: s.Len, Keys: s.Keys, Values: s.Values, Range: s.Range,
		AllSeq: s.All,
		All: func(f func(K, int) bool) {
			seq := s.All()
			n := 0
			seq(func(K, int) bool { n++; return n < 2 }) // a first, interrupted pass over the same sequence value
			nestedAll(seq, s.All, s.Range, f)
		},
		RangeWithStart: s.RangeWithStart, RangeWithRange: s.RangeWithRange,
	}
}

func cmpAPI(s *listz.SkipListWithCmp[int, int], cmp func(a, b int) int) api[int] {
	return api[int]{list: s, Init: func() { s.Init(cmp) }, Set: s.Set, SetNx: s.SetNx, SetX: s.SetX, Remove: s.Remove, Get: s.Get, Clear: s.Clear,
		Node: func(k int) (key int, val int, nk int, hn, ok bool) {
			n := s.GetNode(k)
			if n == nil {
				return
			}
			key, val, ok = n.Key(), n.Value(), true
			if nx := n.Next(); nx != nil {
				nk, hn = nx.Key(), true
			}
			return
		},
		NodeSetValue: func(k int, v int) bool {
			n := s.GetNode(k)
			if n == nil {
				return false
			}
			n.SetValue(v)
			return true
		},
		Hold: func(k int) (func() (int, int), func(int), bool) {
			n := s.GetNode(k)
			if n == nil {
				return nil, nil, false
			}
			return func() (int, int) { return n.Key(), n.Value() }, func(v int) { n.SetValue(v) }, true
		},
		Head: func() (k int, v int, ok bool) {
			if n := s.Head(); n != nil {
				return n.Key(), n.Value(), true
			}
			return
		},
		Len: s.Len, Keys: s.Keys, Values: s.Values, Range: s.Range,
		AllSeq: s.All,
		All: func(f func(int, int) bool) {
			seq := s.All()
			n := 0
			seq(func(int, int) bool { n++; return n < 2 })
			nestedAll(seq, s.All, s.Range, f)
		},
		RangeWithStart: s.RangeWithStart, RangeWithRange: s.RangeWithRange,
	}
}

// ---- the case

type op struct {
	K       int // operation code
	A, B, C int
}

type skipCase struct {
	Kind    int   // 0 SkipList[int] 1 SkipList[string] 2 SkipList[float64] 3 WithCmp ascending 4 WithCmp descending 5 WithCmp permutation
	Start   int   // 0 NewSkipList, 1 zero value, 2 zero value after Clear (SkipList only)
	N       int   // key domain 0..N-1
	Perm    []int // rank table for Kind 5
	Ops     []op
	Heights []int
	Seed    uint64
}

const (
	opSet = iota
	opSetNx
	opSetX
	opRemove
	opClear
	opGet
	opNode
	opHead
	opKeysValues
	opRange
	opAll
	opRangeStart
	opRangeRange
	opInit
	nOps
)

var strKeys, floatKeys = func() ([]string, []float64) {
	s := []string{"", "\x00", " ", "0", "00", "1", "A", "AA", "B", "a", "aa", "ab", "b", "z", "zz", "é", "日", "日本", "\U0001F600", "\xff"}
	f := []float64{math.Inf(-1), -1e300, -2.5, -1, -math.SmallestNonzeroFloat64, 0, math.SmallestNonzeroFloat64, 0.5, 1, 1.5, 2, 3, 1e9, 1e300, math.MaxFloat64, math.Inf(1)}
	sort.Strings(s)
	sort.Float64s(f)
	for len(s) < 66 {
		s = append(s, s[len(s)-1]+"x")
	}
	for i := 0; len(f) < 66; i++ {
		f = append(f, 1000+float64(i)*0.25) // distinct finite values between 1e9 and the small ones
	}
	sort.Float64s(f)
	return s, f
}()

func genSkip(t *rapid.T) skipCase {
	maxN, maxOps := 16, 60
	if pb.Thorough() {
		maxN, maxOps = 64, 200
	}
	c := skipCase{Kind: rapid.IntRange(0, 5).Draw(t, "kind"), N: rapid.IntRange(2, maxN).Draw(t, "n"), Seed: rapid.Uint64Min(1).Draw(t, "seed")}
	if c.Kind <= 2 {
		c.Start = rapid.IntRange(0, 2).Draw(t, "start")
	}
	if c.Kind == 5 {
		c.Perm = rapid.Permutation(seq(c.N+2)).Draw(t, "perm")
	}
	key := rapid.IntRange(0, c.N+1) // domain ±1: indices 0 and N+1 are the outer neighbours, all usable as keys too
	weights := []int{opSet, opSet, opSet, opSetNx, opSetX, opRemove, opRemove, opClear, opGet, opNode, opHead, opKeysValues, opRange, opAll, opRangeStart, opRangeStart, opRangeRange, opRangeRange}
	nops := rapid.IntRange(1, maxOps).Draw(t, "nops")
	for i := 0; i < nops; i++ {
		o := op{K: rapid.SampledFrom(weights).Draw(t, "op"), A: key.Draw(t, "a"), B: key.Draw(t, "b")}
		if o.K == opClear && rapid.IntRange(0, 3).Draw(t, "rareClear") != 0 {
			o.K = opRemove
		} else if o.K == opClear && rapid.IntRange(0, 2).Draw(t, "initInstead") == 0 {
			o.K = opInit
		}
		o.C = rapid.IntRange(-1, 6).Draw(t, "stop") // callback returns false at this index (-1: never)
		c.Ops = append(c.Ops, o)
	}
	hg := rapid.OneOf(rapid.IntRange(1, 4), rapid.IntRange(1, 8), rapid.IntRange(1, 32), rapid.SampledFrom([]int{7, 8, 9, 15, 16, 17, 31, 32}))
	c.Heights = rapid.SliceOfN(hg, 0, nops).Draw(t, "heights")
	if rapid.IntRange(0, 7).Draw(t, "tall") == 0 && c.Kind != 5 {
		// the list level grows by at most one per insertion: only a run of insertions that each draw a tower above
		// the current level reaches the upper levels (16, 17, ..., 32). Prefix: k distinct keys with such towers.
		c.N = 64
		k := rapid.IntRange(15, 40).Draw(t, "tallRun")
		keys := rapid.Permutation(seq(c.N)).Draw(t, "tallKeys")[:k]
		var pre []op
		var hs []int
		stair := rapid.Bool().Draw(t, "staircase")
		for i, key := range keys {
			pre = append(pre, op{K: opSet, A: key, B: key, C: -1})
			if stair {
				hs = append(hs, min(i+1+rapid.IntRange(0, 1).Draw(t, "skip"), 32))
			} else {
				hs = append(hs, 32)
			}
		}
		c.Ops = append(pre, c.Ops...)
		c.Heights = append(hs, c.Heights...)
	}
	return c
}

func seq(n int) []int {
	s := make([]int, n)
	for i := range s {
		s[i] = i
	}
	return s
}

// nestedErr is set by the API wrappers when an enumeration started inside another enumeration's callback
// disagrees with the outer one (several enumerations of an unmodified list may be alive at the same time).
var nestedErr error

// nestedAll runs seq(f); from inside the callback of the second element it runs two complete inner enumerations
// (a fresh All() value and Range) and compares them with the outer one afterwards.
func nestedAll[K comparable](seq iter.Seq2[K, int], fresh func() iter.Seq2[K, int], rng func(func(K, int) bool), f func(K, int) bool) {
	type kv struct {
		k K
		v int
	}
	var outer, in1, in2 []kv
	stopped := false
	seq(func(k K, v int) bool {
		outer = append(outer, kv{k, v})
		if len(outer) == 2 {
			fresh()(func(k K, v int) bool { in1 = append(in1, kv{k, v}); return true })
			rng(func(k K, v int) bool { in2 = append(in2, kv{k, v}); return true })
		}
		if !f(k, v) {
			stopped = true
			return false
		}
		return true
	})
	if len(outer) >= 2 && !stopped && (fmt.Sprint(outer) != fmt.Sprint(in1) || fmt.Sprint(outer) != fmt.Sprint(in2)) && nestedErr == nil {
		nestedErr = fmt.Errorf("All() with enumerations started inside its callback: outer All yields %v, inner All %v, inner Range %v", outer, in1, in2)
	}
}

func runSkip(c skipCase, r *pb.Rec) error {
	nestedErr = nil
	err := runSkip0(c, r)
	if nestedErr != nil {
		return nestedErr
	}
	return err
}

func runSkip0(c skipCase, r *pb.Rec) error {
	if c.N < 1 || c.N > 64 {
		return nil
	}
	src := &heightSrc{heights: append([]int(nil), c.Heights...), state: c.Seed | 1}
	rnd := rand.New(src)
	switch c.Kind {
	case 0, 1, 2:
		switch c.Kind {
		case 0:
			return drive(c, r, newOrd[int](c.Start), func(i int) int { return i * 3 }, func(a, b int) bool { return a < b }, rnd)
		case 1:
			return drive(c, r, newOrd[string](c.Start), func(i int) string { return strKeys[i] }, func(a, b int) bool { return a < b }, rnd)
		default:
			return drive(c, r, newOrd[float64](c.Start), func(i int) float64 { return floatKeys[i] }, func(a, b int) bool { return a < b }, rnd)
		}
	case 3:
		cmp := func(a, b int) int { return a - b }
		s := listz.NewSkipListWithCmp[int, int](cmp)
		return drive(c, r, cmpAPI(s, cmp), func(i int) int { return i }, func(a, b int) bool { return a < b }, rnd)
	case 4:
		cmp := func(a, b int) int { return b - a }
		s := listz.NewSkipListWithCmp[int, int](cmp)
		return drive(c, r, cmpAPI(s, cmp), func(i int) int { return i }, func(a, b int) bool { return a > b }, rnd)
	case 5:
		if len(c.Perm) != c.N+2 {
			return nil
		}
		seen := map[int]bool{}
		for _, p := range c.Perm {
			if p < 0 || p >= len(c.Perm) || seen[p] {
				return nil
			}
			seen[p] = true
		}
		rank := c.Perm
		cmp := func(a, b int) int {
			switch {
			case rank[a] < rank[b]:
				return -7
			case rank[a] > rank[b]:
				return 3
			}
			return 0
		}
		s := listz.NewSkipListWithCmp[int, int](cmp)
		return drive(c, r, cmpAPI(s, cmp), func(i int) int { return i }, func(a, b int) bool { return rank[a] < rank[b] }, rnd)
	}
	return nil
}

func newOrd[K interface{ ~int | ~string | ~float64 }](start int) api[K] {
	switch start {
	case 1:
		var s listz.SkipList[K, int]
		return ordAPI(&s)
	case 2:
		var s listz.SkipList[K, int]
		s.Clear()
		return ordAPI(&s)
	}
	return ordAPI(listz.NewSkipList[K, int]())
}

// drive applies the operations to the list and to a sorted-map model. Keys are identified
// by their index i in the domain; less orders indices the way the list orders keyOf(i).
func drive[K comparable](c skipCase, r *pb.Rec, a api[K], keyOf func(int) K, less func(i, j int) bool, rnd *rand.Rand) error {
	model := map[int]int{}
	idxOf := map[K]int{}
	for i := 0; i <= c.N+1; i++ {
		idxOf[keyOf(i)] = i
	}
	sorted := func() []int {
		ks := make([]int, 0, len(model))
		for k := range model {
			ks = append(ks, k)
		}
		sort.Slice(ks, func(x, y int) bool { return less(ks[x], ks[y]) })
		return ks
	}
	wrote, inserts, removedPresent, absentStart := false, 0, false, false
	var heldKeys []K
	heldKeysCopy := ""
	// node handles the caller kept: while the binding is in the list only the handle is remembered; once the key has
	// been removed the handle is the caller's own data - it keeps reading what it read at that moment (or what the
	// caller wrote through it since), and writing through it changes nothing in the list
	type handle struct {
		read     func() (K, int)
		write    func(int)
		detached bool
		k        K
		v        int
	}
	live := map[int]*handle{}
	var stale []*handle
	// expect compares an enumeration (with early stop at index stop) with the expected key list
	enum := func(name string, want []int, stop int, call func(f func(K, int) bool)) error {
		var got []K
		var gotV []int
		calls := 0
		stopped := false
		call(func(k K, v int) bool {
			if stopped {
				calls = -1 << 30
			}
			got = append(got, k)
			gotV = append(gotV, v)
			calls++
			if stop >= 0 && len(got)-1 == stop {
				stopped = true
				return false
			}
			return true
		})
		if calls < 0 {
			return fmt.Errorf("%s: callback invoked again after it returned false", name)
		}
		if stop >= 0 && stop < len(want) {
			want = want[:stop+1]
		}
		if len(got) != len(want) {
			return fmt.Errorf("%s: enumerated %d bindings %v, want %d (indices %v)", name, len(got), got, len(want), want)
		}
		for i, w := range want {
			if got[i] != keyOf(w) || gotV[i] != model[w] {
				return fmt.Errorf("%s: position %d is (%v,%d) want (%v,%d)", name, i, got[i], gotV[i], keyOf(w), model[w])
			}
		}
		return nil
	}
	maxLevelSeen := 0
	heldSeq := a.AllSeq()
	for step, o := range c.Ops {
		installRand(a.list, rnd)
		if o.A < 0 || o.A > c.N+1 || o.B < 0 || o.B > c.N+1 {
			return nil
		}
		ka, kb := keyOf(o.A), keyOf(o.B)
		_, present := model[o.A]
		val := step*100 + o.B
		lvlBefore := levelOf(a.list)
		if lvlBefore > maxLevelSeen {
			maxLevelSeen = lvlBefore
		}
		fail := func(format string, args ...any) error {
			return fmt.Errorf("step %d op %d(%v,%v): %s", step, o.K, ka, kb, fmt.Sprintf(format, args...))
		}
		if !wrote && o.K >= opGet && o.K != opInit {
			r.ClassIf(c.Start == 1, "zero value read path")
			r.ClassIf(c.Start == 2, "zero value after Clear read path")
		}
		switch o.K {
		case opSet:
			a.Set(ka, val)
			if !present {
				inserts++
			}
			model[o.A] = val
			r.ClassIf(c.Start == 2 && !wrote, "clear then write")
			wrote = true
		case opSetNx:
			if got := a.SetNx(ka, val); got != !present {
				return fail("SetNx = %v, key present = %v", got, present)
			}
			if !present {
				model[o.A] = val
				inserts++
			}
			r.ClassIf(c.Start == 2 && !wrote, "clear then write")
			wrote = true
		case opSetX:
			if got := a.SetX(ka, val); got != present {
				return fail("SetX = %v, key present = %v", got, present)
			}
			if present {
				model[o.A] = val
			}
			r.ClassIf(c.Start == 2 && !wrote, "clear then write")
			wrote = true
		case opRemove:
			v, ok := a.Remove(ka)
			if ok != present || (ok && v != model[o.A]) {
				return fail("Remove = %d,%v; model %d,%v", v, ok, model[o.A], present)
			}
			if present && inserts >= 3 {
				removedPresent = true
			}
			delete(model, o.A)
			if h := live[o.A]; h != nil && present {
				delete(live, o.A)
				h.detached = true
				h.k, h.v = h.read()
				stale = append(stale, h)
			}
			if l := levelOf(a.list); l >= 0 && l < lvlBefore {
				r.Class("top level shrank")
			}
		case opClear:
			a.Clear()
			model = map[int]int{}
			live = map[int]*handle{}
			r.ClassIf(wrote, "clear after writes")
		case opInit:
			a.Init()
			model = map[int]int{}
			live = map[int]*handle{}
			r.ClassIf(wrote, "Init after writes")
		case opGet:
			v, ok := a.Get(ka)
			if ok != present || (ok && v != model[o.A]) {
				return fail("Get = %d,%v; model %d,%v", v, ok, model[o.A], present)
			}
		case opNode:
			k, v, nk, hasNext, ok := a.Node(ka)
			if ok != present {
				return fail("GetNode found=%v, model present=%v", ok, present)
			}
			if ok {
				if k != ka || v != model[o.A] {
					return fail("GetNode -> (%v,%d) want (%v,%d)", k, v, ka, model[o.A])
				}
				ks := sorted()
				pos := sort.Search(len(ks), func(i int) bool { return !less(ks[i], o.A) })
				if (pos+1 < len(ks)) != hasNext || (hasNext && nk != keyOf(ks[pos+1])) {
					return fail("node.Next() = %v,%v; model successor index %v", nk, hasNext, ks[pos+1:])
				}
				if !a.NodeSetValue(ka, val) {
					return fail("second GetNode failed")
				}
				model[o.A] = val
				if rd, wr, ok := a.Hold(ka); ok && val%2 == 0 {
					live[o.A] = &handle{read: rd, write: wr}
				}
			}
		case opHead:
			// checked after every step below
		case opKeysValues:
			ks := sorted()
			gk, gv := a.Keys(), a.Values()
			if heldKeys != nil && fmt.Sprint(heldKeys) != heldKeysCopy {
				return fail("a slice returned by an earlier Keys() call changed to %v (was %s)", heldKeys, heldKeysCopy)
			}
			heldKeys, heldKeysCopy = gk, fmt.Sprint(gk)
			if len(gk) != len(ks) || len(gv) != len(ks) {
				return fail("Keys/Values lengths %d/%d want %d", len(gk), len(gv), len(ks))
			}
			for i, k := range ks {
				if gk[i] != keyOf(k) || gv[i] != model[k] {
					return fail("Keys/Values[%d] = (%v,%d) want (%v,%d)", i, gk[i], gv[i], keyOf(k), model[k])
				}
			}
			// the caller does what it likes with slices it was given (here: reverses one, zeroes the other); the next
			// Keys()/Values() calls on the unchanged list are right all the same
			mk, mv := a.Keys(), a.Values()
			for i, j := 0, len(mk)-1; i < j; i, j = i+1, j-1 {
				mk[i], mk[j] = mk[j], mk[i]
			}
			for i := range mv {
				mv[i] = -7
			}
			gk2, gv2 := a.Keys(), a.Values()
			if len(gk2) != len(ks) || len(gv2) != len(ks) {
				return fail("Keys/Values lengths %d/%d want %d after the caller modified slices returned by earlier calls", len(gk2), len(gv2), len(ks))
			}
			for i, k := range ks {
				if gk2[i] != keyOf(k) || gv2[i] != model[k] {
					return fail("after the caller reversed / zeroed the slices returned by earlier Keys()/Values() calls, Keys/Values[%d] = (%v,%d) want (%v,%d)", i, gk2[i], gv2[i], keyOf(k), model[k])
				}
			}
		case opRange:
			if err := enum("Range", sorted(), o.C, a.Range); err != nil {
				return fail("%v", err)
			}
		case opAll:
			if err := enum("All", sorted(), o.C, a.All); err != nil {
				return fail("%v", err)
			}
			// a sequence value obtained before the first operation (on the empty list) is still a view of the list
			if err := enum("All (sequence value obtained while the list was still empty)", sorted(), o.C, func(f func(K, int) bool) { heldSeq(f) }); err != nil {
				return fail("%v", err)
			}
			r.ClassIf(len(model) > 0, "sequence obtained on the empty list ranged after writes")
		case opRangeStart:
			var want []int
			for _, k := range sorted() {
				if !less(k, o.A) {
					want = append(want, k)
				}
			}
			if err := enum("RangeWithStart", want, o.C, func(f func(K, int) bool) { a.RangeWithStart(ka, f) }); err != nil {
				return fail("%v", err)
			}
			if !present && len(model) > 0 {
				absentStart = true
			}
		case opRangeRange:
			var want []int
			for _, k := range sorted() {
				if !less(k, o.A) && less(k, o.B) {
					want = append(want, k)
				}
			}
			if err := enum("RangeWithRange", want, o.C, func(f func(K, int) bool) { a.RangeWithRange(ka, kb, f) }); err != nil {
				return fail("%v", err)
			}
			if !present && len(model) > 0 {
				absentStart = true
			}
			r.ClassIf(!less(o.A, o.B), "empty or inverted range")
		}
		// after every step: Len and Head
		if a.Len() != len(model) {
			return fail("Len = %d, model %d", a.Len(), len(model))
		}
		for i, h := range stale {
			if k, v := h.read(); fmt.Sprint(k) != fmt.Sprint(h.k) || v != h.v {
				return fail("a node handle kept by the caller, whose key %v was removed from the list, now reads (%v,%d); it read (%v,%d) after the removal", h.k, k, v, h.k, h.v)
			}
			if (step+i)%3 == 0 {
				h.v = -1000 - step // writing through the handle of a removed binding changes nothing in the list
				h.write(h.v)
				r.Class("SetValue through the handle of a removed binding")
			}
		}
		hk, hv, hok := a.Head()
		ks := sorted()
		if hok != (len(ks) > 0) || (hok && (hk != keyOf(ks[0]) || hv != model[ks[0]])) {
			return fail("Head = (%v,%d,%v), model %v", hk, hv, hok, ks)
		}
	}
	// final full scan
	if err := enum("final Range", sorted(), -1, a.Range); err != nil {
		return err
	}
	r.NonTrivialIf(removedPresent && absentStart)
	r.ClassIf(levelOf(a.list) >= 4, "level >= 4 reached")
	r.ClassIf(maxLevelSeen >= 17, "level >= 17 reached")
	r.ClassIf(maxLevelSeen == 32, "top level 32 reached")
	r.ClassIf(randFieldMissing, "FALLBACK: rand field not found, list's own randomness used")
	return nil
}

func init() {
	pb.Register("ordered_map", pb.Options{Base: 8000,
		Required: []string{"Init after writes", "top level shrank", "zero value read path", "zero value after Clear read path", "clear then write", "level >= 4 reached", "level >= 17 reached", "top level 32 reached", "sequence obtained on the empty list ranged after writes"},
		Rule:     "operation sequences (<= 60 steps, thorough <= 200) over Set/SetNx/SetX/Remove/Clear/Get/GetNode(+Key/Value/Next/SetValue)/Head/Len/Keys/Values/Range/All/RangeWithStart/RangeWithRange with early-stop callbacks, on SkipList[int|string|float64] started from NewSkipList / zero value / zero value after Clear and SkipListWithCmp under ascending, descending and permutation-rank comparators; dense key domains with outer neighbours; tower heights injected through the list's random source (part of the case); oracle: sorted-map model compared after every step; non-trivial = a present key removed after >= 3 inserts and a range query with an absent start key"},
		genSkip, runSkip)
}
