// C01 — SyncRing is a linearizable bounded MPMC FIFO queue.
package c01

import (
	"fmt"
	"testing"
	"time"

	"github.com/welllog/golib/ringz"
	"pgregory.net/rapid"

	"verif/harness/internal/conc"
	"verif/harness/internal/lin"
	"verif/harness/internal/pb"
	"verif/harness/internal/ringff"
)

func TestMain(m *testing.M)   { pb.Main(m) }
func TestReplay(t *testing.T) { pb.RunReplay(t) }

type call struct {
	K string // push pop len isempty isfull pushwait0 popwait0 pushwaitinf popwaitinf pushwaitT popwaitT
	V int
}

type ringCase struct {
	Req     int
	FF      uint32 // counters fast-forwarded by this many push/pop pairs (0: none)
	Rot     int    // honest push/pop pairs before the fill
	Fill    int
	Threads [][]call
	Shape   string      // mixed | pushers | poppers
	Slots   []conc.Slot `json:",omitempty"`
	Trace   []int       `json:",omitempty"`
}

func capOf(req int) int {
	c := 2
	for c < req {
		c *= 2
	}
	return c
}

func genProgram(t *rapid.T, maxThreads, maxCalls int, timed bool) ringCase {
	c := ringCase{Req: rapid.IntRange(1, 9).Draw(t, "req")}
	capv := capOf(c.Req)
	switch rapid.IntRange(0, 4).Draw(t, "ff") {
	case 0:
		c.FF = uint32(int64(1<<32) - int64(rapid.IntRange(0, capv+2).Draw(t, "back")))
	case 1:
		c.FF = uint32(int64(1<<31) - int64(rapid.IntRange(0, capv+2).Draw(t, "back")))
	}
	c.Rot = rapid.IntRange(0, 2*capv).Draw(t, "rot")
	c.Fill = rapid.SampledFrom([]int{0, 0, 1, capv / 2, capv - 1, capv, capv}).Draw(t, "fill")
	if c.Fill > capv {
		c.Fill = capv
	}
	c.Shape = rapid.SampledFrom([]string{"mixed", "mixed", "mixed", "mixed", "pushers", "poppers"}).Draw(t, "shape")
	nt := rapid.IntRange(2, maxThreads).Draw(t, "threads")
	if c.Shape == "pushers" {
		if capv-c.Fill < 2 {
			c.Fill = 0
		}
		if nt > capv-c.Fill {
			nt = capv - c.Fill
		}
	}
	if c.Shape == "poppers" {
		if c.Fill < 2 {
			c.Fill = capv
		}
		if nt > c.Fill {
			nt = c.Fill
		}
	}
	kinds := []string{"push", "push", "push", "pop", "pop", "pop", "len", "isempty", "isfull", "pushwait0", "popwait0", "pushwaitinf", "popwaitinf"}
	if timed {
		kinds = append(kinds, "pushwaitT", "popwaitT", "pushwaitT", "popwaitT", "sleep", "sleep", "sleep")
	}
	for i := 0; i < nt; i++ {
		n := rapid.IntRange(1, maxCalls).Draw(t, "ncalls")
		if c.Shape != "mixed" {
			n = 1
		}
		var th []call
		for j := 0; j < n; j++ {
			k := rapid.SampledFrom(kinds).Draw(t, "k")
			switch c.Shape {
			case "pushers":
				k = "push"
			case "poppers":
				k = "pop"
			}
			if k == "sleep" {
				th = append(th, call{K: k, V: rapid.IntRange(1, 24).Draw(t, "ms")})
				continue
			}
			th = append(th, call{K: k, V: 100*(i+1) + j})
		}
		c.Threads = append(c.Threads, th)
	}
	fixWaits(&c)
	return c
}

func isPush(k string) bool {
	return k == "push" || k == "pushwait0" || k == "pushwaitinf" || k == "pushwaitT"
}
func isPop(k string) bool {
	return k == "pop" || k == "popwait0" || k == "popwaitinf" || k == "popwaitT"
}

// waits with a negative timeout are only kept when they are guaranteed to finish under every fair schedule:
// PushWait(-1) needs room even if every push-type call of the program succeeds, PopWait(-1) a stored value
// even if every pop-type call succeeds.
func waitsOK(c ringCase) (pushInf, popInf bool) {
	pushes, pops := 0, 0
	for _, th := range c.Threads {
		for _, cl := range th {
			if isPush(cl.K) {
				pushes++
			}
			if isPop(cl.K) {
				pops++
			}
		}
	}
	return capOf(c.Req)-c.Fill >= pushes, c.Fill >= pops
}

func fixWaits(c *ringCase) {
	pi, po := waitsOK(*c)
	for i := range c.Threads {
		for j := range c.Threads[i] {
			if c.Threads[i][j].K == "pushwaitinf" && !pi {
				c.Threads[i][j].K = "pushwait0"
			}
			if c.Threads[i][j].K == "popwaitinf" && !po {
				c.Threads[i][j].K = "popwait0"
			}
		}
	}
}

func sane(c ringCase) bool {
	if c.Req < 1 || c.Req > 64 || c.Fill < 0 || c.Fill > capOf(c.Req) || c.Rot < 0 || c.Rot > 200 || len(c.Threads) == 0 || len(c.Threads) > 6 {
		return false
	}
	pi, po := waitsOK(c)
	seen := map[int]bool{}
	for _, th := range c.Threads {
		if len(th) > 8 {
			return false
		}
		for _, cl := range th {
			switch {
			case isPush(cl.K):
				if cl.V < 100 || seen[cl.V] {
					return false
				}
				seen[cl.V] = true
				if cl.K == "pushwaitinf" && !pi {
					return false
				}
			case isPop(cl.K):
				if cl.K == "popwaitinf" && !po {
					return false
				}
			case cl.K == "sleep":
				if cl.V < 0 || cl.V > 100 {
					return false
				}
			case cl.K == "len" || cl.K == "isempty" || cl.K == "isfull":
			default:
				return false
			}
		}
	}
	return true
}

type recorder struct{ ops []lin.Op }

func execThread(q *ringz.SyncRing[int], th int, calls []call, rec *recorder) {
	for _, cl := range calls {
		if cl.K == "sleep" {
			time.Sleep(time.Duration(cl.V) * time.Millisecond)
			continue
		}
		o := lin.Op{Thread: th, Call: conc.Tick()}
		switch cl.K {
		case "push":
			o.Kind, o.Arg = "push", cl.V
			o.OK = q.Push(cl.V)
		case "pushwait0":
			o.Kind, o.Arg = "push", cl.V
			o.OK = q.PushWait(cl.V, 0)
		case "pushwaitinf":
			o.Kind, o.Arg = "push", cl.V
			o.OK = q.PushWait(cl.V, -1)
		case "pushwaitT":
			o.Kind, o.Arg = "push", cl.V
			o.OK = q.PushWait(cl.V, 12*time.Millisecond)
		case "pop":
			o.Kind = "pop"
			o.Ret, o.OK = q.Pop()
		case "popwait0":
			o.Kind = "pop"
			o.Ret, o.OK = q.PopWait(0)
		case "popwaitinf":
			o.Kind = "pop"
			o.Ret, o.OK = q.PopWait(-1)
		case "popwaitT":
			o.Kind = "pop"
			o.Ret, o.OK = q.PopWait(12 * time.Millisecond)
		case "len":
			o.Kind = "len"
			o.Ret = q.Len()
		case "isempty":
			o.Kind = "isempty"
			o.OK = q.IsEmpty()
		case "isfull":
			o.Kind = "isfull"
			o.OK = q.IsFull()
		}
		o.Return = conc.Tick()
		rec.ops = append(rec.ops, o)
	}
}

// newRing builds the initial state sequentially: optional fast-forward, rotation, fill.
func newRing(c ringCase) (*ringz.SyncRing[int], []int, bool, error) {
	conc.Reset()
	q := ringz.NewSync[int](c.Req)
	ffOK := true
	if c.FF != 0 {
		ffOK = ringff.FastForward(&q, c.FF)
	}
	for i := 0; i < c.Rot; i++ {
		if !q.Push(-1 - i) {
			return nil, nil, ffOK, fmt.Errorf("setup: rotation push %d failed on an empty ring", i)
		}
		if v, ok := q.Pop(); !ok || v != -1-i {
			return nil, nil, ffOK, fmt.Errorf("setup: rotation pop %d = %d,%v", i, v, ok)
		}
	}
	var initial []int
	for i := 1; i <= c.Fill; i++ {
		if !q.Push(i) {
			return nil, nil, ffOK, fmt.Errorf("setup: fill push %d of %d failed (cap %d)", i, c.Fill, q.Cap())
		}
		initial = append(initial, i)
	}
	return &q, initial, ffOK, nil
}

func finish(q *ringz.SyncRing[int], c ringCase, initial []int, ops []lin.Op, r *pb.Rec) error {
	th := len(c.Threads)
	capv := q.Cap()
	if capv != capOf(c.Req) {
		return fmt.Errorf("Cap() = %d for requested %d", capv, c.Req)
	}
	obs := func() {
		o := lin.Op{Thread: th, Kind: "len", Call: conc.Tick()}
		o.Ret = q.Len()
		o.Return = conc.Tick()
		e := lin.Op{Thread: th, Kind: "isempty", Call: conc.Tick()}
		e.OK = q.IsEmpty()
		e.Return = conc.Tick()
		f := lin.Op{Thread: th, Kind: "isfull", Call: conc.Tick()}
		f.OK = q.IsFull()
		f.Return = conc.Tick()
		ops = append(ops, o, e, f)
	}
	obs() // quiescent point: no operation in flight
	for i := 0; ; i++ {
		p := lin.Op{Thread: th, Kind: "pop", Call: conc.Tick()}
		p.Ret, p.OK = q.Pop()
		p.Return = conc.Tick()
		ops = append(ops, p)
		if !p.OK {
			break
		}
		if i > 200 {
			return fmt.Errorf("final drain does not terminate")
		}
	}
	obs()
	// progress: only pushers on enough free slots / only poppers on enough stored values
	if c.Shape == "pushers" || c.Shape == "poppers" {
		okAny := false
		for _, o := range ops {
			if o.Thread < th && o.OK {
				okAny = true
			}
		}
		if !okAny {
			return fmt.Errorf("progress: %d %s ran alone on a ring with fill %d of %d and none of them succeeded\nhistory:\n%s", th, c.Shape, c.Fill, capv, lin.Format(ops))
		}
		r.Class("progress shape (" + c.Shape + " only)")
	}
	st, err := lin.CheckQueue(ops, initial, capv)
	if err != nil {
		return fmt.Errorf("%v\nhistory:\n%s", err, lin.Format(ops))
	}
	r.ClassIf(st.Inconclusive, "INCONCLUSIVE: linearizability search hit its time limit")
	r.ClassIf(st.FalseNoOverlap > 0, "false without overlap (must be full/empty)")
	r.ClassIf(st.FalseExcused > 0, "false excused by overlap")
	r.ClassIf(c.FF != 0 && c.FF > 1<<31+100, "wrap crossed (counters pass 2^32)")
	r.ClassIf(c.FF != 0 && c.FF <= 1<<31+100, "counters pass 2^31")
	mut := func(o lin.Op) bool { return o.Kind == "push" || o.Kind == "pop" }
	r.ClassIf(lin.Overlapping(ops, mut), "overlapping mutating calls")
	// a Len call during which at least Cap other calls completed
	for _, o := range ops {
		if o.Kind == "len" && o.Thread < th {
			n := 0
			for _, p := range ops {
				if mut(p) && p.Call > o.Call && p.Return < o.Return {
					n++
				}
			}
			r.ClassIf(n >= capv, "Len split by >= Cap operations")
		}
	}
	return nil
}
