//go:build !sched

package c01

import (
	"encoding/json"
	"fmt"
	"os"
	"testing"

	"pgregory.net/rapid"

	"verif/harness/internal/conc"
	"verif/harness/internal/lin"
	"verif/harness/internal/pb"
)

func runRaced(c ringCase, r *pb.Rec) error {
	if !sane(c) {
		return nil
	}
	q, initial, ffOK, err := newRing(c)
	if err != nil {
		return err
	}
	r.ClassIf(!ffOK, "SKIPPED: SyncRing layout not recognised, fast-forward not applied")
	recs := make([]*recorder, len(c.Threads))
	var bodies []func()
	for i, th := range c.Threads {
		i, th := i, th
		recs[i] = &recorder{}
		bodies = append(bodies, func() { execThread(q, i, th, recs[i]) })
	}
	if p := conc.RunRaced(bodies); len(p) > 0 {
		return fmt.Errorf("panic in a goroutine: %v", p[0])
	}
	var ops []lin.Op
	for _, rc := range recs {
		ops = append(ops, rc.ops...)
	}
	if err := finish(q, c, initial, ops, r); err != nil {
		return err
	}
	mut := func(o lin.Op) bool { return o.Kind == "push" || o.Kind == "pop" }
	r.NonTrivialIf(lin.Overlapping(ops, mut))
	return nil
}

func TestRaced(t *testing.T) {
	st := pb.Stats("syncring_raced")
	st.SetRule("generated programs (2-5 goroutines x 1-4 calls, incl. timed PushWait/PopWait(12ms) occasionally) run on real goroutines released from a barrier, unshimmed code under the race detector (halt_on_error; the running program is saved before every execution); history recorded with an atomic logical clock; same conservation/linearizability/Len/progress oracles; non-trivial = >= 2 mutating calls actually overlapped")
	gen := rapid.Custom(func(t *rapid.T) ringCase {
		return genProgram(t, 5, 4, rapid.IntRange(0, 15).Draw(t, "timed") == 0)
	})
	n := pb.Scaled(1500)
	cur := os.Getenv("VERIF_CURRENT_CASE")
	for i := 0; i < n; i++ {
		c := gen.Example(int(pb.Seed("raced")%1000003) + i)
		js, _ := json.Marshal(c)
		if cur != "" {
			b, _ := json.Marshal(pb.ReplayFile{Property: os.Getenv("VERIF_PROPERTY"), Prop: "syncring_raced", Kind: "race-detector", Mode: "race", Case: js, Error: "data race reported by the race detector while this program was running (report next to this file)"})
			os.WriteFile(cur, b, 0o644)
		}
		rec := &pb.Rec{}
		reps := 1
		if i%10 == 0 {
			reps = 20
		}
		for k := 0; k < reps; k++ {
			if err := runRaced(c, rec); err != nil {
				st.Violation("raced", js, err)
				t.Fatalf("raced program %s: %v", js, err)
			}
		}
		st.Case(js, rec)
	}
}

func init() {
	pb.RegisterReplay("syncring_raced", func(raw json.RawMessage) error {
		var c ringCase
		if err := json.Unmarshal(raw, &c); err != nil {
			return fmt.Errorf("BADREPLAY: %v", err)
		}
		for i := 0; i < 400; i++ {
			if err := runRaced(c, &pb.Rec{}); err != nil {
				return err
			}
		}
		return nil
	})
}
