//go:build !sched

package c01

import (
	"encoding/json"
	"fmt"
	"os"
	"runtime"
	"strconv"
	"sync/atomic"
	"testing"
	"time"

	"github.com/welllog/golib/ringz"
	"pgregory.net/rapid"

	"verif/harness/internal/conc"
	"verif/harness/internal/lin"
	"verif/harness/internal/pb"
)

func runRaced(c ringCase, r *pb.Rec) error {
	if !sane(c) {
		return nil
	}
	q, initial, ffOK, err := newRing(c)
	if err != nil {
		return err
	}
	r.ClassIf(!ffOK, "SKIPPED: SyncRing layout not recognised, fast-forward not applied")
	recs := make([]*recorder, len(c.Threads))
	var bodies []func()
	for i, th := range c.Threads {
		i, th := i, th
		recs[i] = &recorder{}
		bodies = append(bodies, func() { execThread(q, i, th, recs[i]) })
	}
	if p := conc.RunRaced(bodies); len(p) > 0 {
		return fmt.Errorf("panic in a goroutine: %v", p[0])
	}
	var ops []lin.Op
	for _, rc := range recs {
		ops = append(ops, rc.ops...)
	}
	if err := finish(q, c, initial, ops, r); err != nil {
		return err
	}
	mut := func(o lin.Op) bool { return o.Kind == "push" || o.Kind == "pop" }
	r.NonTrivialIf(lin.Overlapping(ops, mut))
	return nil
}

func TestRaced(t *testing.T) {
	st := pb.Stats("syncring_raced")
	st.SetRule("generated programs (2-5 goroutines x 1-4 calls, incl. timed PushWait/PopWait(12ms) occasionally) run on real goroutines released from a barrier, unshimmed code under the race detector (halt_on_error; the running program is saved before every execution); history recorded with an atomic logical clock; same conservation/linearizability/Len/progress oracles; non-trivial = >= 2 mutating calls actually overlapped")
	gen := rapid.Custom(func(t *rapid.T) ringCase {
		return genProgram(t, 5, 4, rapid.IntRange(0, 15).Draw(t, "timed") == 0)
	})
	n := pb.Scaled(1500)
	cur := os.Getenv("VERIF_CURRENT_CASE")
	for i := 0; i < n; i++ {
		c := gen.Example(int(pb.Seed("raced")%1000003) + i)
		js, _ := json.Marshal(c)
		restoreProcs, procsClass := pb.FlipProcs(js)
		if cur != "" {
			b, _ := json.Marshal(pb.ReplayFile{Property: os.Getenv("VERIF_PROPERTY"), Prop: "syncring_raced", Kind: "race-detector", Mode: "race", Case: js, Error: "data race reported by the race detector while this program was running (report next to this file)"})
			os.WriteFile(cur, b, 0o644)
		}
		rec := &pb.Rec{}
		reps := 1
		timedProg := false
		for _, th := range c.Threads {
			for _, cl := range th {
				timedProg = timedProg || cl.K == "popwaitT" || cl.K == "pushwaitT" || cl.K == "sleep"
			}
		}
		if i%10 == 0 && !timedProg {
			reps = 20
		}
		rec.ClassIf(timedProg, "timed waits / delayed calls")
		for k := 0; k < reps; k++ {
			if err := runRaced(c, rec); err != nil {
				st.Violation("raced", js, err)
				t.Fatalf("raced program %s: %v", js, err)
			}
		}
		restoreProcs()
		rec.ClassIf(procsClass != "", procsClass)
		st.Case(js, rec)
	}
}

func init() {
	pb.RegisterReplay("syncring_raced", func(raw json.RawMessage) error {
		var c ringCase
		if err := json.Unmarshal(raw, &c); err != nil {
			return fmt.Errorf("BADREPLAY: %v", err)
		}
		for i := 0; i < 400; i++ {
			if err := runRaced(c, &pb.Rec{}); err != nil {
				return err
			}
		}
		return nil
	})
}

// ---- producer/consumer loops on real goroutines (race detector + MPMC conservation/order oracle)

type loopCase struct {
	Req       int
	Producers int
	Consumers int
	PerProd   int
	Elem      int  // element type: 0 int, 1 string, 2 *int, 3 struct with a string field
	Waits     bool // use PushWait(-1)/PopWait(-1) instead of spinning on Push/Pop in the harness
}

// stalled is returned when the run made no progress for a long time although the state-based
// diagnosis afterwards found nothing wrong (reported as no verdict, never as a violation).
type stalled struct{ msg string }

func (e stalled) Error() string { return "INCONCLUSIVE: " + e.msg }

func runLoops(c loopCase) error {
	switch c.Elem {
	case 1: // strings: an element type that carries a pointer
		return runLoopsT(c, func(v int) string { return strconv.Itoa(v) + "#" }, func(s string) (int, bool) {
			if len(s) < 2 || s[len(s)-1] != '#' {
				return 0, false
			}
			v, err := strconv.Atoi(s[:len(s)-1])
			return v, err == nil
		})
	case 2: // pointers
		return runLoopsT(c, func(v int) *int { x := v; return &x }, func(p *int) (int, bool) {
			if p == nil {
				return 0, false
			}
			return *p, true
		})
	case 3: // a struct mixing scalar and pointer-carrying fields, with redundancy to detect torn values
		type rec struct {
			A int
			S string
			B int
		}
		return runLoopsT(c, func(v int) rec { return rec{A: v, S: strconv.Itoa(v), B: ^v} }, func(r rec) (int, bool) {
			return r.A, r.B == ^r.A && r.S == strconv.Itoa(r.A)
		})
	}
	return runLoopsT(c, func(v int) int { return v }, func(v int) (int, bool) { return v, true })
}

func runLoopsT[T any](c loopCase, enc func(int) T, dec func(T) (int, bool)) error {
	if c.Req < 1 || c.Req > 1<<21 || c.Producers < 1 || c.Producers > 8 || c.Consumers < 1 || c.Consumers > 8 || c.PerProd < 1 || c.PerProd > 100000 {
		return nil
	}
	q := ringz.NewSync[T](c.Req)
	capv := q.Cap()
	total := c.Producers * c.PerProd
	var consumed, produced, abort int64
	got := make([][]int, c.Consumers)
	var lenErr, torn atomic.Value
	var tornCount int64
	stop := make(chan struct{})
	var bodies []func()
	for p := 0; p < c.Producers; p++ {
		p := p
		bodies = append(bodies, func() {
			for i := 0; i < c.PerProd; i++ {
				v := p*1000000 + i
				for !q.Push(enc(v)) {
					if atomic.LoadInt64(&abort) != 0 {
						return
					}
					runtime.Gosched()
				}
				atomic.AddInt64(&produced, 1)
			}
		})
	}
	for k := 0; k < c.Consumers; k++ {
		k := k
		bodies = append(bodies, func() {
			for atomic.LoadInt64(&consumed) < int64(total) && atomic.LoadInt64(&abort) == 0 {
				tv, ok := q.Pop()
				if !ok {
					runtime.Gosched()
					continue
				}
				v, valid := dec(tv)
				if !valid {
					torn.CompareAndSwap(nil, fmt.Sprintf("Pop returned %v, which is not a value that was ever pushed (torn or wiped element)", any(tv)))
					v = -1 - int(atomic.AddInt64(&tornCount, 1))
				}
				got[k] = append(got[k], v)
				atomic.AddInt64(&consumed, 1)
			}
		})
	}
	// observer: Len always within [0, Cap]; watchdog: a run without any progress for 15 s is stopped and diagnosed
	obsDone := make(chan struct{})
	go func() {
		defer close(obsDone)
		last, lastChange := int64(-1), time.Now()
		for {
			select {
			case <-stop:
				return
			default:
			}
			if l := q.Len(); l < 0 || l > capv {
				lenErr.CompareAndSwap(nil, fmt.Sprintf("Len() = %d outside [0, %d] during the run", l, capv))
			}
			if now := atomic.LoadInt64(&consumed) + atomic.LoadInt64(&produced); now != last {
				last, lastChange = now, time.Now()
			} else if time.Since(lastChange) > 15*time.Second {
				atomic.StoreInt64(&abort, 1)
			}
			runtime.Gosched()
		}
	}()
	panics := conc.RunRaced(bodies)
	close(stop)
	<-obsDone
	if len(panics) > 0 {
		return fmt.Errorf("panic in a goroutine: %v", panics[0])
	}
	if e := lenErr.Load(); e != nil {
		return fmt.Errorf("%s", e)
	}
	if e := torn.Load(); e != nil {
		return fmt.Errorf("%s", e)
	}
	seen := map[int]bool{}
	for k, vs := range got {
		last := map[int]int{}
		for _, v := range vs {
			if seen[v] {
				return fmt.Errorf("value %d popped twice", v)
			}
			seen[v] = true
			p, i := v/1000000, v%1000000
			if p < 0 || p >= c.Producers || i >= c.PerProd {
				return fmt.Errorf("invented value %d", v)
			}
			if prev, ok := last[p]; ok && i < prev {
				return fmt.Errorf("consumer %d received value %d of producer %d after value %d: FIFO order violated", k, i, p, prev)
			}
			last[p] = i
		}
	}
	if atomic.LoadInt64(&abort) != 0 {
		// everything has stopped: diagnose the quiescent ring sequentially (state-based, no timing involved)
		drained := 0
		for {
			tv, ok := q.Pop()
			if !ok {
				break
			}
			v, _ := dec(tv)
			if seen[v] {
				return fmt.Errorf("value %d popped twice", v)
			}
			seen[v] = true
			if drained++; drained > capv+1 {
				return fmt.Errorf("more than Cap() values drained from the quiescent ring")
			}
		}
		if int64(len(seen)) < atomic.LoadInt64(&produced) {
			return fmt.Errorf("no progress: %d values were pushed successfully but only %d ever came out and the quiescent ring is empty (lost values)", produced, len(seen))
		}
		if !q.Push(enc(-1)) {
			return fmt.Errorf("no progress: Push fails on the drained, quiescent ring (Len %d, IsFull %v)", q.Len(), q.IsFull())
		}
		if tv, ok := q.Pop(); !ok {
			return fmt.Errorf("no progress: Pop after a successful Push on the quiescent ring fails")
		} else if v, _ := dec(tv); v != -1 {
			return fmt.Errorf("no progress: Pop after a successful Push on the quiescent ring = %d,%v", v, ok)
		}
		return stalled{fmt.Sprintf("no progress for 15s with %d of %d consumed, but the quiescent ring is consistent", consumed, total)}
	}
	if len(seen) != total {
		return fmt.Errorf("%d of %d values came out (lost values)", len(seen), total)
	}
	if q.Len() != 0 || !q.IsEmpty() || q.IsFull() {
		return fmt.Errorf("after the run: Len=%d IsEmpty=%v IsFull=%v", q.Len(), q.IsEmpty(), q.IsFull())
	}
	return nil
}

func TestRacedLoops(t *testing.T) {
	st := pb.Stats("syncring_raced_loops")
	st.SetRule("1-4 producers x 200-3000 values and 1-4 consumers spinning on a SyncRing of requested capacity 1..9 (one case in five: 1000..2^20+1) on real goroutines under the race detector, with an observer calling Len; oracle: every value comes out exactly once, per consumer the values of one producer arrive in increasing order, Len in [0,Cap] throughout, ring empty afterwards; every drawn configuration is a case, non-trivial = >= 2 producers and >= 2 consumers")
	gen := rapid.Custom(func(t *rapid.T) loopCase {
		req := rapid.IntRange(1, 9).Draw(t, "req")
		if rapid.IntRange(0, 4).Draw(t, "large") == 0 {
			// requested capacities far above the usual ones: the rounding to a power of two and the index mask
			req = rapid.SampledFrom([]int{129, 257, 513, 514, 769, 1000, 1025, 4097, 65535, 65536, 65537, 70000, 131073, 131074, 196609, 262145, 1<<20 + 1}).Draw(t, "largeReq")
		}
		elem := rapid.SampledFrom([]int{0, 0, 1, 2, 3}).Draw(t, "elem")
		return loopCase{Elem: elem, Req: req, Producers: rapid.IntRange(1, 4).Draw(t, "p"), Consumers: rapid.IntRange(1, 4).Draw(t, "c"),
			PerProd: rapid.IntRange(200, 3000).Draw(t, "n")}
	})
	n := pb.Scaled(40)
	for i := 0; i < n; i++ {
		c := gen.Example(int(pb.Seed("loops")%1000003) + i)
		js, _ := json.Marshal(c)
		restoreProcs, procsClass := pb.FlipProcs(js)
		if cur := os.Getenv("VERIF_CURRENT_CASE"); cur != "" {
			b, _ := json.Marshal(pb.ReplayFile{Property: os.Getenv("VERIF_PROPERTY"), Prop: "syncring_raced_loops", Kind: "race-detector", Mode: "race", Case: js})
			os.WriteFile(cur, b, 0o644)
		}
		if err := runLoops(c); err != nil {
			if _, inc := err.(stalled); inc {
				st.Note("%v: %s", err, js)
				t.Fatalf("NO-VERDICT %v", err)
			}
			st.Violation("raced-loops", js, err)
			t.Fatalf("loops %s: %v", js, err)
		}
		rec := &pb.Rec{}
		rec.NonTrivialIf(c.Producers >= 2 && c.Consumers >= 2)
		rec.ClassIf(c.Producers >= 2 && c.Consumers >= 2, "MPMC")
		rec.ClassIf(c.Req > 65536, "requested capacity above 2^16")
		rec.ClassIf(c.Elem != 0, "pointer-carrying element type")
		restoreProcs()
		rec.ClassIf(procsClass != "", procsClass)
		st.Case(js, rec)
	}
}

func init() {
	pb.RegisterReplay("syncring_raced_loops", func(raw json.RawMessage) error {
		var c loopCase
		if err := json.Unmarshal(raw, &c); err != nil {
			return fmt.Errorf("BADREPLAY: %v", err)
		}
		for i := 0; i < 20; i++ {
			if err := runLoops(c); err != nil {
				return err
			}
		}
		return nil
	})
}
