package c01

// Elements that carry pointers, kept alive by the ring alone, across garbage collections: the ring is filled
// with freshly allocated *int / string / struct values that nothing else references, two collections run,
// the freed size classes are churned with other content, and then every element is popped and compared.
// A ring that keeps its slots in memory the collector does not scan hands back recycled memory.

import (
	"encoding/json"
	"fmt"
	"runtime"
	"strconv"
	"testing"

	"github.com/welllog/golib/ringz"

	"verif/harness/internal/pb"
)

type gcCase struct {
	Req  int
	Fill int
	Elem int // 1 string, 2 *int, 3 struct with a string and a pointer
}

type gcRec struct {
	A int
	S string
	P *int
}

var gcSink [][]byte

func runAcrossGC(c gcCase) error {
	switch c.Elem {
	case 1:
		return acrossGC(c, func(v int) string { return strconv.Itoa(v) + "#" + strconv.Itoa(v*7) }, func(s string, v int) bool { return s == strconv.Itoa(v)+"#"+strconv.Itoa(v*7) })
	case 2:
		return acrossGC(c, func(v int) *int { x := v; return &x }, func(p *int, v int) bool { return p != nil && *p == v })
	default:
		return acrossGC(c, func(v int) gcRec { x := ^v; return gcRec{A: v, S: strconv.Itoa(v), P: &x} }, func(r gcRec, v int) bool {
			return r.A == v && r.S == strconv.Itoa(v) && r.P != nil && *r.P == ^v
		})
	}
}

func acrossGC[T any](c gcCase, mk func(int) T, ok func(T, int) bool) error {
	q := ringz.NewSync[T](c.Req)
	n := min(c.Fill, q.Cap())
	for round := 0; round < 3; round++ {
		base := 1000000*(round+1) + c.Req
		for i := 0; i < n; i++ {
			if !q.Push(mk(base + i)) {
				return fmt.Errorf("Push %d of %d into a ring of capacity %d failed", i, n, q.Cap())
			}
		}
		runtime.GC()
		runtime.GC()
		// churn: the size classes of the elements are re-used with other content
		for i := 0; i < 4*n+64; i++ {
			x := new(int)
			*x = -1 - i
			s := strconv.Itoa(-1-i) + "#garbage"
			gcSink = append(gcSink, []byte(s))
			_ = x
		}
		gcSink = gcSink[:0]
		for i := 0; i < n; i++ {
			v, got := q.Pop()
			if !got || !ok(v, base+i) {
				return fmt.Errorf("round %d: element %d of %d, pushed before two garbage collections and referenced by the ring alone, came back as %v (ok=%v); pushed value: %v", round, i, n, v, got, mk(base+i))
			}
		}
	}
	return nil
}

func TestElementsAcrossGC(t *testing.T) {
	st := pb.Stats("syncring_elements_across_gc")
	st.SetExhaustive(true)
	st.SetRule("SyncRing of string / *int / struct{int, string, *int}: requested capacities 1..64, 100, 1000, 5000, filled completely or half with freshly allocated elements that only the ring references, two forced garbage collections, allocation churn, then every element popped and compared; three rounds per ring; the list is enumerated completely; every case is non-trivial")
	reqs := []int{100, 1000, 5000}
	for r := 1; r <= 64; r++ {
		reqs = append(reqs, r)
	}
	for _, req := range reqs {
		for elem := 1; elem <= 3; elem++ {
			for _, fill := range []int{1 << 30, req/2 + 1} {
				if req > 8 && req < 100 && req%8 != 0 {
					continue
				}
				c := gcCase{Req: req, Fill: fill, Elem: elem}
				js, _ := json.Marshal(c)
				err := pb.Catch(func() {
					if e := runAcrossGC(c); e != nil {
						panic(e)
					}
				})
				rec := &pb.Rec{}
				rec.NonTrivial()
				st.Case(js, rec)
				if err != nil {
					st.Violation("elements-across-gc", js, err)
					t.Fatalf("%s: %v", js, err)
				}
			}
		}
	}
}

func init() {
	pb.RegisterReplay("syncring_elements_across_gc", func(raw json.RawMessage) error {
		var c gcCase
		if err := json.Unmarshal(raw, &c); err != nil {
			return fmt.Errorf("BADREPLAY: %v", err)
		}
		return runAcrossGC(c)
	})
}
