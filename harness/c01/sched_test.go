//go:build sched

package c01

import (
	"encoding/json"
	"fmt"
	"os"
	"testing"

	"pgregory.net/rapid"

	"verif/harness/internal/conc"
	"verif/harness/internal/lin"
	"verif/harness/internal/pb"
)

func TestProps(t *testing.T) { pb.RunProps(t) }

const maxSteps = 6000

func genSched(t *rapid.T) ringCase {
	c := genProgram(t, 4, 4, false)
	c.Slots = conc.GenSlots(t, len(c.Threads), 14)
	return c
}

func build(c ringCase) (bodies []func(), after func(conc.Result, *pb.Rec) error, err error) {
	q, initial, ffOK, err := newRing(c)
	if err != nil {
		return nil, nil, err
	}
	rec := &recorder{}
	for i, th := range c.Threads {
		i, th := i, th
		bodies = append(bodies, func() { execThread(q, i, th, rec) })
	}
	after = func(res conc.Result, r *pb.Rec) error {
		r.ClassIf(!ffOK, "SKIPPED: SyncRing layout not recognised, fast-forward not applied")
		if res.Budget {
			r.Class("INCONCLUSIVE: step budget exhausted")
			if os.Getenv("VERIF_BUDGET_FAIL") != "" {
				return fmt.Errorf("step budget exhausted\n%s", lin.Format(rec.ops))
			}
			return nil
		}
		if res.Err != nil {
			return fmt.Errorf("%v\nhistory so far:\n%s", res.Err, lin.Format(rec.ops))
		}
		if err := finish(q, c, initial, rec.ops, r); err != nil {
			return err
		}
		r.ClassIf(res.SwitchAfterOK > 0, "pre-empted between CAS and publish")
		r.ClassIf(res.Switches > 0, "pre-emption inside an operation")
		mut := func(o lin.Op) bool { return o.Kind == "push" || o.Kind == "pop" }
		r.NonTrivialIf(res.Switches > 0 && lin.Overlapping(rec.ops, mut))
		return nil
	}
	return bodies, after, nil
}

func runSched(c ringCase, r *pb.Rec) error {
	if !sane(c) {
		return nil
	}
	bodies, after, err := build(c)
	if err != nil {
		return err
	}
	var res conc.Result
	if c.Trace != nil {
		res = conc.RunTrace(bodies, c.Trace, maxSteps)
	} else {
		res = conc.RunSlots(bodies, c.Slots, maxSteps)
	}
	return after(res, r)
}

func TestExhaustive(t *testing.T) {
	st := pb.Stats("syncring_exhaustive")
	st.SetExhaustive(true)
	p2, p3 := 2, 1
	caps := []int{2}
	if pb.Thorough() {
		p2, p3 = 3, 2
		caps = []int{2, 4}
	}
	st.SetRule(fmt.Sprintf("all schedules with <= %d pre-emptions for every pair of threads with <= 2 calls from {push,pop} (and {len}), and <= %d for three single-call threads, on the configuration menu: capacity %v; empty / one short of full / full; unrotated and rotated with counters fast-forwarded to 2^32-1; same oracles as the random tier; every (program, schedule) is distinct; non-trivial = at least one pre-emption", p2, p3, caps))
	seqs := [][]string{{"push"}, {"pop"}, {"push", "push"}, {"push", "pop"}, {"pop", "push"}, {"pop", "pop"}, {"len"}}
	mk := func(ks []string, th int) []call {
		var out []call
		for j, k := range ks {
			out = append(out, call{K: k, V: 100*(th+1) + j})
		}
		return out
	}
	var cfgs []ringCase
	var budgets []int
	for _, capv := range caps {
		for _, fill := range []int{0, capv - 1, capv} {
			for _, rf := range [][2]uint32{{0, 0}, {1, 1<<32 - 1}} {
				for _, a := range seqs {
					for _, b := range seqs {
						cfgs = append(cfgs, ringCase{Req: capv, Fill: fill, Rot: int(rf[0]), FF: rf[1], Shape: "mixed", Threads: [][]call{mk(a, 0), mk(b, 1)}})
						budgets = append(budgets, p2)
					}
				}
				for _, tri := range [][]string{{"push", "push", "pop"}, {"push", "pop", "pop"}, {"push", "push", "push"}, {"pop", "pop", "pop"}} {
					cfgs = append(cfgs, ringCase{Req: capv, Fill: fill, Rot: int(rf[0]), FF: rf[1], Shape: "mixed", Threads: [][]call{mk(tri[:1], 0), mk(tri[1:2], 1), mk(tri[2:], 2)}})
					budgets = append(budgets, p3)
				}
			}
		}
	}
	key := uint64(0)
	for ci, cfg := range cfgs {
		cfg := cfg
		_, trace, err, complete := conc.Explore(func() ([]func(), func(conc.Result) error) {
			bodies, after, err := build(cfg)
			if err != nil {
				return nil, func(conc.Result) error { return err }
			}
			return bodies, func(res conc.Result) error {
				r := &pb.Rec{}
				key++
				e := after(res, r)
				r.NonTrivialIf(res.Switches > 0) // exhaustive tier: every pre-empted schedule counts
				st.CaseKey(key, r, func() []byte {
					b, _ := json.Marshal(map[string]any{"program": cfg, "decisions": res.Trace})
					return b
				})
				return e
			}
		}, budgets[ci], maxSteps, 0)
		if err != nil {
			bad := cfg
			bad.Trace = trace
			js, _ := json.Marshal(bad)
			st.Violation("exhaustive", js, err)
			t.Errorf("program %+v: %v", cfg, err)
			return
		}
		if !complete {
			st.SetExhaustive(false)
		}
	}
	st.Note("%d programs enumerated completely", len(cfgs))
}

func init() {
	pb.Register("syncring_sched", pb.Options{Base: 6000,
		Required: []string{"pre-empted between CAS and publish", "false without overlap (must be full/empty)", "wrap crossed (counters pass 2^32)", "pre-emption inside an operation", "progress shape (pushers only)", "progress shape (poppers only)"},
		Rule:     "the real SyncRing code rebuilt with sync/atomic and runtime.Gosched redirected to a deterministic scheduler (every atomic operation is a scheduling point before and after); requested capacity 1..9, initial state = optional counter fast-forward to 2^32-k / 2^31-k, rotation 0..2*Cap, fill 0..Cap; 2-4 threads x 1-4 calls from Push/Pop/Len/IsEmpty/IsFull/PushWait(0)/PopWait(0) and PushWait(-1)/PopWait(-1) when guaranteed to finish; pushers-only / poppers-only shapes for the progress clause; schedule = drawn (thread, burst) list then fair non-pre-emptive completion; oracles: conservation, porcupine linearizability against a bounded FIFO (a false return is excused only when another call overlapped it, otherwise it must be full/empty), Len in [0,Cap], exact Len/IsEmpty/IsFull at quiescence, progress, no deadlock / no-progress; non-trivial = >= 2 overlapping mutating calls with a pre-emption inside an operation"},
		genSched, runSched)
	pb.RegisterReplay("syncring_exhaustive", func(raw json.RawMessage) error {
		var c ringCase
		if err := json.Unmarshal(raw, &c); err != nil {
			return fmt.Errorf("BADREPLAY: %v", err)
		}
		return runSched(c, &pb.Rec{})
	})
}
