// C03 — RoaringBitmap behaves as a set of uint32 with complete ascending enumeration.
package c03

import (
	"fmt"
	"sort"
	"testing"

	"github.com/welllog/golib/setz"
	"pgregory.net/rapid"

	"verif/harness/internal/pb"
)

func TestMain(m *testing.M)   { pb.Main(m) }
func TestProps(t *testing.T)  { pb.RunProps(t) }
func TestReplay(t *testing.T) { pb.RunReplay(t) }

type rop struct {
	K      int // see constants
	H      int // index into Highs
	Lo     int
	N      int
	Stride int
	Stop   int
}

const (
	oAdd = iota
	oRemove
	oContains
	oAddRun
	oRemoveRun
	oRemoveBucket
	oFillTo
	oEnum
)

type roarCase struct {
	Highs []int
	Ops   []rop
}

func genRoar(t *rapid.T) roarCase {
	maxB, maxOps := 5, 40
	if pb.Thorough() {
		maxB = 8
	}
	nb := rapid.IntRange(1, maxB).Draw(t, "nbuckets")
	c := roarCase{}
	seen := map[int]bool{}
	for len(c.Highs) < nb {
		h := rapid.OneOf(rapid.SampledFrom([]int{0, 1, 2, 5, 0x7fff, 0x8000, 0xfffe, 0xffff}), rapid.IntRange(0, 0xffff)).Draw(t, "high")
		if !seen[h] {
			seen[h] = true
			c.Highs = append(c.Highs, h)
		}
	}
	lo := rapid.OneOf(rapid.SampledFrom([]int{0, 1, 63, 64, 65, 4095, 4096, 4097, 32767, 32768, 65534, 65535}), rapid.IntRange(0, 65535), rapid.IntRange(0, 200))
	kinds := []int{oAdd, oAdd, oAdd, oRemove, oRemove, oContains, oAddRun, oAddRun, oRemoveRun, oRemoveBucket, oFillTo, oFillTo, oEnum, oEnum, oEnum}
	n := rapid.IntRange(1, maxOps).Draw(t, "nops")
	for i := 0; i < n; i++ {
		o := rop{K: rapid.SampledFrom(kinds).Draw(t, "op"), H: rapid.IntRange(0, nb-1).Draw(t, "h"), Lo: lo.Draw(t, "lo")}
		switch o.K {
		case oAddRun, oRemoveRun:
			o.N = rapid.OneOf(rapid.IntRange(1, 40), rapid.IntRange(1, 600), rapid.IntRange(4000, 4200)).Draw(t, "n")
			o.Stride = rapid.SampledFrom([]int{1, 1, 2, 3, 7, 16, 64, 65535, 65533, 257}).Draw(t, "stride") // 65535 = descending by one
		case oFillTo:
			o.N = rapid.SampledFrom([]int{4094, 4095, 4096, 4096, 4097, 4097, 4098, 5000}).Draw(t, "target")
			o.Stride = rapid.SampledFrom([]int{1, 3, 65535, 17}).Draw(t, "stride")
		case oEnum:
			o.Stop = rapid.OneOf(rapid.Just(-1), rapid.IntRange(0, 5), rapid.IntRange(0, 9000)).Draw(t, "stop")
		}
		c.Ops = append(c.Ops, o)
	}
	c.Ops = append(c.Ops, rop{K: oEnum, Stop: -1})
	return c
}

func runRoar(c roarCase, r *pb.Rec) error {
	var bm setz.RoaringBitmap // zero value must be usable
	earlySeq := bm.All()      // obtained on the empty zero value, ranged at every enumeration step
	model := map[uint32]struct{}{}
	count := map[int]int{}    // per bucket index
	dense := map[int]bool{}   // implementation stores this bucket as a bitmap
	emptied := map[int]bool{} // bucket was non-empty and became empty
	crossed, readded := false, false
	val := func(h, lo int) uint32 { return uint32(c.Highs[h])<<16 | uint32(lo&0xffff) }
	add := func(h, lo int) error {
		v := val(h, lo)
		_, had := model[v]
		if got := bm.Add(v); got != !had {
			return fmt.Errorf("Add(%#x) = %v, member before = %v", v, got, had)
		}
		if !had {
			model[v] = struct{}{}
			if count[h] == 0 && emptied[h] {
				readded = true
				r.Class("bucket re-added after being emptied")
			}
			count[h]++
			if count[h] == 4097 && !dense[h] {
				dense[h] = true
				crossed = true
				r.Class("bucket crossed 4096")
			}
		}
		return nil
	}
	remove := func(h, lo int) error {
		v := val(h, lo)
		_, had := model[v]
		if got := bm.Remove(v); got != had {
			return fmt.Errorf("Remove(%#x) = %v, member before = %v", v, got, had)
		}
		if had {
			delete(model, v)
			count[h]--
			r.ClassIf(dense[h], "remove from dense")
			if count[h] == 0 {
				emptied[h] = true
				r.ClassIf(dense[h], "dense bucket emptied")
				dense[h] = false
				r.Class("bucket emptied")
			}
		}
		return nil
	}
	checkLen := func(where string) error {
		if bm.Len() != len(model) {
			return fmt.Errorf("%s: Len = %d, model %d", where, bm.Len(), len(model))
		}
		return nil
	}
	for step, o := range c.Ops {
		if o.H < 0 || o.H >= len(c.Highs) {
			return nil
		}
		var err error
		switch o.K {
		case oAdd:
			err = add(o.H, o.Lo)
		case oRemove:
			err = remove(o.H, o.Lo)
		case oContains:
			v := val(o.H, o.Lo)
			_, had := model[v]
			if got := bm.Contains(v); got != had {
				err = fmt.Errorf("Contains(%#x) = %v want %v", v, got, had)
			}
			// a neighbour in another bucket with the same low bits
			v2 := v ^ 0x10000
			_, had2 := model[v2]
			if got := bm.Contains(v2); got != had2 && err == nil {
				err = fmt.Errorf("Contains(%#x) = %v want %v", v2, got, had2)
			}
		case oAddRun:
			for i := 0; i < o.N && err == nil; i++ {
				err = add(o.H, o.Lo+i*o.Stride)
			}
		case oRemoveRun:
			for i := 0; i < o.N && err == nil; i++ {
				err = remove(o.H, o.Lo+i*o.Stride)
			}
		case oRemoveBucket:
			var los []int
			for v := range model {
				if int(v>>16) == c.Highs[o.H] {
					los = append(los, int(v&0xffff))
				}
			}
			sort.Ints(los)
			if o.Lo%2 == 1 { // descending order too
				sort.Sort(sort.Reverse(sort.IntSlice(los)))
			}
			for _, lo := range los {
				if err = remove(o.H, lo); err != nil {
					break
				}
			}
		case oFillTo:
			for i := 0; count[o.H] < o.N && i < 70000 && err == nil; i++ {
				err = add(o.H, o.Lo+i*o.Stride)
			}
		case oEnum:
			want := make([]uint32, 0, len(model))
			for v := range model {
				want = append(want, v)
			}
			sort.Slice(want, func(i, j int) bool { return want[i] < want[j] })
			// Iter: always complete
			it := bm.Iter()
			n := 0
			for it.Next() {
				if n >= len(want) {
					return fmt.Errorf("step %d: Iter yields more than the %d members (extra %#x)", step, len(want), it.Value())
				}
				if v := it.Value(); v != want[n] {
					return fmt.Errorf("step %d: Iter position %d = %#x want %#x", step, n, v, want[n])
				}
				n++
			}
			if n != len(want) {
				return fmt.Errorf("step %d: Iter enumerated %d of %d members", step, n, len(want))
			}
			if it.Next() {
				return fmt.Errorf("step %d: Iter.Next true after exhaustion", step)
			}
			for name, call := range map[string]func(func(uint32) bool){"Range": bm.Range, "All": func(f func(uint32) bool) { bm.All()(f) }} {
				n, after := 0, false
				var bad error
				call(func(v uint32) bool {
					if after {
						bad = fmt.Errorf("%s called back after returning false", name)
						return false
					}
					if n >= len(want) || v != want[n] {
						bad = fmt.Errorf("%s position %d = %#x, want %v", name, n, v, at(want, n))
						after = true
						return false
					}
					n++
					if o.Stop >= 0 && n-1 == o.Stop {
						after = true
						return false
					}
					return true
				})
				if bad != nil {
					return fmt.Errorf("step %d: %v", step, bad)
				}
				exp := len(want)
				if o.Stop >= 0 && o.Stop < exp {
					exp = o.Stop + 1
				}
				if n != exp {
					return fmt.Errorf("step %d: %s enumerated %d members, want %d of %d", step, name, n, exp, len(want))
				}
			}
			// several enumerations of the unmodified set may be alive at the same time: a second iterator started
			// while the first is under way, both advanced alternately; and an enumeration from inside a Range callback
			{
				a, b := bm.Iter(), bm.Iter()
				lag := 0
				if o.Stop > 0 {
					lag = o.Stop % (len(want) + 1)
				}
				ia, ib := 0, 0
				for ; ia < lag; ia++ {
					if !a.Next() || a.Value() != want[ia] {
						return fmt.Errorf("step %d: first of two live iterators: position %d wrong", step, ia)
					}
				}
				b = bm.Iter()
				for ia < len(want) || ib < len(want) {
					if ia < len(want) {
						if !a.Next() || a.Value() != want[ia] {
							return fmt.Errorf("step %d: two live iterators (second started after %d steps of the first): first iterator at position %d yields %v, want %#x", step, lag, ia, a.Value(), want[ia])
						}
						ia++
					}
					if ib < len(want) {
						if !b.Next() || b.Value() != want[ib] {
							return fmt.Errorf("step %d: two live iterators (second started after %d steps of the first): second iterator at position %d yields %v, want %#x", step, lag, ib, b.Value(), want[ib])
						}
						ib++
					}
				}
				if a.Next() || b.Next() {
					return fmt.Errorf("step %d: two live iterators: Next true after exhaustion", step)
				}
				if len(want) <= 300 {
					outer := 0
					var bad error
					bm.Range(func(v uint32) bool {
						if outer >= len(want) || v != want[outer] {
							bad = fmt.Errorf("Range with an enumeration inside its callback: position %d = %#x, want %v", outer, v, at(want, outer))
							return false
						}
						outer++
						in, k := bm.Iter(), 0
						for in.Next() {
							if k >= len(want) || in.Value() != want[k] {
								bad = fmt.Errorf("Iter inside a Range callback: position %d = %#x, want %v", k, in.Value(), at(want, k))
								return false
							}
							k++
						}
						if k != len(want) {
							bad = fmt.Errorf("Iter inside a Range callback enumerated %d of %d members", k, len(want))
						}
						return bad == nil
					})
					if bad == nil && outer != len(want) {
						bad = fmt.Errorf("Range with an enumeration inside its callback enumerated %d of %d members", outer, len(want))
					}
					if bad != nil {
						return fmt.Errorf("step %d: %v", step, bad)
					}
				}
				r.ClassIf(len(want) > 1, "two enumerations alive at once")
			}
			{
				k := 0
				earlySeq(func(v uint32) bool {
					if k < len(want) && v == want[k] {
						k++
					} else {
						k = -1 << 30
					}
					return true
				})
				if k != len(want) {
					return fmt.Errorf("step %d: an All() sequence obtained while the bitmap was still empty does not enumerate the %d members in order", step, len(want))
				}
			}
			// the sequence value returned by All() is reusable: ranging it again (also after an early break)
			// enumerates the whole set again
			seq := bm.All()
			for round := 0; round < 2; round++ {
				k := 0
				stopAt := -1
				if round == 0 && len(want) > 1 {
					stopAt = len(want) / 2
				}
				seq(func(v uint32) bool {
					if k < len(want) && v == want[k] {
						k++
					} else {
						k = -1 << 30
					}
					return k-1 != stopAt
				})
				exp := len(want)
				if stopAt >= 0 {
					exp = stopAt + 1
				}
				if k != exp {
					return fmt.Errorf("step %d: ranging the same All() sequence (round %d) enumerated %d members in order, want %d of %d", step, round+1, k, exp, len(want))
				}
			}
			nonEmpty, nd := 0, 0
			for h, k := range count {
				if k > 0 {
					nonEmpty++
					if dense[h] {
						nd++
					}
				}
			}
			r.ClassIf(nd > 0, "dense bucket")
			r.ClassIf(nd > 0 && nonEmpty > nd, "sparse+dense mixed")
			r.ClassIf(nonEmpty >= 2, ">= 2 buckets enumerated")
			r.NonTrivialIf(nonEmpty >= 2 && (crossed || readded))
		}
		if err != nil {
			return fmt.Errorf("step %d (op %d): %v", step, o.K, err)
		}
		if err := checkLen(fmt.Sprintf("after step %d", step)); err != nil {
			return err
		}
	}
	return nil
}

func at(s []uint32, i int) any {
	if i < len(s) {
		return fmt.Sprintf("%#x", s[i])
	}
	return "nothing (past the end)"
}

func init() {
	pb.Register("roaring_set", pb.Options{Twins: 3, Base: 500,
		Required: []string{"dense bucket", "sparse+dense mixed", "bucket emptied", "remove from dense", "bucket crossed 4096", ">= 2 buckets enumerated", "two enumerations alive at once", "bucket re-added after being emptied", "dense bucket emptied"},
		Rule:     "zero-value bitmap, 1-5 (thorough 8) bucket keys biased to 0/1/0x7fff/0xffff, <= 40 rules: single Add/Remove/Contains and bulk rules (addRun/removeRun with strides incl. descending, removeBucket, fillTo 4094..4098/5000) expanded into individually checked calls, enumerations by Iter, Range and All (early stop); oracle: map model, Len after every rule, each enumeration equals the full sorted member list; non-trivial = enumeration over >= 2 non-empty buckets after a bucket crossed the 4096 threshold or was emptied and re-added"},
		genRoar, runRoar)
}
