package c03

// Long run on ONE RoaringBitmap: thousands of Add/Remove calls over a few dozen buckets that are created, emptied
// and created again all the time (whatever the bitmap keeps for re-use between the lives of a bucket must not leak
// from one bucket into another), with occasional conversions to dense. Model compared at checkpoints.

import (
	"fmt"
	"sort"

	"github.com/welllog/golib/setz"
	"pgregory.net/rapid"

	"verif/harness/internal/pb"
)

type roarLong struct {
	Seed    uint64
	Steps   int
	Buckets int // high halves 0..Buckets-1
	Lows    int // low halves 0..Lows-1 (small: buckets become empty often)
	Dense   int // every Dense-th step fills one bucket beyond 4096 members and drains it again (0: never)
}

func genRoarLong(t *rapid.T) roarLong {
	return roarLong{Seed: rapid.Uint64().Draw(t, "seed"), Steps: rapid.SampledFrom([]int{3000, 12000}).Draw(t, "steps"), Buckets: rapid.SampledFrom([]int{2, 7, 40}).Draw(t, "buckets"),
		Lows: rapid.SampledFrom([]int{1, 2, 5}).Draw(t, "lows"), Dense: rapid.SampledFrom([]int{0, 0, 2500}).Draw(t, "dense")}
}

func runRoarLong(c roarLong, r *pb.Rec) error {
	if c.Steps < 1 || c.Steps > 100000 || c.Buckets < 1 || c.Buckets > 1000 || c.Lows < 1 || c.Lows > 100 || c.Dense < 0 {
		return nil
	}
	st := c.Seed | 1
	rnd := func(n int) int {
		st ^= st << 13
		st ^= st >> 7
		st ^= st << 17
		return int(st % uint64(n))
	}
	var bm setz.RoaringBitmap
	model := map[uint32]bool{}
	perBucket := map[uint32]int{}
	emptied := 0
	add := func(x uint32, where string) error {
		had := model[x]
		if got := bm.Add(x); got != !had {
			return fmt.Errorf("%s: Add(%#x) = %v, member before = %v", where, x, got, had)
		}
		if !had {
			model[x] = true
			perBucket[x>>16]++
		}
		return nil
	}
	remove := func(x uint32, where string) error {
		had := model[x]
		if got := bm.Remove(x); got != had {
			return fmt.Errorf("%s: Remove(%#x) = %v, member before = %v", where, x, got, had)
		}
		if had {
			delete(model, x)
			if perBucket[x>>16]--; perBucket[x>>16] == 0 {
				emptied++
			}
		}
		return nil
	}
	for step := 0; step < c.Steps; step++ {
		where := fmt.Sprintf("roaring long run (seed %d, %d buckets x %d low values), step %d", c.Seed, c.Buckets, c.Lows, step)
		if c.Dense > 0 && step%c.Dense == c.Dense-1 {
			h := uint32(rnd(c.Buckets)) << 16
			for i := uint32(100); i < 100+4200; i++ {
				if err := add(h|i, where); err != nil {
					return err
				}
			}
			for i := uint32(100); i < 100+4200; i++ {
				if err := remove(h|i, where); err != nil {
					return err
				}
			}
		}
		x := uint32(rnd(c.Buckets))<<16 | uint32(rnd(c.Lows))*7
		var err error
		if rnd(2) == 0 {
			err = add(x, where)
		} else {
			err = remove(x, where)
		}
		if err != nil {
			return err
		}
		if bm.Len() != len(model) {
			return fmt.Errorf("%s: Len = %d, model %d", where, bm.Len(), len(model))
		}
		q := uint32(rnd(c.Buckets))<<16 | uint32(rnd(c.Lows))*7
		if bm.Contains(q) != model[q] {
			return fmt.Errorf("%s: Contains(%#x) = %v, model %v", where, q, bm.Contains(q), model[q])
		}
		if step%512 == 511 || step == c.Steps-1 {
			want := make([]uint32, 0, len(model))
			for v := range model {
				want = append(want, v)
			}
			sort.Slice(want, func(i, j int) bool { return want[i] < want[j] })
			it := bm.Iter()
			i := 0
			for it.Next() {
				if i >= len(want) || it.Value() != want[i] {
					return fmt.Errorf("%s: Iter position %d = %#x, want %v of %d members", where, i, it.Value(), at(want, i), len(want))
				}
				i++
			}
			if i != len(want) {
				return fmt.Errorf("%s: Iter enumerated %d of %d members", where, i, len(want))
			}
			j := 0
			bm.Range(func(v uint32) bool {
				if j < len(want) && v == want[j] {
					j++
					return true
				}
				j = -1 << 30
				return false
			})
			if j != len(want) {
				return fmt.Errorf("%s: Range does not enumerate the %d members in order", where, len(want))
			}
		}
	}
	r.ClassIf(emptied >= 600, "buckets became empty at least 600 times on one bitmap")
	r.NonTrivialIf(emptied >= 600)
	return nil
}

func init() {
	pb.Register("roaring_long_run", pb.Options{Base: 6, Required: []string{"buckets became empty at least 600 times on one bitmap"},
		Rule: "3000 or 12000 PRNG-driven Add/Remove calls on one bitmap over 2..40 buckets with 1..5 possible low halves each (buckets are created and emptied all the time), optionally a fill beyond 4096 and drain of one bucket every 2500 steps; oracle: Add/Remove results, Len and a random Contains after every call, Iter and Range every 512 steps; non-trivial = buckets became empty at least 600 times"},
		genRoarLong, runRoarLong)
}
