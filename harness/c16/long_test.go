package c16

// Long runs on ONE object: tens of thousands of cheap operations driven by a small PRNG, the model compared at
// checkpoints and at the end. State that degrades a little per operation (a cached length that drifts, capacity
// that creeps, garbage in re-used words) only shows here, not in the short per-case histories.

import (
	"fmt"

	"github.com/welllog/golib/dsz"
	"github.com/welllog/golib/setz"
	"pgregory.net/rapid"

	"verif/harness/internal/pb"
)

type longCase struct {
	Kind  int // 0 setz.Bits, 1 setz.Bitmap, 2 dsz.Bits
	Seed  uint64
	Steps int
	Span  uint // values 0..Span-1
	Bulk  int  // every Bulk-th step is a Diff/Intersect/Merge/Clone/Grow against a second long-lived set
	Hot   bool // half of the operations hit the two largest values (the highest word becomes empty and non-empty all the time)
}

func genLong(t *rapid.T) longCase {
	return longCase{Kind: rapid.IntRange(0, 2).Draw(t, "kind"), Seed: rapid.Uint64().Draw(t, "seed"), Steps: rapid.SampledFrom([]int{2000, 20000, 20000}).Draw(t, "steps"),
		Span: rapid.SampledFrom([]uint{64, 130, 1000, 5000}).Draw(t, "span"), Bulk: rapid.SampledFrom([]int{0, 7, 101, 1000}).Draw(t, "bulk"), Hot: rapid.Bool().Draw(t, "hot")}
}

func runLong(c longCase, r *pb.Rec) error {
	if c.Steps < 1 || c.Steps > 200000 || c.Span < 1 || c.Span > 100000 || c.Bulk < 0 {
		return nil
	}
	var a, b pair
	switch c.Kind {
	case 0:
		a, b = pair{newBits(&setz.Bits{}), map[uint]struct{}{}}, pair{newBits(&setz.Bits{}), map[uint]struct{}{}}
	case 1:
		a, b = pair{newBitmap(&setz.Bitmap{}), map[uint]struct{}{}}, pair{newBitmap(&setz.Bitmap{}), map[uint]struct{}{}}
	case 2:
		a, b = pair{newDsz(&dsz.Bits{}), map[uint]struct{}{}}, pair{newDsz(&dsz.Bits{}), map[uint]struct{}{}}
	default:
		return nil
	}
	st := c.Seed | 1
	rnd := func(n uint) uint {
		st ^= st << 13
		st ^= st >> 7
		st ^= st << 17
		return uint(st % uint64(n))
	}
	for step := 0; step < c.Steps; step++ {
		p := &a
		if rnd(4) == 0 {
			p = &b
		}
		x := rnd(c.Span)
		if c.Hot && rnd(2) == 0 {
			x = c.Span - 1 - rnd(2)%c.Span
		}
		_, had := p.m[x]
		where := fmt.Sprintf("long run (kind %d, seed %d, span %d), step %d", c.Kind, c.Seed, c.Span, step)
		switch {
		case c.Bulk > 0 && step%c.Bulk == c.Bulk-1 && a.s.Diff != nil:
			switch rnd(4) {
			case 0:
				a.s.Diff(b.s)
				for k := range b.m {
					delete(a.m, k)
				}
			case 1:
				a.s.Inter(b.s)
				for k := range a.m {
					if _, ok := b.m[k]; !ok {
						delete(a.m, k)
					}
				}
			case 2:
				a.s.Merge(b.s)
				for k := range b.m {
					a.m[k] = struct{}{}
				}
			default:
				a.s.Grow(rnd(c.Span * 2))
			}
			if a.s.Len() != len(a.m) || b.s.Len() != len(b.m) {
				return fmt.Errorf("%s: after a bulk operation Len = %d/%d, models %d/%d", where, a.s.Len(), b.s.Len(), len(a.m), len(b.m))
			}
		case rnd(2) == 0:
			if ch, rep := p.s.Add(x); rep && ch != !had {
				return fmt.Errorf("%s: Add(%d) = %v, member before = %v", where, x, ch, had)
			}
			p.m[x] = struct{}{}
		default:
			if ch, rep := p.s.Remove(x); rep && ch != had {
				return fmt.Errorf("%s: Remove(%d) = %v, member before = %v", where, x, ch, had)
			}
			delete(p.m, x)
		}
		if p.s.Len() != len(p.m) {
			return fmt.Errorf("%s: Len = %d, model %d", where, p.s.Len(), len(p.m))
		}
		if step%4096 == 4095 || step == c.Steps-1 {
			if err := checkAll(a, where); err != nil {
				return err
			}
			if err := checkAll(b, where+" (second set)"); err != nil {
				return err
			}
		}
	}
	r.ClassIf(c.Steps >= 20000, ">= 20000 operations on one object")
	r.ClassIf(c.Steps >= 20000 && c.Hot && c.Span > 64, "highest word emptied and refilled thousands of times")
	r.NonTrivialIf(c.Steps >= 20000)
	return nil
}

func init() {
	pb.Register("bits_long_run", pb.Options{Base: 6, Required: []string{">= 20000 operations on one object", "highest word emptied and refilled thousands of times"},
		Rule: "2000 or 20000 PRNG-driven Add/Remove calls on two long-lived sets (values below 64..5000), optionally half of the operations on the two largest values, optionally a Diff/Intersect/Merge/Grow every 7th/101st/1000th step; oracle: Add/Remove results and Len after every call, full enumeration every 4096 steps and at the end; non-trivial = at least 20000 operations"},
		genLong, runLong)
}
