// C16 — Bits and Bitmap behave as sets of unsigned integers, incl. bulk operations.
package c16

import (
	"fmt"
	"os"
	"sort"
	"strconv"
	"testing"

	"github.com/welllog/golib/dsz"
	"github.com/welllog/golib/setz"
	"pgregory.net/rapid"

	"verif/harness/internal/pb"
)

func TestMain(m *testing.M)   { pb.Main(m) }
func TestProps(t *testing.T)  { pb.RunProps(t) }
func TestReplay(t *testing.T) { pb.RunReplay(t) }

// one uniform API; nil entries = the type does not offer the method
type set struct {
	Add, Remove        func(uint) (changed bool, reports bool)
	Contains           func(uint) bool
	Len, Cap           func() int
	Grow               func(uint)
	Iter               func() func() (uint, bool)
	RawIter            func() func() (uint, bool) // without the shadow iterator (for enumerations whose body modifies the set)
	Range, All         func(func(uint) bool)
	Diff, Inter, Merge func(o *set)
	Clone              func() *set
	bits               *setz.Bits
	bitmap             *setz.Bitmap
}

func newBits(b *setz.Bits) *set {
	s := &set{bits: b}
	s.Add = func(x uint) (bool, bool) { return b.Add(x), true }
	s.Remove = func(x uint) (bool, bool) { return b.Remove(x), true }
	s.Contains, s.Len, s.Cap, s.Grow, s.Range = b.Contains, b.Len, b.Cap, b.Grow, b.Range
	early := b.All() // obtained when the wrapper is made (for the sets of a case: while still empty), ranged much later
	s.All = func(f func(uint) bool) {
		seq := b.All()
		n := 0
		seq(func(uint) bool { n++; return n < 2 }) // a first, interrupted pass over the same sequence value
		if b.Cap() > 1<<22 {                       // sets with members around 2^31: every pass scans 2^25 words
			early(f)
			return
		}
		var a, e []uint
		seq(func(v uint) bool { a = append(a, v); return true })
		early(func(v uint) bool { e = append(e, v); return true })
		if fmt.Sprint(a) != fmt.Sprint(e) && nestedErr == nil {
			nestedErr = fmt.Errorf("an All() sequence obtained earlier (on the empty set) yields %v, a fresh one %v", e, a)
		}
		seq(f)
	}
	s.Iter = func() func() (uint, bool) {
		it := b.Iter()
		var shadow, empty = b.Iter(), b.Iter() // more iterators over the unmodified set, alive at the same time
		var seen []uint
		k := 0
		return func() (uint, bool) {
			if it.Next() {
				v := it.Value()
				seen = append(seen, v)
				if k++; k >= 2 {
					// the shadow iterator runs one element behind
					if !shadow.Next() || shadow.Value() != seen[k-2] {
						if nestedErr == nil {
							nestedErr = fmt.Errorf("two iterators alive at once: the second one, one element behind, yields %d instead of %d (first iterator so far: %v)", shadow.Value(), seen[k-2], seen)
						}
					}
				}
				return v, true
			}
			_ = empty
			return 0, false
		}
	}
	s.Diff = func(o *set) { b.Diff(*o.bits) }
	s.Inter = func(o *set) { b.Intersect(*o.bits) }
	s.Merge = func(o *set) { b.Merge(*o.bits) }
	s.Clone = func() *set { c := b.Clone(); return newBitmap(&c) } // Bits.Clone is Bitmap.Clone
	s.RawIter = func() func() (uint, bool) {
		it := b.Iter()
		return func() (uint, bool) {
			if it.Next() {
				return it.Value(), true
			}
			return 0, false
		}
	}
	return s
}

func newBitmap(b *setz.Bitmap) *set {
	s := &set{bitmap: b}
	s.Add = func(x uint) (bool, bool) { return b.Add(x), true }
	s.Remove = func(x uint) (bool, bool) { return b.Remove(x), true }
	s.Contains, s.Len, s.Cap, s.Grow, s.Range = b.Contains, b.Len, b.Cap, b.Grow, b.Range
	s.Iter = func() func() (uint, bool) {
		it := b.Iter()
		var shadow, empty = b.Iter(), b.Iter() // more iterators over the unmodified set, alive at the same time
		var seen []uint
		k := 0
		return func() (uint, bool) {
			if it.Next() {
				v := it.Value()
				seen = append(seen, v)
				if k++; k >= 2 {
					// the shadow iterator runs one element behind
					if !shadow.Next() || shadow.Value() != seen[k-2] {
						if nestedErr == nil {
							nestedErr = fmt.Errorf("two iterators alive at once: the second one, one element behind, yields %d instead of %d (first iterator so far: %v)", shadow.Value(), seen[k-2], seen)
						}
					}
				}
				return v, true
			}
			_ = empty
			return 0, false
		}
	}
	s.Diff = func(o *set) { b.Diff(*o.bitmap) }
	s.Inter = func(o *set) { b.Intersect(*o.bitmap) }
	s.Merge = func(o *set) { b.Merge(*o.bitmap) }
	s.Clone = func() *set { c := b.Clone(); return newBitmap(&c) }
	s.RawIter = func() func() (uint, bool) {
		it := b.Iter()
		return func() (uint, bool) {
			if it.Next() {
				return it.Value(), true
			}
			return 0, false
		}
	}
	return s
}

func newDsz(b *dsz.Bits) *set {
	s := &set{}
	s.Add = func(x uint) (bool, bool) { b.Add(x); return false, false }
	s.Remove = func(x uint) (bool, bool) { b.Remove(x); return false, false }
	s.Contains, s.Len, s.Cap, s.Grow = b.Contains, b.Len, b.Cap, b.Grow
	s.Iter = func() func() (uint, bool) {
		it := b.Iter()
		var shadow, empty = b.Iter(), b.Iter() // more iterators over the unmodified set, alive at the same time
		var seen []uint
		k := 0
		return func() (uint, bool) {
			if it.Next() {
				v := it.Value()
				seen = append(seen, v)
				if k++; k >= 2 {
					// the shadow iterator runs one element behind
					if !shadow.Next() || shadow.Value() != seen[k-2] {
						if nestedErr == nil {
							nestedErr = fmt.Errorf("two iterators alive at once: the second one, one element behind, yields %d instead of %d (first iterator so far: %v)", shadow.Value(), seen[k-2], seen)
						}
					}
				}
				return v, true
			}
			_ = empty
			return 0, false
		}
	}
	s.RawIter = func() func() (uint, bool) {
		it := b.Iter()
		return func() (uint, bool) {
			if it.Next() {
				return it.Value(), true
			}
			return 0, false
		}
	}
	return s
}

// ---------------------------------------------------------------- members at the 32-bit width and sign boundaries

type hugeCase struct {
	Kind  int // 0 setz.Bits, 1 setz.Bitmap, 2 dsz.Bits
	Base  uint
	Extra []uint // further members below 4096
}

func genHuge(t *rapid.T) hugeCase {
	bases := []uint{1<<31 - 1, 1 << 31, 1<<31 + 5, 1<<31 + 64}
	if pb.Thorough() {
		for _, b := range []uint64{1<<32 - 1, 1 << 32, 1<<32 + 1, 1<<32 + 130} {
			if uint64(uint(b)) == b { // members beyond 2^32 exist only where uint has 64 bits
				bases = append(bases, uint(b))
			}
		}
	}
	return hugeCase{Kind: rapid.IntRange(0, 2).Draw(t, "kind"), Base: rapid.SampledFrom(bases).Draw(t, "base"),
		Extra: rapid.SliceOfN(rapid.UintRange(0, 4095), 0, 4).Draw(t, "extra")}
}

func runHuge(c hugeCase, r *pb.Rec) error {
	if uint64(c.Base) > 1<<32+1000 || len(c.Extra) > 16 {
		return nil
	}
	if sh, _ := strconv.Atoi(os.Getenv("VERIF_SHARD")); sh%4 != 0 && os.Getenv("VERIF_REPLAY") == "" {
		return nil // every case allocates and scans 2^25 words: only every fourth shard runs them
	}
	var p pair
	switch c.Kind {
	case 0:
		p = pair{newBits(&setz.Bits{}), map[uint]struct{}{}}
	case 1:
		p = pair{newBitmap(&setz.Bitmap{}), map[uint]struct{}{}}
	case 2:
		p = pair{newDsz(&dsz.Bits{}), map[uint]struct{}{}}
	default:
		return nil
	}
	for _, x := range append(append([]uint(nil), c.Extra...), c.Base, c.Base+1, c.Base|63) {
		if uint64(x) > 1<<33 {
			return nil
		}
		_, had := p.m[x]
		if ch, rep := p.s.Add(x); rep && ch != !had {
			return fmt.Errorf("Add(%d) = %v, member before = %v", x, ch, had)
		}
		p.m[x] = struct{}{}
		if !p.s.Contains(x) {
			return fmt.Errorf("Contains(%d) false after Add", x)
		}
	}
	if err := checkAll(p, fmt.Sprintf("set with members around %d", c.Base)); err != nil {
		return err
	}
	want := sorted(p.m)
	if p.s.Range != nil {
		if err := enumCheck("Range", want, -1, p.s.Range); err != nil {
			return err
		}
	}
	if p.s.All != nil {
		if err := enumCheck("All", want, -1, p.s.All); err != nil {
			return err
		}
	}
	if ch, rep := p.s.Remove(c.Base); rep && !ch {
		return fmt.Errorf("Remove(%d) = false for a member", c.Base)
	}
	delete(p.m, c.Base)
	if p.s.Contains(c.Base) || !p.s.Contains(c.Base+1) || p.s.Len() != len(p.m) {
		return fmt.Errorf("after Remove(%d): Contains(%d)=%v Contains(%d)=%v Len=%d want false,true,%d", c.Base, c.Base, p.s.Contains(c.Base), c.Base+1, p.s.Contains(c.Base+1), p.s.Len(), len(p.m))
	}
	r.ClassIf(c.Base >= 1<<31, "member >= 2^31")
	r.NonTrivial()
	return nil
}

type bop struct {
	K    int
	Who  int // 0 receiver, 1 other
	X    uint
	Stop int
	N    int // run length of bAddRun/bRemoveRun
}

const (
	bAdd = iota
	bRemove
	bContains
	bGrow
	bIter
	bRange
	bAll
	bClone
	bDiff
	bInter
	bMerge
	bAddRun     // Add X, X+1, ..., X+N-1 (each call checked): whole words become all ones
	bRemoveRun  // Remove X ... X+N-1
	bEnumRemove // enumerate with Range / All / Iter while removing members that have just been visited
	nB
)

type bitsCase struct {
	Kind int // 0 setz.Bits, 1 setz.Bitmap, 2 dsz.Bits
	Ops  []bop
}

func genBits(t *rapid.T) bitsCase {
	c := bitsCase{Kind: rapid.IntRange(0, 2).Draw(t, "kind")}
	x := rapid.OneOf(
		rapid.SampledFrom([]uint{0, 1, 62, 63, 64, 65, 126, 127, 128, 129, 191, 192, 193, 255, 256}),
		rapid.UintRange(0, 400), rapid.UintRange(0, 400), rapid.UintRange(0, 400), rapid.UintRange(0, 200), rapid.UintRange(0, 1500), rapid.UintRange(0, 1<<16).Filter(func(x uint) bool { return x%8 == 0 }))
	kinds := []int{bAdd, bAdd, bAdd, bAdd, bRemove, bRemove, bContains, bGrow, bIter, bRange, bAll, bClone, bDiff, bInter, bMerge, bDiff, bInter, bMerge, bAddRun, bAddRun, bRemoveRun, bEnumRemove}
	n := rapid.IntRange(1, 60).Draw(t, "nops")
	for i := 0; i < n; i++ {
		c.Ops = append(c.Ops, bop{K: rapid.SampledFrom(kinds).Draw(t, "op"), Who: rapid.SampledFrom([]int{0, 0, 1}).Draw(t, "who"), X: x.Draw(t, "x"),
			Stop: rapid.IntRange(-1, 4).Draw(t, "stop")})
		if k := c.Ops[i].K; k == bAddRun || k == bRemoveRun {
			c.Ops[i].N = rapid.OneOf(rapid.SampledFrom([]int{1, 63, 64, 65, 127, 128, 129, 192}), rapid.IntRange(1, 200)).Draw(t, "run")
			if rapid.Bool().Draw(t, "aligned") {
				c.Ops[i].X &^= 63
			}
		}
	}
	return c
}

type pair struct {
	s *set
	m map[uint]struct{}
}

func sorted(m map[uint]struct{}) []uint {
	s := make([]uint, 0, len(m))
	for k := range m {
		s = append(s, k)
	}
	sort.Slice(s, func(i, j int) bool { return s[i] < s[j] })
	return s
}

func enumCheck(name string, want []uint, stop int, call func(func(uint) bool)) error {
	n, after := 0, false
	var bad error
	call(func(v uint) bool {
		if after {
			bad = fmt.Errorf("%s called back after returning false", name)
			return false
		}
		if n >= len(want) || v != want[n] {
			bad = fmt.Errorf("%s position %d = %d, want %v", name, n, v, want)
			after = true
			return false
		}
		n++
		if stop >= 0 && n-1 == stop {
			after = true
			return false
		}
		return true
	})
	if bad != nil {
		return bad
	}
	exp := len(want)
	if stop >= 0 && stop < exp {
		exp = stop + 1
	}
	if n != exp {
		return fmt.Errorf("%s enumerated %d members, want %d of %v", name, n, exp, want)
	}
	return nil
}

func checkAll(p pair, label string) error {
	want := sorted(p.m)
	if p.s.Len() != len(want) {
		return fmt.Errorf("%s: Len = %d, model %d %v", label, p.s.Len(), len(want), want)
	}
	next := p.s.Iter()
	for i := 0; ; i++ {
		v, ok := next()
		if !ok {
			if i != len(want) {
				return fmt.Errorf("%s: Iter enumerated %d of %d members %v", label, i, len(want), want)
			}
			break
		}
		if i >= len(want) || v != want[i] {
			return fmt.Errorf("%s: Iter position %d = %d, want %v", label, i, v, want)
		}
	}
	if len(want) > 0 && p.s.Cap() < int(want[len(want)-1])+1 {
		return fmt.Errorf("%s: Cap %d < max member %d + 1", label, p.s.Cap(), want[len(want)-1])
	}
	return nil
}

// nestedErr is set by the iterator wrappers when a second iterator over the unmodified set disagrees with the first.
var nestedErr error

func runBits(c bitsCase, r *pb.Rec) error {
	nestedErr = nil
	err := runBits0(c, r)
	if nestedErr != nil {
		return nestedErr
	}
	return err
}

func runBits0(c bitsCase, r *pb.Rec) error {
	var recv, other pair
	switch c.Kind {
	case 0:
		recv, other = pair{newBits(&setz.Bits{}), map[uint]struct{}{}}, pair{newBits(&setz.Bits{}), map[uint]struct{}{}}
	case 1:
		recv, other = pair{newBitmap(&setz.Bitmap{}), map[uint]struct{}{}}, pair{newBitmap(&setz.Bitmap{}), map[uint]struct{}{}}
	case 2:
		recv, other = pair{newDsz(&dsz.Bits{}), map[uint]struct{}{}}, pair{newDsz(&dsz.Bits{}), map[uint]struct{}{}}
	default:
		return nil
	}
	bulkShorter, afterBulk := false, 0
	for step, o := range c.Ops {
		p := &recv
		if o.Who == 1 {
			p = &other
		}
		if o.X > 1<<17 {
			return nil // the structure allocates value/64 words: keep values bounded
		}
		_, had := p.m[o.X]
		fail := func(f string, a ...any) error {
			return fmt.Errorf("step %d op %d x=%d: %s", step, o.K, o.X, fmt.Sprintf(f, a...))
		}
		switch o.K {
		case bAdd:
			if ch, rep := p.s.Add(o.X); rep && ch != !had {
				return fail("Add = %v, member before = %v", ch, had)
			}
			p.m[o.X] = struct{}{}
			if afterBulk > 0 && o.Who == 0 {
				afterBulk = 2
			}
		case bRemove:
			if ch, rep := p.s.Remove(o.X); rep && ch != had {
				return fail("Remove = %v, member before = %v", ch, had)
			}
			delete(p.m, o.X)
			if afterBulk > 0 && o.Who == 0 {
				afterBulk = 2
			}
		case bAddRun, bRemoveRun:
			if o.N < 0 || o.N > 256 {
				return nil
			}
			for x := o.X; x < o.X+uint(o.N); x++ {
				_, had := p.m[x]
				if o.K == bAddRun {
					if ch, rep := p.s.Add(x); rep && ch != !had {
						return fail("run: Add(%d) = %v, member before = %v", x, ch, had)
					}
					p.m[x] = struct{}{}
				} else {
					if ch, rep := p.s.Remove(x); rep && ch != had {
						return fail("run: Remove(%d) = %v, member before = %v", x, ch, had)
					}
					delete(p.m, x)
				}
			}
			full := false
			for w := o.X/64 + 1; (w+1)*64 <= o.X+uint(o.N); w++ {
				full = true
			}
			r.ClassIf(full || (o.X%64 == 0 && o.N >= 64), "a whole 64-bit word filled or cleared by a run")
			if afterBulk > 0 && o.Who == 0 {
				afterBulk = 2
			}
		case bEnumRemove:
			// removing only members that the enumeration has already delivered must not change what else it delivers:
			// every member present at the start is visited exactly once, in ascending order (true for an
			// implementation that reads the set live and for one that works on a snapshot)
			want := sorted(p.m)
			var visited []uint
			body := func(x uint) bool {
				visited = append(visited, x)
				if (x+o.X)%3 != 0 {
					p.s.Remove(x)
					delete(p.m, x)
				}
				return true
			}
			form := "Iter"
			switch {
			case o.Stop%3 == 0 && p.s.Range != nil:
				form = "Range"
				p.s.Range(body)
			case o.Stop%3 == 1 && p.s.bits != nil:
				form = "All"
				p.s.bits.All()(body)
			default:
				next := p.s.RawIter()
				for x, ok := next(); ok; x, ok = next() {
					body(x)
				}
			}
			if fmt.Sprint(visited) != fmt.Sprint(want) {
				return fail("%s while the callback removes members it has just been given: visited %v, the set held %v", form, visited, want)
			}
			r.ClassIf(len(want) > 2 && want[len(want)-1]/64 != want[0]/64, "members removed during an enumeration across words")
		case bContains:
			if got := p.s.Contains(o.X); got != had {
				return fail("Contains = %v want %v", got, had)
			}
		case bGrow:
			p.s.Grow(o.X)
			if p.s.Cap() < int(o.X)+1 {
				return fail("Cap %d after Grow(%d)", p.s.Cap(), o.X)
			}
		case bIter:
			// covered by checkAll below
			want := sorted(p.m)
			for i := 1; i < len(want); i++ {
				if want[i]/64 != want[i-1]/64 {
					r.Class("iterator across word boundary")
				}
			}
		case bRange:
			if p.s.Range != nil {
				if err := enumCheck("Range", sorted(p.m), o.Stop, p.s.Range); err != nil {
					return fail("%v", err)
				}
			}
		case bAll:
			if p.s.All != nil {
				if err := enumCheck("All", sorted(p.m), o.Stop, p.s.All); err != nil {
					return fail("%v", err)
				}
			}
		case bClone:
			if p.s.Clone != nil {
				cl := pair{p.s.Clone(), map[uint]struct{}{}}
				for k := range p.m {
					cl.m[k] = struct{}{}
				}
				if err := checkAll(cl, "clone"); err != nil {
					return fail("%v", err)
				}
				// mutate the clone: the source must not change, and vice versa
				cl.s.Add(o.X ^ 1)
				cl.s.Remove(o.X)
				for _, k := range sorted(p.m) {
					cl.s.Remove(k)
					break
				}
				if err := checkAll(*p, "source after mutating its clone"); err != nil {
					return fail("%v", err)
				}
				r.Class("clone mutated")
			}
		case bDiff, bInter, bMerge:
			if recv.s.Diff == nil {
				continue
			}
			shorter := recv.s.Cap() < other.s.Cap()
			r.ClassIf(shorter, "receiver shorter")
			r.ClassIf(recv.s.Cap() > other.s.Cap(), "receiver longer")
			switch o.K {
			case bDiff:
				recv.s.Diff(other.s)
				for k := range other.m {
					delete(recv.m, k)
				}
			case bInter:
				recv.s.Inter(other.s)
				for k := range recv.m {
					if _, ok := other.m[k]; !ok {
						delete(recv.m, k)
					}
				}
			case bMerge:
				recv.s.Merge(other.s)
				for k := range other.m {
					recv.m[k] = struct{}{}
				}
			}
			if err := checkAll(other, "other operand after bulk op"); err != nil {
				return fail("%v", err)
			}
			if shorter || recv.s.Cap() != other.s.Cap() {
				bulkShorter = bulkShorter || shorter
			}
			afterBulk = 1
		}
		if err := checkAll(*p, "after step"); err != nil {
			return fail("%v", err)
		}
		if err := checkAll(recv, "receiver after step"); err != nil {
			return fail("%v", err)
		}
	}
	r.NonTrivialIf(bulkShorter && afterBulk == 2)
	r.ClassIf(afterBulk == 2, "element op after bulk op")
	return nil
}

func init() {
	pb.Register("bits_huge", pb.Options{Base: 1, Required: []string{"member >= 2^31"},
		Rule: "a few members around 2^31 (thorough tier also around 2^32: 256-512 MiB of words per set) plus up to 4 small ones in setz.Bits, setz.Bitmap and dsz.Bits; oracle: Add/Contains/Remove results, Len, Iter, Range and All equal to the sorted member list; every case is non-trivial (few cases: each one allocates and scans 2^25 words)"},
		genHuge, runHuge)
	pb.Register("bits_sets", pb.Options{Base: 12000, Required: []string{"receiver shorter", "receiver longer", "iterator across word boundary", "clone mutated", "element op after bulk op", "a whole 64-bit word filled or cleared by a run", "members removed during an enumeration across words"},
		Rule: "<= 60 operations on a (receiver, other) pair of setz.Bits / setz.Bitmap / dsz.Bits: Add/Remove/Contains/Grow/Iter/Range/All (early stop)/Clone (then mutate clone)/Diff/Intersect/Merge, values biased to word boundaries, uniform 0..400 and a few up to 2^16; oracle: map model per set, Len + complete ascending Iter + Cap >= max+1 after every step, other operand unchanged by bulk ops, clone independence; non-trivial = bulk op with the receiver the shorter operand followed by an element operation"},
		genBits, runBits)
}
