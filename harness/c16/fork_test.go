package c16

// Set values copied by value. Bits and Bitmap are structs around a slice and Diff / Intersect / Merge take their
// argument by value, so programs hold copies that share the backing array with the original:
//
//	fork := base          // same words
//	fork.Add(higher)      // may grow into the spare capacity behind base's words
//	base.Merge(fork)      // the argument's extra words live in the receiver's own spare capacity
//
// The oracle is the map model: the receiver becomes the union / difference / intersection, the argument keeps
// its members and its Len.

import (
	"fmt"

	"github.com/welllog/golib/setz"
	"pgregory.net/rapid"

	"verif/harness/internal/pb"
)

type forkCase struct {
	Kind  int    // 0 Bits, 1 Bitmap
	Words int    // the base set is grown one word at a time to this many words
	Low   []uint // further members of the base below 64*Words
	High  []uint // members added to the fork only, at or above 64*Words (offsets)
	Op    int    // 0 Merge, 1 Diff, 2 Intersect
	Both  []uint // members added to base after the fork was taken (within its words; the fork shares them)
}

func genFork(t *rapid.T) forkCase {
	w := rapid.IntRange(1, 40).Draw(t, "words")
	return forkCase{Kind: rapid.IntRange(0, 1).Draw(t, "kind"), Words: w,
		Low:  rapid.SliceOfN(rapid.UintRange(0, uint(64*w-1)), 0, 6).Draw(t, "low"),
		High: rapid.SliceOfN(rapid.UintRange(0, 200), 1, 3).Draw(t, "high"),
		Op:   rapid.SampledFrom([]int{0, 0, 1, 2}).Draw(t, "op")}
}

func runFork(c forkCase, r *pb.Rec) error {
	if c.Words < 1 || c.Words > 64 || len(c.Low) > 16 || len(c.High) > 8 || len(c.High) == 0 {
		return nil
	}
	baseM, forkM := map[uint]struct{}{}, map[uint]struct{}{}
	var members func(contains func(uint) bool, upto uint) []uint = func(contains func(uint) bool, upto uint) []uint {
		var out []uint
		for x := uint(0); x < upto; x++ {
			if contains(x) {
				out = append(out, x)
			}
		}
		return out
	}
	top := uint(64*c.Words + 64*5)
	var baseAdd, forkAdd func(uint)
	var apply func()
	var baseHas, forkHas func(uint) bool
	var baseLen, forkLen func() int
	switch c.Kind {
	case 0:
		var base setz.Bits
		for i := 0; i < c.Words; i++ {
			base.Add(uint(64 * i)) // one word at a time: append leaves spare capacity behind the words
			baseM[uint(64*i)] = struct{}{}
		}
		for _, x := range c.Low {
			if x < uint(64*c.Words) {
				base.Add(x)
				baseM[x] = struct{}{}
			}
		}
		fork := base // by value: same backing array
		baseAdd, forkAdd = func(x uint) { base.Add(x) }, func(x uint) { fork.Add(x) }
		baseHas, forkHas, baseLen, forkLen = base.Contains, fork.Contains, base.Len, fork.Len
		apply = func() {
			switch c.Op {
			case 0:
				base.Merge(fork)
			case 1:
				base.Diff(fork)
			case 2:
				base.Intersect(fork)
			}
		}
	case 1:
		var base setz.Bitmap
		for i := 0; i < c.Words; i++ {
			base.Add(uint(64 * i))
			baseM[uint(64*i)] = struct{}{}
		}
		for _, x := range c.Low {
			if x < uint(64*c.Words) {
				base.Add(x)
				baseM[x] = struct{}{}
			}
		}
		fork := base
		baseAdd, forkAdd = func(x uint) { base.Add(x) }, func(x uint) { fork.Add(x) }
		baseHas, forkHas, baseLen, forkLen = base.Contains, fork.Contains, base.Len, fork.Len
		apply = func() {
			switch c.Op {
			case 0:
				base.Merge(fork)
			case 1:
				base.Diff(fork)
			case 2:
				base.Intersect(fork)
			}
		}
	default:
		return nil
	}
	_ = baseAdd
	for k := range baseM {
		forkM[k] = struct{}{}
	}
	for _, off := range c.High {
		if off > 250 {
			return nil
		}
		x := uint(64*c.Words) + off
		forkAdd(x)
		forkM[x] = struct{}{}
	}
	where := fmt.Sprintf("base of %d words %v, fork := base (by value), fork.Add(%v), base.%s(fork)", c.Words, sorted(baseM), c.High, []string{"Merge", "Diff", "Intersect"}[c.Op])
	if got := members(baseHas, top); fmt.Sprint(got) != fmt.Sprint(sorted(baseM)) {
		return fmt.Errorf("%s: before the operation the base already holds %v (adding to the copy beyond the base's words changed the base)", where, got)
	}
	apply()
	want := map[uint]struct{}{}
	switch c.Op {
	case 0:
		for k := range baseM {
			want[k] = struct{}{}
		}
		for k := range forkM {
			want[k] = struct{}{}
		}
	case 1:
		for k := range baseM {
			if _, in := forkM[k]; !in {
				want[k] = struct{}{}
			}
		}
	case 2:
		for k := range baseM {
			if _, in := forkM[k]; in {
				want[k] = struct{}{}
			}
		}
	}
	if got := members(baseHas, top); fmt.Sprint(got) != fmt.Sprint(sorted(want)) || baseLen() != len(want) {
		return fmt.Errorf("%s: the receiver holds %v (Len %d), want %v", where, got, baseLen(), sorted(want))
	}
	if c.Op == 0 {
		// Merge only adds members the argument already has: the argument (which shares words with the receiver) keeps its content
		if got := members(forkHas, top); fmt.Sprint(got) != fmt.Sprint(sorted(forkM)) || forkLen() != len(forkM) {
			return fmt.Errorf("%s: afterwards the argument holds %v (Len %d), it held %v", where, got, forkLen(), sorted(forkM))
		}
	}
	r.ClassIf(c.Op == 0, "Merge with a grown by-value copy of the receiver")
	r.NonTrivialIf(c.Words >= 3)
	return nil
}

func init() {
	pb.Register("bits_forked_copy", pb.Options{Base: 3000, Required: []string{"Merge with a grown by-value copy of the receiver"},
		Rule: "Bits and Bitmap: a base set grown one word at a time to 1..40 words, copied by value (the copy shares the backing array), 1..3 members added to the copy above the base's words, then base.Merge / Diff / Intersect(copy); oracle: map model for the receiver (members and Len), the Merge argument keeps members and Len, adding to the copy does not change the base; non-trivial = >= 3 words"},
		genFork, runFork)
}
