// C06 — Trie Replace/ReplaceWithMask are total and rewrite exactly the matched regions.
package c06

import (
	"fmt"
	"strings"
	"testing"
	"unicode/utf8"

	"github.com/welllog/golib/algz"

	"verif/harness/internal/g"
	"verif/harness/internal/pb"
	"verif/harness/internal/trieg"
)

func TestMain(m *testing.M)   { pb.Main(m) }
func TestProps(t *testing.T)  { pb.RunProps(t) }
func TestReplay(t *testing.T) { pb.RunReplay(t) }

type region struct{ start, stop, occs int }

// regions returns the maximal covered byte regions and the number of occurrences inside each.
func regions(occ []trieg.Occ, n int) []region {
	covered := make([]bool, n)
	for _, o := range occ {
		for i := o.Start; i < o.Stop; i++ {
			covered[i] = true
		}
	}
	var rs []region
	for i := 0; i < n; {
		if !covered[i] {
			i++
			continue
		}
		j := i
		for j < n && covered[j] {
			j++
		}
		rg := region{start: i, stop: j}
		for _, o := range occ {
			if o.Start >= i && o.Stop <= j {
				rg.occs++
			}
		}
		rs = append(rs, rg)
		i = j
	}
	return rs
}

// parseReplace decides whether out == U0 R^k1 U1 R^k2 ... Un with 1 <= kj <= occs(region j), by dynamic
// programming over (position in out, region index, copies used), so an ambiguous replacement string
// (one that looks like the surrounding text) cannot cause a false alarm.
func parseReplace(out, text, repl string, rs []region) bool {
	// segments U0..Un
	var segs []string
	prev := 0
	for _, rg := range rs {
		segs = append(segs, text[prev:rg.start])
		prev = rg.stop
	}
	segs = append(segs, text[prev:])
	if !strings.HasPrefix(out, segs[0]) {
		return false
	}
	// states: set of positions in out after having consumed U0..Uj-1 and region j-1's copies
	pos := map[int]bool{len(segs[0]): true}
	for j, rg := range rs {
		next := map[int]bool{}
		for p := range pos {
			q := p
			for k := 1; k <= rg.occs; k++ {
				if !strings.HasPrefix(out[q:], repl) {
					break
				}
				q += len(repl)
				if strings.HasPrefix(out[q:], segs[j+1]) {
					next[q+len(segs[j+1])] = true
				}
			}
		}
		pos = next
		if len(pos) == 0 {
			return false
		}
	}
	return pos[len(out)]
}

func runReplace(c trieg.Case, r *pb.Rec) error {
	for _, p := range c.Patterns {
		if !utf8.ValidString(p) {
			return nil
		}
	}
	if !utf8.ValidString(c.Repl) || !utf8.ValidRune(c.Mask) {
		return nil
	}
	var tr algz.Trie
	trieg.BuildStaged(c, tr.Insert, tr.BuildFailureLinks)
	text := string(c.Text)
	salt := len(text)*3 + len(c.Patterns)
	if salt%2 == 0 {
		text = g.Window(text, salt/2) // the same text as a window into a larger string
		r.Class("text is a window into a larger string")
	}
	if err := checkText(&tr, c, text, r); err != nil {
		return err
	}
	if len(text) >= 8 && salt%23 == 0 {
		// the same trie scans texts of one length and different content, each allocated, scanned and dropped, with a
		// garbage collection before the next one is allocated at (usually) the same address
		r.Class("same-length texts in recycled memory, a collection between scans")
		return g.Recycle(6, func(i int) error {
			v := strings.Repeat(trieg.Rotate(text, i+1), 64/len(text)+1)
			if i%2 == 1 {
				return checkText(&tr, c, v, &pb.Rec{})
			}
			// the text of this round is the last thing the trie scans before it is dropped
			occ, _ := trieg.Occurrences(c.Patterns, v)
			if !parseReplace(tr.Replace(v, c.Repl), v, c.Repl, regions(occ, len(v))) {
				return fmt.Errorf("Replace(text %d of a series of same-length texts in recycled memory: %q, %q) with patterns %q: not the covered regions replaced", i, v, c.Repl, c.Patterns)
			}
			return nil
		})
	}
	return nil
}

func checkText(trp *algz.Trie, c trieg.Case, text string, r *pb.Rec) error {
	tr := trp
	occ, _ := trieg.Occurrences(c.Patterns, text)
	rs := regions(occ, len(text))
	// totality first (any text)
	masked := tr.ReplaceWithMask(text, c.Mask)
	replaced := tr.Replace(text, c.Repl)
	mk, rk := strings.Clone(masked), strings.Clone(replaced)
	tr.Replace(text+text, c.Repl+"x")
	tr.ReplaceWithMask("x"+text, c.Mask)
	if masked != mk || replaced != rk {
		return fmt.Errorf("a result of Replace/ReplaceWithMask(%q) changed after a later call", text)
	}
	// Replace: exactly the covered bytes are removed, 1..occs copies per maximal region, none elsewhere
	if !parseReplace(replaced, text, c.Repl, rs) {
		return fmt.Errorf("Replace(%q, %q) with patterns %q = %q: not U0 R^k1 U1 ... with 1<=kj<=occurrences for the covered regions %v", text, c.Repl, c.Patterns, replaced, rs)
	}
	{
		// rune by rune (a byte that is not part of a valid encoding is a rune of width one): inside a covered
		// region the mask, outside the original bytes, verbatim. Occurrences of valid patterns start and end on
		// rune boundaries of the text, also when the text around them is not valid UTF-8.
		var want strings.Builder
		aligned := true
		for i := 0; i < len(text); {
			_, size := utf8.DecodeRuneInString(text[i:])
			in, inEnd := false, false
			for _, rg := range rs {
				if i >= rg.start && i < rg.stop {
					in = true
				}
				if i+size-1 >= rg.start && i+size-1 < rg.stop {
					inEnd = true
				}
			}
			if in != inEnd {
				aligned = false // cannot happen for valid patterns; then nothing is claimed here
			}
			if in {
				want.WriteRune(c.Mask)
			} else {
				want.WriteString(text[i : i+size])
			}
			i += size
		}
		for _, p := range c.Patterns {
			aligned = aligned && utf8.ValidString(p)
		}
		if aligned && masked != want.String() {
			return fmt.Errorf("ReplaceWithMask(%q, %q) with patterns %q = %q want %q (covered runes masked, all other bytes unchanged)", text, c.Mask, c.Patterns, masked, want.String())
		}
		if aligned && utf8.RuneCountInString(masked) != utf8.RuneCountInString(text) {
			return fmt.Errorf("ReplaceWithMask changed the rune count")
		}
	}
	// classes
	leftMerge, touching, nested, big := false, false, false, false
	for _, rg := range rs {
		big = big || rg.occs >= 3
	}
	for _, x := range occ {
		for _, y := range occ {
			if x == y {
				continue
			}
			if x.Stop == y.Start {
				touching = true
			}
			if x.Start <= y.Start && y.Stop <= x.Stop {
				nested = true
			}
			// a later-ending occurrence that starts before an earlier-ending, otherwise disjoint pair
			if y.Stop > x.Stop && y.Start < x.Start {
				for _, z := range occ {
					if z.Stop <= x.Start && y.Start < z.Stop && z != y {
						leftMerge = true
					}
				}
			}
		}
	}
	r.ClassIf(leftMerge, "left-extending merge")
	r.ClassIf(touching, "touching regions")
	r.ClassIf(nested, "nested")
	r.ClassIf(!utf8.ValidString(text), "invalid-UTF-8 text")
	r.ClassIf(c.Repl == "", "empty replacement")
	r.ClassIf(len(occ) == 0, "no occurrence")
	r.ClassIf(len(occ) > 256, "more than 256 occurrences")
	r.ClassIf(len(c.Stages) > 0, "failure links rebuilt after further inserts")
	r.NonTrivialIf(big && leftMerge)
	return nil
}

func FuzzReplace(f *testing.F) {
	f.Add("ab\nde\nbcdef", []byte("abcdef"), "*")
	f.Add("�", []byte("a\xffb"), "")
	f.Add("a\nab\nabc\nbc\nc", []byte("xabcabc"), "ab")
	f.Fuzz(func(t *testing.T, blob string, text []byte, repl string) {
		blob = strings.ToValidUTF8(blob, "�")
		pats := strings.Split(blob, "\n")
		if len(pats) > 16 || len(text) > 200 || len(repl) > 8 {
			return
		}
		if err := runReplace(trieg.Case{Patterns: pats, Text: text, Repl: strings.ToValidUTF8(repl, "?"), Mask: '*'}, nil); err != nil {
			t.Fatal(err)
		}
	})
}

func init() {
	pb.Register("trie_replace", pb.Options{Twins: 3, Base: 10000,
		Required: []string{"left-extending merge", "touching regions", "nested", "invalid-UTF-8 text", "empty replacement", "no occurrence", "failure links rebuilt after further inserts", "more than 256 occurrences"},
		Rule:     "same generators as C05 plus the shape of the statement (A1 G1 A2 G2 ... Ak T with short patterns Ai and a long pattern starting inside A1 and ending after Ak), touching occurrences, replacement strings from the text alphabet (ambiguous on purpose), empty replacement, masks of width 1-4; oracle: byte-level brute-force coverage; ReplaceWithMask = per-rune masking (valid text); Replace output parsed as U0 R^k1 U1 ... with 1<=kj<=occurrences by dynamic programming; no panic for any text; non-trivial = a maximal region made of >= 3 occurrences with a left-extending merge"},
		trieg.Gen, runReplace)
}
