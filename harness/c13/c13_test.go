// C13 — DList and SList keep exact sequence semantics with stable node handles.
package c13

import (
	stdlist "container/list"
	"fmt"
	"testing"

	"github.com/welllog/golib/listz"
	"pgregory.net/rapid"

	"verif/harness/internal/g"
	"verif/harness/internal/pb"
)

func TestMain(m *testing.M)   { pb.Main(m) }
func TestProps(t *testing.T)  { pb.RunProps(t) }
func TestReplay(t *testing.T) { pb.RunReplay(t) }

type lop struct {
	K    int
	Who  int // list 0 or 1
	H, M int // handle selectors (node, mark)
}

const (
	dPushFront = iota
	dPushBack
	dInsertBefore
	dInsertAfter
	dPushFrontNode
	dPushBackNode
	dInsertNodeBefore
	dInsertNodeAfter
	dRemove
	dMoveToFront
	dMoveToBack
	dMoveBefore
	dMoveAfter
	dPushBackList
	dPushFrontList
	dInit
	nD
)

type dlistCase struct {
	Zero [2]bool // list i starts as a zero value (otherwise NewDoubly)
	Ops  []lop
}

func genDList(t *rapid.T) dlistCase {
	c := dlistCase{Zero: [2]bool{rapid.Bool().Draw(t, "zero0"), rapid.Bool().Draw(t, "zero1")}}
	n := rapid.IntRange(1, 60).Draw(t, "nops")
	for i := 0; i < n; i++ {
		k := rapid.IntRange(0, nD-1).Draw(t, "op")
		if k == dInit && rapid.IntRange(0, 5).Draw(t, "rare") != 0 {
			k = dPushBack
		}
		if (k == dPushBackList || k == dPushFrontList) && rapid.IntRange(0, 2).Draw(t, "rare2") != 0 {
			k = dMoveBefore
		}
		c.Ops = append(c.Ops, lop{K: k, Who: rapid.SampledFrom([]int{0, 0, 0, 1}).Draw(t, "who"), H: rapid.IntRange(0, 1000).Draw(t, "h"), M: rapid.IntRange(0, 1000).Draw(t, "m")})
	}
	return c
}

type handle struct {
	d     *listz.DNode[int]
	s     *stdlist.Element // nil while the node is outside every list
	owner int              // list index while inside, -1 outside
}

func runDList(c dlistCase, r *pb.Rec) error {
	var dl [2]*listz.DList[int]
	var sl [2]*stdlist.List
	for i := 0; i < 2; i++ {
		if c.Zero[i] {
			dl[i], sl[i] = new(listz.DList[int]), new(stdlist.List)
		} else {
			dl[i], sl[i] = listz.NewDoubly[int](), stdlist.New()
		}
	}
	var hs []*handle
	next := 0
	val := func() int { next++; return next }
	// a removed element of container/list to stand in for nodes that are outside every list
	dummy := stdlist.New()
	outside := func() *stdlist.Element { e := dummy.PushBack(0); dummy.Remove(e); return e }
	stdOf := func(h *handle) *stdlist.Element {
		if h.s == nil {
			h.s = outside()
		}
		return h.s
	}
	pick := func(sel int) *handle {
		if len(hs) == 0 {
			return nil
		}
		return hs[sel%len(hs)]
	}
	pickOutside := func(sel int) *handle { // fresh or removed node
		var out []*handle
		for _, h := range hs {
			if h.owner < 0 {
				out = append(out, h)
			}
		}
		if len(out) == 0 || sel%3 == 0 {
			h := &handle{d: &listz.DNode[int]{Value: val()}, owner: -1}
			hs = append(hs, h)
			return h
		}
		return out[sel%len(out)]
	}
	var afterInit []*handle // node objects whose list was re-initialised (used again only as the node of Push*Node)
	interesting := false
	compare := func(where string) error {
		for i := 0; i < 2; i++ {
			if dl[i].Len() != sl[i].Len() {
				return fmt.Errorf("%s: list %d Len = %d, container/list %d", where, i, dl[i].Len(), sl[i].Len())
			}
			var fw, bw, fwS, bwS, all []int
			n := 0
			for e := dl[i].Front(); e != nil; e = e.Next() {
				fw = append(fw, e.Value)
				if n++; n > sl[i].Len()+2 {
					return fmt.Errorf("%s: list %d forward traversal does not terminate", where, i)
				}
			}
			n = 0
			for e := dl[i].Back(); e != nil; e = e.Prev() {
				bw = append(bw, e.Value)
				if n++; n > sl[i].Len()+2 {
					return fmt.Errorf("%s: list %d backward traversal does not terminate", where, i)
				}
			}
			for e := sl[i].Front(); e != nil; e = e.Next() {
				fwS = append(fwS, e.Value.(int))
			}
			for e := sl[i].Back(); e != nil; e = e.Prev() {
				bwS = append(bwS, e.Value.(int))
			}
			seq := dl[i].All()
			first := 0
			seq(func(int) bool { first++; return first < 2 }) // interrupted pass over the same sequence value
			var inner []int
			seq(func(v int) bool {
				if all = append(all, v); len(all) == 2 { // a second enumeration from inside the callback
					dl[i].All()(func(x int) bool { inner = append(inner, x); return true })
				}
				return true
			})
			if len(all) >= 2 && fmt.Sprint(inner) != fmt.Sprint(all) {
				return fmt.Errorf("%s: list %d: All() started inside an All() callback yields %v, the outer one %v", where, i, inner, all)
			}
			if fmt.Sprint(fw) != fmt.Sprint(fwS) || fmt.Sprint(bw) != fmt.Sprint(bwS) || fmt.Sprint(all) != fmt.Sprint(fwS) {
				return fmt.Errorf("%s: list %d front-to-back %v back-to-front %v All %v; container/list %v / %v", where, i, fw, bw, all, fwS, bwS)
			}
		}
		for _, h := range hs {
			var sn, sp *stdlist.Element
			if h.s != nil {
				sn, sp = h.s.Next(), h.s.Prev()
			}
			dn, dp := h.d.Next(), h.d.Prev()
			if (dn == nil) != (sn == nil) || (dn != nil && dn.Value != sn.Value.(int)) {
				return fmt.Errorf("%s: handle of value %d: Next() differs from container/list", where, h.d.Value)
			}
			if (dp == nil) != (sp == nil) || (dp != nil && dp.Value != sp.Value.(int)) {
				return fmt.Errorf("%s: handle of value %d: Prev() differs from container/list", where, h.d.Value)
			}
		}
		return nil
	}
	for step, o := range c.Ops {
		w := o.Who & 1
		l, s := dl[w], sl[w]
		where := fmt.Sprintf("step %d op %d on list %d", step, o.K, w)
		notMine := func(h *handle) bool { return h != nil && h.owner != w }
		switch o.K {
		case dPushFront, dPushBack:
			v := val()
			var d *listz.DNode[int]
			var e *stdlist.Element
			if o.K == dPushFront {
				d, e = l.PushFront(v), s.PushFront(v)
			} else {
				d, e = l.PushBack(v), s.PushBack(v)
			}
			if d == nil || d.Value != v {
				return fmt.Errorf("%s: returned node wrong", where)
			}
			hs = append(hs, &handle{d: d, s: e, owner: w})
		case dInsertBefore, dInsertAfter:
			mark := pick(o.M)
			if mark == nil {
				continue
			}
			v := val()
			var d *listz.DNode[int]
			var e *stdlist.Element
			if o.K == dInsertBefore {
				d, e = l.InsertBefore(v, mark.d), s.InsertBefore(v, stdOf(mark))
			} else {
				d, e = l.InsertAfter(v, mark.d), s.InsertAfter(v, stdOf(mark))
			}
			if (d == nil) != (e == nil) {
				return fmt.Errorf("%s: returned nil=%v, container/list nil=%v", where, d == nil, e == nil)
			}
			if d != nil {
				hs = append(hs, &handle{d: d, s: e, owner: w})
			}
			if notMine(mark) {
				interesting = true
				r.Class("insert with stale/foreign mark")
			}
		case dPushFrontNode, dPushBackNode:
			h := pickOutside(o.H)
			if len(afterInit) > 0 && o.H%4 == 1 {
				// a node object of a list that has been re-initialised since: it is in no list any more and is pushed like
				// a fresh one (it only ever becomes a handle again by being inserted here)
				h = afterInit[len(afterInit)-1]
				afterInit = afterInit[:len(afterInit)-1]
				h.owner, h.s = -1, nil
				hs = append(hs, h)
				r.Class("node of a re-initialised list pushed again")
			}
			if o.K == dPushFrontNode {
				l.PushFrontNode(h.d)
				h.s = s.PushFront(h.d.Value)
			} else {
				l.PushBackNode(h.d)
				h.s = s.PushBack(h.d.Value)
			}
			h.owner = w
			r.Class("node pushed")
		case dInsertNodeBefore, dInsertNodeAfter:
			mark := pick(o.M)
			if mark == nil {
				continue
			}
			h := pickOutside(o.H)
			if h == mark {
				continue
			}
			var e *stdlist.Element
			if o.K == dInsertNodeBefore {
				l.InsertNodeBefore(h.d, mark.d)
				e = s.InsertBefore(h.d.Value, stdOf(mark))
			} else {
				l.InsertNodeAfter(h.d, mark.d)
				e = s.InsertAfter(h.d.Value, stdOf(mark))
			}
			if e != nil {
				h.s, h.owner = e, w
			}
			if notMine(mark) {
				interesting = true
				r.Class("insert with stale/foreign mark")
			}
		case dRemove:
			h := pick(o.H)
			if h == nil {
				continue
			}
			got := l.Remove(h.d)
			want := s.Remove(stdOf(h)).(int)
			if h.s.Value == 0 { // stand-in element: container/list returns its dummy value
				want = h.d.Value
			}
			if got != want {
				return fmt.Errorf("%s: Remove returned %d want %d", where, got, want)
			}
			if h.owner == w {
				h.owner = -1
			} else {
				r.Class("remove of stale/foreign node")
			}
		case dMoveToFront, dMoveToBack:
			h := pick(o.H)
			if h == nil {
				continue
			}
			if o.K == dMoveToFront {
				l.MoveToFront(h.d)
				s.MoveToFront(stdOf(h))
			} else {
				l.MoveToBack(h.d)
				s.MoveToBack(stdOf(h))
			}
			if notMine(h) {
				interesting = true
				r.Class("move with stale/foreign node")
			}
		case dMoveBefore, dMoveAfter:
			h, mark := pick(o.H), pick(o.M)
			if h == nil {
				continue
			}
			if o.K == dMoveBefore {
				l.MoveBefore(h.d, mark.d)
				s.MoveBefore(stdOf(h), stdOf(mark))
			} else {
				l.MoveAfter(h.d, mark.d)
				s.MoveAfter(stdOf(h), stdOf(mark))
			}
			if notMine(h) || notMine(mark) {
				interesting = true
				r.Class("move with stale/foreign node")
			}
			r.ClassIf(h == mark, "move relative to itself")
		case dPushBackList, dPushFrontList:
			ow := o.H & 1
			before := sl[w].Len()
			if o.K == dPushBackList {
				l.PushBackDList(dl[ow])
				s.PushBackList(sl[ow])
			} else {
				l.PushFrontDList(dl[ow])
				s.PushFrontList(sl[ow])
			}
			// the copies get fresh handles: walk both lists to pair the new nodes
			added := sl[w].Len() - before
			if added > 0 {
				if o.K == dPushBackList {
					d, e := l.Back(), s.Back()
					for i := 0; i < added && d != nil && e != nil; i++ {
						hs = append(hs, &handle{d: d, s: e, owner: w})
						d, e = d.Prev(), e.Prev()
					}
				} else {
					d, e := l.Front(), s.Front()
					for i := 0; i < added && d != nil && e != nil; i++ {
						hs = append(hs, &handle{d: d, s: e, owner: w})
						d, e = d.Next(), e.Next()
					}
				}
			}
			r.ClassIf(ow == w && before > 0, "list copied onto itself")
			interesting = interesting || (ow == w && before > 0)
		case dInit:
			// Init with live handles is undefined in both implementations: forget them
			kept := hs[:0]
			for _, h := range hs {
				if h.owner != w {
					kept = append(kept, h)
				} else {
					afterInit = append(afterInit, h)
				}
			}
			hs = kept
			if l.Init() != l {
				return fmt.Errorf("%s: Init did not return the list", where)
			}
			s.Init()
			r.Class("Init")
		}
		if err := compare("after " + where); err != nil {
			return err
		}
	}
	r.ClassIf(c.Zero[0], "zero-value list")
	r.NonTrivialIf(interesting)
	return nil
}

// ---------------------------------------------------------------- SList

type slop struct {
	K    int
	I, J int
	X, Y int // != 0: the index i (j) is g.ExtremeInts[X-1] (Y-1) instead: limits of int, 32-bit width and sign boundaries
}

const (
	sGet = iota
	sRemove
	sRemoveFront
	sPushFront
	sPushBack
	sInsertAt
	sPushFrontNode
	sPushBackNode
	sInsertNodeAt
	sSwap
	nS
)

type slistCase struct {
	Zero bool
	Ops  []slop
}

func genSList(t *rapid.T) slistCase {
	c := slistCase{Zero: rapid.Bool().Draw(t, "zero")}
	kinds := []int{sGet, sRemove, sRemove, sRemove, sRemoveFront, sRemoveFront, sPushFront, sPushBack, sInsertAt, sInsertAt, sPushFrontNode, sPushBackNode, sInsertNodeAt, sSwap}
	n := rapid.IntRange(1, 50).Draw(t, "nops")
	for i := 0; i < n; i++ {
		o := slop{K: rapid.SampledFrom(kinds).Draw(t, "op"), I: rapid.IntRange(-2, 8).Draw(t, "i"), J: rapid.IntRange(-2, 8).Draw(t, "j")}
		if rapid.IntRange(0, 7).Draw(t, "extreme") == 0 {
			o.X = rapid.IntRange(0, len(g.ExtremeInts)).Draw(t, "x")
			o.Y = rapid.IntRange(0, len(g.ExtremeInts)).Draw(t, "y")
		}
		c.Ops = append(c.Ops, o)
	}
	return c
}

func runSList(c slistCase, r *pb.Rec) error {
	var l *listz.SList[int]
	if c.Zero {
		l = new(listz.SList[int])
	} else {
		l = listz.NewSingly[int]()
	}
	earlySeq := l.All() // obtained on the empty list, ranged after every step
	var model []int
	var spare []*listz.SNode[int] // removed nodes, re-usable
	next := 0
	node := func(sel int) *listz.SNode[int] {
		next++
		if len(spare) > 0 && sel%2 == 0 {
			n := spare[len(spare)-1]
			spare = spare[:len(spare)-1]
			n.Value = next
			return n
		}
		return &listz.SNode[int]{Value: next}
	}
	interesting := false
	insertAt := func(i, v int) {
		if i <= 0 {
			model = append([]int{v}, model...)
		} else if i >= len(model) {
			model = append(model, v)
		} else {
			model = append(model[:i], append([]int{v}, model[i:]...)...)
		}
	}
	for step, o := range c.Ops {
		where := fmt.Sprintf("step %d op %d (i=%d j=%d)", step, o.K, o.I, o.J)
		idx := o.I
		if idx > 2 { // keep sizes small: large indices are relative to the end
			idx = len(model) + (o.I - 5)
		}
		if o.X > 0 && o.X <= len(g.ExtremeInts) {
			idx = g.ExtremeInts[o.X-1]
			r.Class("index at a limit of int / 32-bit boundary")
		}
		in := idx >= 0 && idx < len(model)
		edge := len(model) <= 2 && (idx == 0 || idx == len(model)-1)
		switch o.K {
		case sGet:
			n := l.Get(idx)
			if (n != nil) != in || (in && n.Value != model[idx]) {
				return fmt.Errorf("%s: Get(%d) wrong (model %v)", where, idx, model)
			}
		case sRemove:
			n := l.Remove(idx)
			if (n != nil) != in || (in && n.Value != model[idx]) {
				return fmt.Errorf("%s: Remove(%d) returned %v (model %v)", where, idx, n, model)
			}
			if in {
				if n.Next() != nil {
					return fmt.Errorf("%s: removed node still links to the list", where)
				}
				model = append(model[:idx:idx], model[idx+1:]...)
				spare = append(spare, n)
				interesting = interesting || edge
				r.ClassIf(edge, "remove at first/last of a tiny list")
			}
		case sRemoveFront:
			n := l.RemoveFront()
			if (n != nil) != (len(model) > 0) || (n != nil && n.Value != model[0]) {
				return fmt.Errorf("%s: RemoveFront returned %v (model %v)", where, n, model)
			}
			if n != nil {
				if n.Next() != nil {
					return fmt.Errorf("%s: removed node still links to the list", where)
				}
				model = model[1:]
				spare = append(spare, n)
			}
		case sPushFront:
			next++
			l.PushFront(next)
			model = append([]int{next}, model...)
		case sPushBack:
			next++
			l.PushBack(next)
			model = append(model, next)
		case sInsertAt:
			next++
			l.InsertAt(idx, next)
			insertAt(idx, next)
			interesting = interesting || edge
			r.ClassIf(idx < 0 || idx > len(model), "index clamped")
		case sPushFrontNode:
			n := node(o.J)
			l.PushFrontNode(n)
			model = append([]int{n.Value}, model...)
		case sPushBackNode:
			n := node(o.J)
			l.PushBackNode(n)
			model = append(model, n.Value)
		case sInsertNodeAt:
			n := node(o.J)
			l.InsertNodeAt(idx, n)
			insertAt(idx, n.Value)
			interesting = interesting || edge
		case sSwap:
			j := o.J
			if j > 2 {
				j = len(model) + (o.J - 5)
			}
			if o.Y > 0 && o.Y <= len(g.ExtremeInts) {
				j = g.ExtremeInts[o.Y-1]
			}
			l.Swap(idx, j)
			if in && j >= 0 && j < len(model) {
				model[idx], model[j] = model[j], model[idx]
			}
		}
		// consistency of Front, Back, Len, Next-traversal, All
		if l.Len() != len(model) {
			return fmt.Errorf("%s: Len = %d, model %v", where, l.Len(), model)
		}
		var tr, all []int
		var last *listz.SNode[int]
		n := 0
		for e := l.Front(); e != nil; e = e.Next() {
			tr = append(tr, e.Value)
			last = e
			if n++; n > len(model)+2 {
				return fmt.Errorf("%s: traversal does not terminate (model %v)", where, model)
			}
		}
		var early []int
		earlySeq(func(v int) bool { early = append(early, v); return true })
		if fmt.Sprint(early) != fmt.Sprint(model) && len(model)+len(early) > 0 {
			return fmt.Errorf("%s: an All() sequence obtained while the list was still empty yields %v, model %v", where, early, model)
		}
		seq := l.All()
		first := 0
		seq(func(int) bool { first++; return first < 2 })
		var inner []int
		seq(func(v int) bool {
			if all = append(all, v); len(all) == 2 {
				l.All()(func(x int) bool { inner = append(inner, x); return true })
			}
			return true
		})
		if len(all) >= 2 && fmt.Sprint(inner) != fmt.Sprint(all) {
			return fmt.Errorf("%s: All() started inside an All() callback yields %v, the outer one %v", where, inner, all)
		}
		if fmt.Sprint(tr) != fmt.Sprint(model) || fmt.Sprint(all) != fmt.Sprint(model) {
			return fmt.Errorf("%s: traversal %v, All %v, model %v", where, tr, all, model)
		}
		if l.Back() != last {
			return fmt.Errorf("%s: Back() is not the last node of the traversal (model %v)", where, model)
		}
		if len(model) == 0 && (l.Front() != nil || l.Back() != nil) {
			return fmt.Errorf("%s: empty list has Front/Back", where)
		}
	}
	r.ClassIf(c.Zero, "zero-value list")
	r.NonTrivialIf(interesting)
	return nil
}

func init() {
	pb.Register("dlist_vs_container_list", pb.Options{Twins: 3, Base: 10000,
		Required: []string{"insert with stale/foreign mark", "move with stale/foreign node", "remove of stale/foreign node", "list copied onto itself", "node pushed", "Init", "zero-value list", "move relative to itself"},
		Rule:     "<= 60 operations over two DLists (zero value or NewDoubly) in lock step with two container/list lists: every exported method, handles drawn from live nodes of either list and removed nodes, Push*Node/InsertNode* with fresh or removed nodes only, PushBackDList/PushFrontDList with self and other, Init (handles dropped; the node objects may come back through Push*Node); oracle after every step: values forward/backward/All, Len, nil-ness of returned nodes, Remove's value, Next/Prev of every handle; non-trivial = Move*/Insert* with a stale or foreign handle or a list copied onto itself"},
		genDList, runDList)
	pb.Register("slist_sequence", pb.Options{Twins: 3, Base: 10000, Required: []string{"remove at first/last of a tiny list", "index clamped", "zero-value list", "index at a limit of int / 32-bit boundary"},
		Rule: "<= 50 operations on an SList (sizes kept small): Get/Remove/RemoveFront/PushFront/PushBack/InsertAt/Push*Node/InsertNodeAt (fresh or removed nodes)/Swap with indices -2..len+3 and (one operation in eight) at the limits of int and the 32-bit boundaries; oracle: slice model; Front/Back/Len/Next-traversal/All after every step; non-trivial = Remove/Insert at index 0 or len-1 of a list of size <= 2"},
		genSList, runSList)
}
