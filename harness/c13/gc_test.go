package c13

import (
	"fmt"

	"github.com/welllog/golib/listz"
	"pgregory.net/rapid"

	"verif/harness/internal/g"
	"verif/harness/internal/pb"
)

type lgcCase struct {
	Kind int // 0 DList PushBack / Remove(Front), 1 DList PushFront / Remove(Back), 2 SList PushBack / RemoveFront
	N    int
}

func genLGC(t *rapid.T) lgcCase {
	return lgcCase{Kind: rapid.IntRange(0, 2).Draw(t, "kind"), N: rapid.OneOf(rapid.IntRange(1, 70), rapid.SampledFrom([]int{128, 512, 513})).Draw(t, "n")}
}

func runLGC(c lgcCase, r *pb.Rec) error {
	if c.N < 1 || c.N > 1<<16 {
		return nil
	}
	r.NonTrivial()
	switch c.Kind {
	case 0, 1:
		var l listz.DList[g.PtrRec]
		put := func(v g.PtrRec) bool { l.PushBack(v); return true }
		take := func() (g.PtrRec, bool) {
			if l.Front() == nil {
				return g.PtrRec{}, false
			}
			return l.Remove(l.Front()), true
		}
		if c.Kind == 1 {
			put = func(v g.PtrRec) bool { l.PushFront(v); return true }
			take = func() (g.PtrRec, bool) {
				if l.Back() == nil {
					return g.PtrRec{}, false
				}
				return l.Remove(l.Back()), true
			}
		}
		return g.AcrossGC(fmt.Sprintf("DList (kind %d) with %d elements", c.Kind, c.N), c.N, 3, put, take)
	default:
		var l listz.SList[g.PtrRec]
		return g.AcrossGC(fmt.Sprintf("SList with %d elements", c.N), c.N, 3, func(v g.PtrRec) bool { l.PushBack(v); return true }, func() (g.PtrRec, bool) {
			n := l.RemoveFront()
			if n == nil {
				return g.PtrRec{}, false
			}
			return n.Value, true
		})
	}
}

func init() {
	pb.Register("list_elements_across_gc", pb.Options{Base: 30,
		Rule: "DList (both ends) and SList of struct{int, string, *int} holding 1..70, 128, 512, 513 freshly allocated elements that only the list references; two forced garbage collections and allocation churn; then every element is taken out in FIFO order and verified; three rounds per list; every case is non-trivial"},
		genLGC, runLGC)
}
