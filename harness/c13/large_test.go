package c13

// Lists of hundreds to tens of thousands of elements. DList: a list is built, then lists of chosen lengths
// (around 128, 256, 512, 1024, 4096 and their multiples, or the list itself) are copied to its front or back
// a few times; container/list does the same. SList: a list of up to 70000 elements gets a few Get / Remove /
// InsertAt / Swap / PushFront / PushBack calls at positions all over its length; a slice does the same.
// The whole content is compared after every step, forward and (DList) backward.

import (
	"container/list"
	"fmt"

	"github.com/welllog/golib/listz"
	"pgregory.net/rapid"

	"verif/harness/internal/pb"
)

var largeLens = []int{0, 1, 2, 63, 64, 65, 127, 128, 129, 255, 256, 257, 383, 384, 385, 511, 512, 513, 640, 768, 1023, 1024, 1025, 1536, 2047, 2048, 2049, 4096, 4097, 10000, 65536, 65537}

type dlOp struct {
	K int // 0 PushBackDList(other), 1 PushFrontDList(other), 2 PushBackDList(self), 3 PushFrontDList(self), 4 remove k from the front, 5 remove k from the back
	N int // length of other / number of elements removed
}

type dlargeCase struct {
	N   int
	Ops []dlOp
}

func genDLarge(t *rapid.T) dlargeCase {
	ln := rapid.OneOf(rapid.SampledFrom(largeLens), rapid.IntRange(0, 1500))
	c := dlargeCase{N: rapid.OneOf(rapid.SampledFrom(largeLens[:28]), rapid.IntRange(0, 700)).Draw(t, "n")}
	for i, n := 0, rapid.IntRange(1, 4).Draw(t, "nops"); i < n; i++ {
		c.Ops = append(c.Ops, dlOp{K: rapid.SampledFrom([]int{0, 0, 1, 1, 2, 3, 4, 5}).Draw(t, "k"), N: ln.Draw(t, "len")})
	}
	return c
}

func runDLarge(c dlargeCase, r *pb.Rec) error {
	if c.N < 0 || c.N > 1<<17 || len(c.Ops) > 6 {
		return nil
	}
	var l listz.DList[int]
	ref := list.New()
	next := 0
	for i := 0; i < c.N; i++ {
		next++
		l.PushBack(next)
		ref.PushBack(next)
	}
	total := c.N
	for step, o := range c.Ops {
		if o.N < 0 || o.N > 1<<17 || total > 1<<19 {
			return nil
		}
		where := fmt.Sprintf("DList of %d elements, step %d", ref.Len(), step)
		switch o.K {
		case 0, 1:
			var other listz.DList[int]
			oref := list.New()
			for i := 0; i < o.N; i++ {
				next++
				other.PushBack(next)
				oref.PushBack(next)
			}
			if o.K == 0 {
				where += fmt.Sprintf(": PushBackDList(list of %d)", o.N)
				l.PushBackDList(&other)
				ref.PushBackList(oref)
			} else {
				where += fmt.Sprintf(": PushFrontDList(list of %d)", o.N)
				l.PushFrontDList(&other)
				ref.PushFrontList(oref)
			}
			if err := sameDL(&other, oref, where+", the argument list afterwards"); err != nil {
				return err
			}
			r.ClassIf(o.N > 512, "a list of more than 512 elements copied into another")
			r.ClassIf(o.N > 0 && o.N%128 == 0, "a list whose length is a multiple of 128 copied into another")
		case 2:
			where += ": PushBackDList(itself)"
			r.ClassIf(ref.Len() > 512, "a list of more than 512 elements copied onto itself")
			l.PushBackDList(&l)
			ref.PushBackList(ref)
		case 3:
			where += ": PushFrontDList(itself)"
			r.ClassIf(ref.Len() > 512, "a list of more than 512 elements copied onto itself")
			l.PushFrontDList(&l)
			ref.PushFrontList(ref)
		case 4, 5:
			where += fmt.Sprintf(": %d removals at one end", o.N)
			for i := 0; i < o.N && ref.Len() > 0; i++ {
				var got, want int
				if o.K == 4 {
					got, want = l.Remove(l.Front()), ref.Remove(ref.Front()).(int)
				} else {
					got, want = l.Remove(l.Back()), ref.Remove(ref.Back()).(int)
				}
				if got != want {
					return fmt.Errorf("%s: removal %d returned %d want %d", where, i, got, want)
				}
			}
		}
		total = ref.Len()
		if err := sameDL(&l, ref, where); err != nil {
			return err
		}
	}
	r.NonTrivialIf(ref.Len() > 128)
	return nil
}

func sameDL(l *listz.DList[int], ref *list.List, where string) error {
	if l.Len() != ref.Len() {
		return fmt.Errorf("%s: Len = %d, container/list has %d", where, l.Len(), ref.Len())
	}
	i := 0
	e := ref.Front()
	for n := l.Front(); n != nil || e != nil; n, e, i = n.Next(), e.Next(), i+1 {
		if n == nil || e == nil {
			return fmt.Errorf("%s: forward walk ends after %d elements, container/list has %d", where, i, ref.Len())
		}
		if n.Value != e.Value.(int) {
			return fmt.Errorf("%s: forward position %d holds %d, container/list has %d", where, i, n.Value, e.Value)
		}
		if i > ref.Len() {
			return fmt.Errorf("%s: forward walk does not end", where)
		}
	}
	i = 0
	e = ref.Back()
	for n := l.Back(); n != nil || e != nil; n, e, i = n.Prev(), e.Prev(), i+1 {
		if n == nil || e == nil {
			return fmt.Errorf("%s: backward walk ends after %d elements, container/list has %d", where, i, ref.Len())
		}
		if n.Value != e.Value.(int) {
			return fmt.Errorf("%s: backward position %d holds %d, container/list has %d", where, i, n.Value, e.Value)
		}
	}
	i = 0
	e = ref.Front()
	var bad error
	l.All()(func(v int) bool {
		if e == nil || v != e.Value.(int) {
			bad = fmt.Errorf("%s: All() yields %d at position %d, container/list differs", where, v, i)
			return false
		}
		e, i = e.Next(), i+1
		return true
	})
	if bad == nil && e != nil {
		bad = fmt.Errorf("%s: All() stops after %d of %d elements", where, i, ref.Len())
	}
	return bad
}

type slOp struct {
	K    int // 0 Get, 1 Remove, 2 InsertAt, 3 Swap, 4 PushFront, 5 PushBack, 6 RemoveFront
	I, J int // positions as per-mille of the length
	D    int // offset -2..2
}

type slargeCase struct {
	N   int
	Ops []slOp
}

func genSLarge(t *rapid.T) slargeCase {
	c := slargeCase{N: rapid.OneOf(rapid.SampledFrom(largeLens), rapid.SampledFrom([]int{70000}), rapid.IntRange(0, 3000)).Draw(t, "n")}
	pos := rapid.OneOf(rapid.IntRange(0, 1000), rapid.SampledFrom([]int{0, 1, 250, 500, 999, 1000}))
	for i, n := 0, rapid.IntRange(1, 8).Draw(t, "nops"); i < n; i++ {
		c.Ops = append(c.Ops, slOp{K: rapid.IntRange(0, 6).Draw(t, "k"), I: pos.Draw(t, "i"), J: pos.Draw(t, "j"), D: rapid.IntRange(-2, 2).Draw(t, "d")})
	}
	return c
}

func runSLarge(c slargeCase, r *pb.Rec) error {
	if c.N < 0 || c.N > 1<<17 || len(c.Ops) > 12 {
		return nil
	}
	var l listz.SList[int]
	var model []int
	next := 0
	for i := 0; i < c.N; i++ {
		next++
		l.PushBack(next)
		model = append(model, next)
	}
	for step, o := range c.Ops {
		i, j := len(model)*o.I/1000+o.D, len(model)*o.J/1000-o.D
		in := func(x int) bool { return x >= 0 && x < len(model) }
		where := fmt.Sprintf("SList of %d elements, step %d (op %d i=%d j=%d)", len(model), step, o.K, i, j)
		switch o.K {
		case 0:
			n := l.Get(i)
			if (n != nil) != in(i) || (n != nil && n.Value != model[i]) {
				return fmt.Errorf("%s: Get(%d) = %v", where, i, n)
			}
		case 1:
			n := l.Remove(i)
			if (n != nil) != in(i) || (n != nil && n.Value != model[i]) {
				return fmt.Errorf("%s: Remove(%d) = %v", where, i, n)
			}
			if n != nil {
				model = append(model[:i:i], model[i+1:]...)
			}
		case 2:
			if i < 0 || i > len(model) { // out-of-range positions are the business of slist_sequence
				continue
			}
			next++
			l.InsertAt(i, next)
			model = append(model[:i:i], append([]int{next}, model[i:]...)...)
		case 3:
			if !in(i) || !in(j) {
				continue
			}
			l.Swap(i, j)
			model[i], model[j] = model[j], model[i]
		case 4:
			next++
			l.PushFront(next)
			model = append([]int{next}, model...)
		case 5:
			next++
			l.PushBack(next)
			model = append(model, next)
		case 6:
			n := l.RemoveFront()
			if (n != nil) != (len(model) > 0) || (n != nil && n.Value != model[0]) {
				return fmt.Errorf("%s: RemoveFront = %v", where, n)
			}
			if n != nil {
				model = model[1:]
			}
		}
		if l.Len() != len(model) {
			return fmt.Errorf("%s: Len = %d want %d", where, l.Len(), len(model))
		}
		k := 0
		for n := l.Front(); n != nil; n, k = n.Next(), k+1 {
			if k >= len(model) || n.Value != model[k] {
				return fmt.Errorf("%s: position %d differs from the model afterwards", where, k)
			}
		}
		if k != len(model) {
			return fmt.Errorf("%s: walk from Front visits %d of %d elements", where, k, len(model))
		}
		if b := l.Back(); (b != nil) != (len(model) > 0) || (b != nil && b.Value != model[len(model)-1]) {
			return fmt.Errorf("%s: Back() is not the last element afterwards", where)
		}
	}
	r.ClassIf(c.N >= 65536, "SList of >= 65536 elements")
	r.NonTrivialIf(c.N > 256)
	return nil
}

func init() {
	pb.Register("dlist_large", pb.Options{Base: 1500, Required: []string{"a list of more than 512 elements copied into another", "a list whose length is a multiple of 128 copied into another", "a list of more than 512 elements copied onto itself"},
		Rule: "a DList of 0..2049 elements, then 1..4 steps: PushBackDList / PushFrontDList of a list of 0..65537 elements (lengths around every multiple of 128 up to 1024, 2048, 4096, 65536, or arbitrary) or of the list itself, or bulk removals at one end; oracle: container/list (PushBackList / PushFrontList), whole content forward, backward and through All(), Len, the argument list unchanged; non-trivial = more than 128 elements at the end"},
		genDLarge, runDLarge)
	pb.Register("slist_large", pb.Options{Base: 300, Required: []string{"SList of >= 65536 elements"},
		Rule: "an SList of 0..70000 elements, then 1..8 calls of Get / Remove / InsertAt / Swap / PushFront / PushBack / RemoveFront at positions all over its length; oracle: slice model, whole content, Len, Back after every call; non-trivial = more than 256 elements"},
		genSLarge, runSLarge)
}
