package c13

// Long runs on ONE list: tens of thousands of pushes, removals and moves with node handles re-used; Len and the
// ends are checked after every call, the full traversal (both directions) at checkpoints.

import (
	stdlist "container/list"
	"fmt"

	"github.com/welllog/golib/listz"
	"pgregory.net/rapid"

	"verif/harness/internal/pb"
)

type listLong struct {
	Single bool
	Seed   uint64
	Steps  int
	Peak   int
}

func genListLong(t *rapid.T) listLong {
	return listLong{Single: rapid.Bool().Draw(t, "single"), Seed: rapid.Uint64().Draw(t, "seed"), Steps: rapid.SampledFrom([]int{3000, 30000}).Draw(t, "steps"),
		Peak: rapid.SampledFrom([]int{3, 20, 300}).Draw(t, "peak")}
}

func runListLong(c listLong, r *pb.Rec) error {
	if c.Steps < 1 || c.Steps > 200000 || c.Peak < 1 || c.Peak > 10000 {
		return nil
	}
	st := c.Seed | 1
	rnd := func(n int) int {
		st ^= st << 13
		st ^= st >> 7
		st ^= st << 17
		return int(st % uint64(n))
	}
	next := 0
	if c.Single {
		var l listz.SList[int]
		var model []int
		var spare []*listz.SNode[int]
		growing := true
		for step := 0; step < c.Steps; step++ {
			where := fmt.Sprintf("SList long run (seed %d, peak %d), step %d", c.Seed, c.Peak, step)
			// the size wanders between a few elements and the peak (elements live through hundreds of other pushes)
			if len(model) >= c.Peak {
				growing = false
			} else if len(model) <= c.Peak/8 {
				growing = true
			}
			op := rnd(8)
			if growing && op >= 3 && op < 6 && rnd(2) == 0 {
				op = 1 + rnd(2)
			} else if !growing && op < 3 && rnd(2) == 0 {
				op = 3 + rnd(3)
			}
			switch {
			case op < 3 && len(model) < c.Peak:
				next++
				switch {
				case len(spare) > 0 && op == 0:
					n := spare[len(spare)-1]
					spare = spare[:len(spare)-1]
					n.Value = next
					l.PushBackNode(n)
					model = append(model, next)
				case op == 1:
					l.PushFront(next)
					model = append([]int{next}, model...)
				default:
					i := rnd(len(model) + 1)
					l.InsertAt(i, next)
					model = append(model[:i], append([]int{next}, model[i:]...)...)
				}
			case op < 6 && len(model) > 0:
				i := rnd(len(model))
				n := l.Remove(i)
				if n == nil || n.Value != model[i] || n.Next() != nil {
					return fmt.Errorf("%s: Remove(%d) returned %v (want value %d, unlinked)", where, i, n, model[i])
				}
				model = append(model[:i:i], model[i+1:]...)
				spare = append(spare, n)
			case op == 6 && len(model) > 1:
				i, j := rnd(len(model)), rnd(len(model))
				l.Swap(i, j)
				model[i], model[j] = model[j], model[i]
			default:
				if n := l.RemoveFront(); (n != nil) != (len(model) > 0) || (n != nil && n.Value != model[0]) {
					return fmt.Errorf("%s: RemoveFront wrong", where)
				} else if n != nil {
					model = model[1:]
				}
			}
			if l.Len() != len(model) {
				return fmt.Errorf("%s: Len = %d, model %d", where, l.Len(), len(model))
			}
			if len(model) > 0 && (l.Front().Value != model[0] || l.Back().Value != model[len(model)-1] || l.Back().Next() != nil) {
				return fmt.Errorf("%s: Front/Back wrong", where)
			}
			if step%1024 == 1023 || step == c.Steps-1 {
				i := 0
				for e := l.Front(); e != nil; e = e.Next() {
					if i >= len(model) || e.Value != model[i] {
						return fmt.Errorf("%s: traversal differs from the model at position %d", where, i)
					}
					i++
				}
				if i != len(model) {
					return fmt.Errorf("%s: traversal has %d nodes, model %d", where, i, len(model))
				}
			}
		}
	} else {
		var l listz.DList[int]
		ref := stdlist.New()
		var hs []*listz.DNode[int]
		var rs []*stdlist.Element
		growing := true
		for step := 0; step < c.Steps; step++ {
			where := fmt.Sprintf("DList long run (seed %d, peak %d), step %d", c.Seed, c.Peak, step)
			if len(hs) >= c.Peak {
				growing = false
			} else if len(hs) <= c.Peak/8 {
				growing = true
			}
			op := rnd(8)
			if growing && (op == 3 || op == 4) && rnd(2) == 0 {
				op = rnd(3)
			} else if !growing && op < 3 && rnd(2) == 0 {
				op = 3 + rnd(2)
			}
			switch {
			case op < 3 && len(hs) < c.Peak:
				next++
				if op == 0 {
					hs, rs = append(hs, l.PushFront(next)), append(rs, ref.PushFront(next))
				} else if op == 1 && len(hs) > 0 {
					i := rnd(len(hs))
					hs, rs = append(hs, l.InsertAfter(next, hs[i])), append(rs, ref.InsertAfter(next, rs[i]))
				} else {
					hs, rs = append(hs, l.PushBack(next)), append(rs, ref.PushBack(next))
				}
			case op < 5 && len(hs) > 0:
				i := rnd(len(hs))
				if got, want := l.Remove(hs[i]), ref.Remove(rs[i]).(int); got != want {
					return fmt.Errorf("%s: Remove returned %d want %d", where, got, want)
				}
				hs[i], rs[i] = hs[len(hs)-1], rs[len(rs)-1]
				hs, rs = hs[:len(hs)-1], rs[:len(rs)-1]
			case len(hs) > 1:
				i, j := rnd(len(hs)), rnd(len(hs))
				switch op {
				case 5:
					l.MoveToFront(hs[i])
					ref.MoveToFront(rs[i])
				case 6:
					l.MoveToBack(hs[i])
					ref.MoveToBack(rs[i])
				default:
					if i != j {
						l.MoveBefore(hs[i], hs[j])
						ref.MoveBefore(rs[i], rs[j])
					}
				}
			}
			if l.Len() != ref.Len() {
				return fmt.Errorf("%s: Len = %d, container/list %d", where, l.Len(), ref.Len())
			}
			if ref.Len() > 0 && (l.Front().Value != ref.Front().Value.(int) || l.Back().Value != ref.Back().Value.(int)) {
				return fmt.Errorf("%s: Front/Back differ from container/list", where)
			}
			if step%1024 == 1023 || step == c.Steps-1 {
				e, x := l.Front(), ref.Front()
				for ; e != nil && x != nil; e, x = e.Next(), x.Next() {
					if e.Value != x.Value.(int) {
						return fmt.Errorf("%s: forward traversal differs from container/list", where)
					}
				}
				if e != nil || x != nil {
					return fmt.Errorf("%s: forward traversal has another length than container/list", where)
				}
				e, x = l.Back(), ref.Back()
				for ; e != nil && x != nil; e, x = e.Prev(), x.Prev() {
					if e.Value != x.Value.(int) {
						return fmt.Errorf("%s: backward traversal differs from container/list", where)
					}
				}
				if e != nil || x != nil {
					return fmt.Errorf("%s: backward traversal has another length than container/list", where)
				}
			}
		}
	}
	r.ClassIf(c.Steps >= 30000, ">= 30000 operations on one list")
	r.ClassIf(c.Steps >= 30000 && c.Peak >= 300, "size wandering up to 300 elements over 30000 operations")
	r.NonTrivialIf(c.Steps >= 30000)
	return nil
}

func init() {
	pb.Register("list_long_run", pb.Options{Base: 12, Required: []string{">= 30000 operations on one list", "size wandering up to 300 elements over 30000 operations"},
		Rule: "3000 or 30000 PRNG-driven operations on one DList (push, InsertAfter, Remove by handle, MoveToFront/MoveToBack/MoveBefore; in lock step with container/list) or one SList (pushes incl. re-used removed nodes, InsertAt, Remove, RemoveFront, Swap; slice model), size kept below 3..300; oracle: returned values, Len and both ends after every call, full traversals every 1024 steps; non-trivial = 30000 operations"},
		genListLong, runListLong)
}
