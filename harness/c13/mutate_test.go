package c13

// Loop bodies that change the list they are ranging over (the container/list idiom "remove while walking").
// C13 does not say which elements such a loop still visits, so this check only demands what any reading demands:
// no panic, termination, every yielded value was an element at some time, and a consistent list afterwards.

import (
	"fmt"

	"github.com/welllog/golib/listz"
	"pgregory.net/rapid"

	"verif/harness/internal/pb"
)

type mutCase struct {
	Single bool // SList instead of DList
	N      int  // initial elements 1..N
	At     int  // the body acts when it sees the At-th element (0-based)
	Act    int  // 0 remove the last node, 1 remove the node after the current one, 2 remove the current node, 3 push back (3 times at most), 4 push front, 5 remove the first node
}

func genMut(t *rapid.T) mutCase {
	n := rapid.IntRange(1, 7).Draw(t, "n")
	return mutCase{Single: rapid.Bool().Draw(t, "single"), N: n, At: rapid.IntRange(0, n-1).Draw(t, "at"), Act: rapid.IntRange(0, 5).Draw(t, "act")}
}

func runMut(c mutCase, r *pb.Rec) error {
	if c.N < 1 || c.N > 64 || c.At < 0 || c.At >= c.N || c.Act < 0 || c.Act > 5 {
		return nil
	}
	where := fmt.Sprintf("list of %d elements, loop body acts (action %d) at element %d", c.N, c.Act, c.At)
	seenOK := func(v, pushed int) bool { return (v >= 1 && v <= c.N) || (v > 1000 && v <= 1000+pushed) }
	var yielded []int
	pushed := 0
	if c.Single {
		var l listz.SList[int]
		for i := 1; i <= c.N; i++ {
			l.PushBack(i)
		}
		perr := pb.Catch(func() {
			i := 0
			l.All()(func(v int) bool {
				yielded = append(yielded, v)
				if i == c.At {
					switch c.Act {
					case 0:
						l.Remove(l.Len() - 1)
					case 1:
						l.Remove(i + 1)
					case 2:
						l.Remove(i)
					case 3:
						if pushed < 3 {
							pushed++
							l.PushBack(1000 + pushed)
						}
					case 4:
						pushed++
						l.PushFront(1000 + pushed)
					case 5:
						l.RemoveFront()
					}
				}
				i++
				return len(yielded) < c.N+20
			})
		})
		if perr != nil {
			return fmt.Errorf("SList.All, %s: %v", where, perr)
		}
		n := 0
		for e := l.Front(); e != nil; e = e.Next() {
			if n++; n > c.N+10 {
				return fmt.Errorf("SList.All, %s: the list is cyclic afterwards", where)
			}
		}
		if n != l.Len() {
			return fmt.Errorf("SList.All, %s: afterwards Len = %d but the traversal has %d nodes", where, l.Len(), n)
		}
	} else {
		var l listz.DList[int]
		var nodes []*listz.DNode[int]
		for i := 1; i <= c.N; i++ {
			nodes = append(nodes, l.PushBack(i))
		}
		perr := pb.Catch(func() {
			i := 0
			l.All()(func(v int) bool {
				yielded = append(yielded, v)
				if i == c.At {
					switch c.Act {
					case 0:
						l.Remove(l.Back())
					case 1:
						if i+1 < len(nodes) {
							l.Remove(nodes[i+1])
						}
					case 2:
						l.Remove(nodes[i])
					case 3:
						if pushed < 3 {
							pushed++
							l.PushBack(1000 + pushed)
						}
					case 4:
						pushed++
						l.PushFront(1000 + pushed)
					case 5:
						l.Remove(l.Front())
					}
				}
				i++
				return len(yielded) < c.N+20
			})
		})
		if perr != nil {
			return fmt.Errorf("DList.All, %s: %v", where, perr)
		}
		n := 0
		for e := l.Front(); e != nil; e = e.Next() {
			if n++; n > c.N+10 {
				return fmt.Errorf("DList.All, %s: the list is cyclic afterwards", where)
			}
		}
		if n != l.Len() {
			return fmt.Errorf("DList.All, %s: afterwards Len = %d but the traversal has %d nodes", where, l.Len(), n)
		}
	}
	if len(yielded) >= c.N+20 {
		return fmt.Errorf("All, %s: the enumeration does not terminate (%d values yielded)", where, len(yielded))
	}
	for _, v := range yielded {
		if !seenOK(v, pushed) {
			return fmt.Errorf("All, %s: yielded %d, which never was an element", where, v)
		}
	}
	r.ClassIf(c.Act <= 2 || c.Act == 5, "loop body removes a node")
	r.ClassIf(c.Act == 0 && c.At < c.N-1, "last node removed before the loop reached it")
	r.NonTrivialIf(c.N >= 3)
	return nil
}

func init() {
	pb.Register("all_with_mutating_body", pb.Options{Base: 4000, Required: []string{"loop body removes a node", "last node removed before the loop reached it"},
		Rule: "DList and SList of 1..7 elements ranged with All() while the loop body, at a drawn position, removes the last / next / current / first node or pushes at either end; oracle (deliberately weak, see file comment): no panic, termination, only values that were elements at some time, Len equals the traversal afterwards; non-trivial = at least 3 elements"},
		genMut, runMut)
}
