// C09 — Secret-based encryption: round-trip, OpenSSL format, tamper evidence, chunking.
package c09

import (
	"bytes"
	"crypto/aes"
	"crypto/cipher"
	"crypto/md5"
	"encoding/base64"
	"encoding/hex"
	"encoding/json"
	"errors"
	"fmt"
	"io"
	"math/rand"
	"os/exec"
	"strings"
	"testing"

	"github.com/welllog/golib/cryptz"
	"pgregory.net/rapid"

	"verif/harness/internal/g"
	"verif/harness/internal/pb"
)

func TestMain(m *testing.M)   { pb.Main(m) }
func TestProps(t *testing.T)  { pb.RunProps(t) }
func TestReplay(t *testing.T) { pb.RunReplay(t) }

// ---- independent reference: EVP_BytesToKey(MD5, 1 round) producing 48 bytes (key 32 || iv 16)

func evpBytesToKey(secret, salt []byte) (key, iv []byte) {
	var d, prev []byte
	for len(d) < 48 {
		h := md5.New()
		h.Write(prev)
		h.Write(secret)
		h.Write(salt)
		prev = h.Sum(nil)
		d = append(d, prev...)
	}
	return d[:32], d[32:48]
}

func pkcs7Pad(d []byte) []byte {
	n := 16 - len(d)%16
	return append(append([]byte(nil), d...), bytes.Repeat([]byte{byte(n)}, n)...)
}

func pkcs7Unpad(d []byte) ([]byte, bool) {
	if len(d) == 0 || len(d)%16 != 0 {
		return nil, false
	}
	n := int(d[len(d)-1])
	if n < 1 || n > 16 {
		return nil, false
	}
	for _, b := range d[len(d)-n:] {
		if int(b) != n {
			return nil, false
		}
	}
	return d[:len(d)-n], true
}

// refEncryptCBC builds the raw OpenSSL "Salted__" message.
func refEncryptCBC(plain, secret, salt []byte) []byte {
	key, iv := evpBytesToKey(secret, salt)
	blk, _ := aes.NewCipher(key)
	p := pkcs7Pad(plain)
	ct := make([]byte, len(p))
	cipher.NewCBCEncrypter(blk, iv).CryptBlocks(ct, p)
	return append(append([]byte("Salted__"), salt...), ct...)
}

// refDecryptCBC decrypts a raw message; ok=false when a conforming decoder must reject it.
func refDecryptCBC(raw, secret []byte) ([]byte, bool) {
	if len(raw) < 32 || len(raw)%16 != 0 || string(raw[:8]) != "Salted__" {
		return nil, false
	}
	key, iv := evpBytesToKey(secret, raw[8:16])
	blk, _ := aes.NewCipher(key)
	pt := make([]byte, len(raw)-16)
	cipher.NewCBCDecrypter(blk, iv).CryptBlocks(pt, raw[16:])
	return pkcs7Unpad(pt)
}

func refGCM(secret, salt []byte) (cipher.AEAD, []byte) {
	key, iv := evpBytesToKey(secret, salt)
	blk, _ := aes.NewCipher(key)
	a, _ := cipher.NewGCM(blk)
	return a, iv[:12]
}

func secretGen(t *rapid.T) []byte {
	// lengths around the MD5 block boundaries of the key derivation input (16-byte digest + secret + 8-byte salt)
	n := rapid.OneOf(rapid.IntRange(0, 40), rapid.IntRange(0, 140), rapid.SampledFrom([]int{0, 1, 16, 31, 32, 39, 40, 41, 47, 48, 49, 55, 56, 57, 63, 64, 65, 103, 104, 119, 120, 128}),
		rapid.SampledFrom([]int{231, 232, 233, 239, 240, 241, 255, 256, 257, 300, 511, 512, 513, 1000, 4096, 70000}), rapid.IntRange(141, 700)).Draw(t, "slen")
	return g.BytesLen(n).Draw(t, "secret")
}

func plainGen(t *rapid.T, max int) []byte {
	n := rapid.OneOf(rapid.IntRange(0, max), rapid.SampledFrom([]int{0, 1, 15, 16, 17, 31, 32, 33})).Draw(t, "plen")
	return g.BytesLen(n).Draw(t, "plain")
}

// defined types satisfying the library's ~string | ~[]byte constraints: a caller's own string or byte-slice
// type must behave exactly like the predeclared one (same key derivation, same wire format).
type nstr string
type nbytes []byte

// churn runs n unrelated encryptions/decryptions with n different secrets (per-secret state kept by the
// library - caches of derived keys - is pushed far beyond any plausible size).
func churn(n int) {
	for i := 0; i < n; i++ {
		sec := []byte{byte(i), byte(i >> 8), 'c', 'h', 'u', 'r', 'n'}
		if e, err := cryptz.Encrypt("x", sec); err == nil {
			cryptz.Decrypt(e, sec)
		}
	}
}

// disturb makes successful and failing calls with other plaintexts of other lengths: whatever an
// earlier call returned must not change because of them (pooled or aliased buffers).
func disturb(n int) {
	for _, l := range []int{n, n + 13, 3} {
		other := bytes.Repeat([]byte{0xA5}, l)
		if e, err := cryptz.Encrypt(other, "disturb"); err == nil {
			cryptz.Decrypt(e, "disturb")
			cryptz.Decrypt(e, "another secret")
		}
		if e, err := cryptz.GCMEncrypt(other, "disturb", "aad"); err == nil {
			cryptz.GCMDecrypt(e, "disturb", "aad")
			cryptz.GCMDecrypt(e, "disturb", "other aad")
			cryptz.GCMDecrypt(e, "another secret", "aad")
		}
	}
}

// ---------------------------------------------------------------- CBC: round trip + format + interop

type cbcCase struct {
	Plain, Secret, Salt g.B
	StrForm             bool
}

func genCBC(t *rapid.T) cbcCase {
	return cbcCase{Plain: plainGen(t, 200), Secret: secretGen(t), Salt: g.BytesLen(8).Draw(t, "salt"), StrForm: rapid.Bool().Draw(t, "str")}
}

func runCBC(c cbcCase, r *pb.Rec) error {
	if len(c.Salt) != 8 {
		return nil
	}
	var enc []byte
	var err error
	// secret and plaintext are the two halves of one record in one array, the plaintext right behind the secret
	// (the secret's capacity reaches over it); the record has a neighbour behind it, too
	secret, plain, recIntact := packed(c.Secret, c.Plain)
	if c.StrForm {
		enc, err = cryptz.Encrypt(string(c.Plain), string(c.Secret))
	} else {
		enc, err = cryptz.Encrypt(plain, secret)
	}
	if err != nil {
		return fmt.Errorf("Encrypt: %v", err)
	}
	if !bytes.Equal(plain, c.Plain) || !bytes.Equal(secret, c.Secret) {
		return fmt.Errorf("Encrypt modified its arguments (secret and plaintext are neighbours in one array: secret %x, plaintext now %x, was %x)", secret, plain, c.Plain)
	}
	if e := recIntact(); e != nil {
		return fmt.Errorf("Encrypt: %v", e)
	}
	encKeep := string(enc)
	cryptz.Encrypt("another plaintext of another length", "another secret")
	if string(enc) != encKeep {
		return fmt.Errorf("the slice returned by Encrypt changed after a later Encrypt call")
	}
	raw, derr := base64.StdEncoding.DecodeString(string(enc))
	if derr != nil {
		return fmt.Errorf("Encrypt output is not standard base64: %v", derr)
	}
	if len(raw) != 16+len(c.Plain)/16*16+16 || string(raw[:8]) != "Salted__" {
		return fmt.Errorf("Encrypt output has wrong framing: % x", raw)
	}
	// (a) an independent OpenSSL-compatible decoder recovers the plaintext
	if pt, ok := refDecryptCBC(raw, c.Secret); !ok || !bytes.Equal(pt, c.Plain) {
		return fmt.Errorf("independent EVP_BytesToKey/AES-256-CBC decoder: ok=%v got %x want %x", ok, pt, c.Plain)
	}
	// exact bytes: the message equals the reference encryption under the salt the library chose
	if want := refEncryptCBC(c.Plain, c.Secret, raw[8:16]); !bytes.Equal(raw, want) {
		return fmt.Errorf("Encrypt output differs from reference encryption under its own salt")
	}
	// round trip through the library
	var dec []byte
	if c.StrForm {
		dec, err = cryptz.Decrypt(string(enc), string(c.Secret))
	} else {
		dec, err = cryptz.Decrypt(append([]byte(nil), enc...), secret)
		if !bytes.Equal(plain, c.Plain) || recIntact() != nil {
			return fmt.Errorf("Decrypt changed the caller's memory behind the secret (same array, beyond its length)")
		}
	}
	if err != nil || !bytes.Equal(dec, c.Plain) {
		return fmt.Errorf("Decrypt(Encrypt(p)) = %x, %v want %x", dec, err, c.Plain)
	}
	if !c.StrForm {
		buf := append([]byte(nil), enc...)
		for round := 0; round < 2; round++ {
			if d, e := cryptz.Decrypt(buf, secret); e != nil || !bytes.Equal(d, c.Plain) {
				return fmt.Errorf("Decrypt #%d of the same []byte message = %x, %v want %x (was the caller's buffer modified?)", round+1, d, e, c.Plain)
			}
		}
		if len(c.Secret) > 0 && len(c.Plain) > 0 {
			sb := append([]byte(nil), c.Secret...)
			enc2, e := cryptz.Encrypt(c.Plain, sb)
			if e != nil {
				return fmt.Errorf("Encrypt: %v", e)
			}
			sb[len(c.Plain)%len(sb)] ^= 0x41
			raw2, _ := base64.StdEncoding.DecodeString(string(enc2))
			want2, ok2 := refDecryptCBC(raw2, sb)
			d, e := cryptz.Decrypt(enc2, sb)
			if ok2 != (e == nil) || (ok2 && !bytes.Equal(d, want2)) {
				return fmt.Errorf("Decrypt after the secret buffer was changed in place: %x, %v; reference decoder with the new secret: %x, ok=%v (stale cached key?)", d, e, want2, ok2)
			}
		}
	}
	// (b) a message built independently (drawn salt) is accepted
	msg := base64.StdEncoding.EncodeToString(refEncryptCBC(c.Plain, c.Secret, c.Salt))
	dec2, err := cryptz.Decrypt(msg, c.Secret)
	if err != nil || !bytes.Equal(dec2, c.Plain) {
		return fmt.Errorf("Decrypt(reference message) = %x, %v want %x", dec2, err, c.Plain)
	}
	// (c) the same message the way `openssl enc -a` writes it: wrapped at 64 (or 76) columns, every line and the text
	// itself ended by a line break (LF or CRLF)
	for _, f := range []struct {
		cols int
		nl   string
	}{{64, "\n"}, {76, "\r\n"}, {64, "\r\n"}} {
		var wrapped strings.Builder
		for i := 0; i < len(msg); i += f.cols {
			wrapped.WriteString(msg[i:min(i+f.cols, len(msg))])
			wrapped.WriteString(f.nl)
		}
		if d, e := cryptz.Decrypt(wrapped.String(), c.Secret); e != nil || !bytes.Equal(d, c.Plain) {
			return fmt.Errorf("Decrypt of a reference message wrapped at %d columns with %q line ends (%d characters) = %x, %v want %x", f.cols, f.nl, wrapped.Len(), d, e, c.Plain)
		}
		if d, e := cryptz.Decrypt([]byte(wrapped.String()), c.Secret); e != nil || !bytes.Equal(d, c.Plain) {
			return fmt.Errorf("Decrypt of a reference message ([]byte) wrapped at %d columns with %q line ends = %x, %v want %x", f.cols, f.nl, d, e, c.Plain)
		}
	}
	r.ClassIf(len(msg) > 64, "reference message wrapped over several lines")
	// (d) the function applied to its own output: a ciphertext text is a plaintext like any other (same and other secret)
	if len(c.Plain)%4 == 1 {
		for _, outer := range [][]byte{c.Secret, append([]byte("outer"), c.Secret...)} {
			e2, err := cryptz.Encrypt(append([]byte(nil), enc...), outer)
			if err != nil {
				return fmt.Errorf("Encrypt(Encrypt(p,s), s'): %v", err)
			}
			raw2, derr := base64.StdEncoding.DecodeString(string(e2))
			if pt, ok := refDecryptCBC(raw2, outer); derr != nil || !ok || !bytes.Equal(pt, enc) {
				return fmt.Errorf("Encrypt applied to its own output %q (outer secret %x): the independent decoder gets %q, ok=%v, %v; want the inner text back", enc, outer, pt, ok, derr)
			}
			if d, e := cryptz.Decrypt(e2, outer); e != nil || !bytes.Equal(d, enc) {
				return fmt.Errorf("Decrypt(Encrypt(c, s'), s') with c itself a ciphertext text = %q, %v want %q", d, e, enc)
			}
		}
		r.Class("Encrypt applied to its own output")
	}
	// defined string/[]byte types for message and secret: same wire format (decoded by the reference with the
	// plain secret) and cross-type round trips
	if encN, e := cryptz.Encrypt(nbytes(c.Plain), nstr(c.Secret)); e != nil {
		return fmt.Errorf("Encrypt with defined types: %v", e)
	} else if rawN, e2 := base64.StdEncoding.DecodeString(string(encN)); e2 != nil {
		return fmt.Errorf("Encrypt with defined types: output is not base64")
	} else if pt, ok := refDecryptCBC(rawN, c.Secret); !ok || !bytes.Equal(pt, c.Plain) {
		return fmt.Errorf("Encrypt(plaintext of a defined []byte type, secret of a defined string type): the independent decoder with the same secret bytes gets %x, ok=%v, want %x (was the secret ignored?)", pt, ok, c.Plain)
	}
	if dN, e := cryptz.Decrypt(nstr(enc), nbytes(c.Secret)); e != nil || !bytes.Equal(dN, c.Plain) {
		return fmt.Errorf("Decrypt(message of a defined string type, secret of a defined []byte type) = %x, %v want %x", dN, e, c.Plain)
	}
	if len(c.Plain)%64 == 7 && len(c.Secret)%4 == 1 {
		// a message that is kept while 1500 other messages with other secrets are processed still decrypts (CBC, GCM, stream)
		gm, e1 := cryptz.GCMEncrypt(c.Plain, c.Secret, "held")
		var sm bytes.Buffer
		e2 := cryptz.EncryptStreamTo(&sm, bytes.NewReader(c.Plain), c.Secret)
		if e1 != nil || e2 != nil {
			return fmt.Errorf("GCMEncrypt/EncryptStreamTo: %v %v", e1, e2)
		}
		churn(1500)
		if d, e := cryptz.Decrypt(append([]byte(nil), enc...), c.Secret); e != nil || !bytes.Equal(d, c.Plain) {
			return fmt.Errorf("Decrypt of a message kept while 1500 other messages were processed = %x, %v want %x", d, e, c.Plain)
		}
		if d, e := cryptz.GCMDecrypt(gm, c.Secret, "held"); e != nil || !bytes.Equal(d, c.Plain) {
			return fmt.Errorf("GCMDecrypt of a message kept while 1500 other messages were processed = %x, %v want %x", d, e, c.Plain)
		}
		var out bytes.Buffer
		if e := cryptz.DecryptStreamTo(&out, bytes.NewReader(sm.Bytes()), c.Secret); e != nil || !bytes.Equal(out.Bytes(), c.Plain) {
			return fmt.Errorf("DecryptStreamTo of a stream kept while 1500 other messages were processed: %v (%d bytes, equal %v)", e, out.Len(), bytes.Equal(out.Bytes(), c.Plain))
		}
		r.Class("message kept across 1500 other derivations")
	}
	// results handed out earlier are the caller's: later calls must not change them
	disturb(len(c.Plain))
	if !bytes.Equal(dec, c.Plain) || !bytes.Equal(dec2, c.Plain) || string(enc) != encKeep {
		return fmt.Errorf("a result returned earlier by Encrypt/Decrypt changed after later calls: dec=%x dec2=%x want %x", dec, dec2, c.Plain)
	}
	r.ClassIf(len(c.Plain)%16 == 0, "block-aligned plaintext")
	r.ClassIf(len(c.Secret) == 0, "empty secret")
	r.NonTrivialIf(len(c.Plain) > 0)
	return nil
}

// ---------------------------------------------------------------- CBC: garbage / truncation differential

type garbCase struct {
	Kind   int // 0 raw garbage text, 1 valid header + garbage body, 2 truncation of a valid message, 3 one base64 char changed, 4 base64 of arbitrary raw
	Plain  g.B
	Secret g.B
	Text   g.B
	N      int
}

func genGarb(t *rapid.T) garbCase {
	c := garbCase{Kind: rapid.IntRange(0, 4).Draw(t, "kind"), Secret: secretGen(t), N: rapid.IntRange(0, 1<<16).Draw(t, "n")}
	switch c.Kind {
	case 0:
		c.Text = []byte(rapid.OneOf(rapid.StringMatching(`[A-Za-z0-9+/=]{0,80}`), rapid.StringMatching(`[0-9a-f]{0,80}`), rapid.String()).Draw(t, "text"))
	case 1:
		c.Text = g.BytesLen(rapid.SampledFrom([]int{0, 1, 15, 16, 17, 32, 48}).Draw(t, "blen")).Draw(t, "body")
	case 4:
		c.Text = g.BytesLen(rapid.IntRange(0, 70).Draw(t, "rlen")).Draw(t, "raw")
		if len(c.Text) >= 8 && rapid.Bool().Draw(t, "magic") {
			copy(c.Text, "Salted__")
		}
	default:
		c.Plain = plainGen(t, 60)
	}
	return c
}

func runGarb(c garbCase, r *pb.Rec) error {
	var text []byte
	switch c.Kind {
	case 0:
		text = c.Text
	case 1:
		text = []byte(base64.StdEncoding.EncodeToString(append([]byte("Salted__12345678"), c.Text...)))
	case 4:
		text = []byte(base64.StdEncoding.EncodeToString(c.Text))
	case 2:
		full := base64.StdEncoding.EncodeToString(refEncryptCBC(c.Plain, c.Secret, []byte("saltsalt")))
		text = []byte(full[:c.N%(len(full)+1)])
	case 3:
		full := []byte(base64.StdEncoding.EncodeToString(refEncryptCBC(c.Plain, c.Secret, []byte("saltsalt"))))
		full[c.N%len(full)] = "ABCDEFGHIJKLMNOPQRSTUVWXYZabcdefghijklmnopqrstuvwxyz0123456789+/=-"[(c.N/len(full))%66]
		text = full
	}
	in := append([]byte(nil), text...)
	got, err := cryptz.Decrypt(in, c.Secret)
	if _, err2 := cryptz.Decrypt(string(text), string(c.Secret)); (err2 == nil) != (err == nil) {
		return fmt.Errorf("Decrypt differs between string and []byte form on %q", text)
	}
	var want []byte
	ok := false
	if raw, e := base64.StdEncoding.DecodeString(string(text)); e == nil {
		want, ok = refDecryptCBC(raw, c.Secret)
	}
	if ok != (err == nil) {
		return fmt.Errorf("Decrypt(%q): err=%v, reference decoder ok=%v", text, err, ok)
	}
	if ok && !bytes.Equal(got, want) {
		return fmt.Errorf("Decrypt(%q) = %x, reference %x", text, got, want)
	}
	r.ClassIf(c.Kind == 1 || (c.Kind == 4 && len(c.Text) >= 8 && string(c.Text[:8]) == "Salted__"), "garbage passes the header check")
	r.ClassIf(c.Kind == 2, "truncated message")
	r.ClassIf(ok, "accepted by both")
	r.NonTrivialIf(len(text) > 0)
	return nil
}

// ---------------------------------------------------------------- GCM envelope

type gcmCase struct {
	Plain, Secret, AAD, Salt g.B
	StrForm                  bool
	Corrupt                  int // 0 none, 1 flip a bit of a decoded byte, 2 other secret, 3 other aad, 4 truncate hex text, 5 garbage
	N                        int
	Garbage                  g.B
}

func genGCM(t *rapid.T) gcmCase {
	c := gcmCase{Plain: plainGen(t, 120), Secret: secretGen(t), AAD: g.BytesLen(rapid.IntRange(0, 40).Draw(t, "alen")).Draw(t, "aad"), Salt: g.BytesLen(8).Draw(t, "salt"),
		StrForm: rapid.Bool().Draw(t, "str"), Corrupt: rapid.IntRange(0, 7).Draw(t, "corrupt"), N: rapid.IntRange(0, 1<<24).Draw(t, "n")}
	if c.Corrupt == 5 {
		c.Garbage = []byte(rapid.OneOf(rapid.StringMatching(`[0-9a-fA-F]{0,100}`), rapid.String(), rapid.StringMatching(`53616c7465645f5f[0-9a-f]{0,80}`)).Draw(t, "garbage"))
	}
	return c
}

func runGCM(c gcmCase, r *pb.Rec) error {
	if len(c.Salt) != 8 {
		return nil
	}
	var enc []byte
	var err error
	if c.StrForm {
		enc, err = cryptz.GCMEncrypt(string(c.Plain), string(c.Secret), string(c.AAD))
	} else {
		sec, aadW, recIntact := packed(c.Secret, c.AAD)
		pl, _, plIntact := packed(c.Plain, nil)
		enc, err = cryptz.GCMEncrypt(pl, sec, aadW)
		if !bytes.Equal(sec, c.Secret) || !bytes.Equal(aadW, c.AAD) || !bytes.Equal(pl, c.Plain) {
			return fmt.Errorf("GCMEncrypt modified its arguments (secret and additional data are neighbours in one array)")
		}
		for _, f := range []func() error{recIntact, plIntact} {
			if e := f(); e != nil {
				return fmt.Errorf("GCMEncrypt: %v", e)
			}
		}
	}
	if err != nil {
		return fmt.Errorf("GCMEncrypt: %v", err)
	}
	raw, derr := hex.DecodeString(string(enc))
	if derr != nil || len(raw) != 16+len(c.Plain)+16 || string(raw[:8]) != "Salted__" {
		return fmt.Errorf("GCMEncrypt output framing wrong: %q (%v)", enc, derr)
	}
	// independent decoder
	a, nonce := refGCM(c.Secret, raw[8:16])
	if pt, e := a.Open(nil, nonce, raw[16:], c.AAD); e != nil || !bytes.Equal(pt, c.Plain) {
		return fmt.Errorf("independent AES-256-GCM decoder failed: %v", e)
	}
	secret, aad, msg := append([]byte(nil), c.Secret...), append([]byte(nil), c.AAD...), append([]byte(nil), enc...)
	field := ""
	switch c.Corrupt {
	case 1:
		i := c.N % len(raw)
		raw2 := append([]byte(nil), raw...)
		raw2[i] ^= 1 << uint((c.N/len(raw))%8)
		msg = []byte(hex.EncodeToString(raw2))
		switch {
		case i < 8:
			field = "magic byte flipped"
		case i < 16:
			field = "salt byte flipped"
		case i < len(raw)-16:
			field = "ciphertext byte flipped"
		default:
			field = "tag byte flipped"
		}
	case 2:
		secret = append(secret, byte(c.N))
		if c.N%2 == 0 && len(c.Secret) > 0 {
			secret = append([]byte(nil), c.Secret...)
			secret[c.N%len(secret)] ^= 0x20
		}
	case 3:
		aad = append(aad, byte(c.N))
		if c.N%2 == 0 && len(c.AAD) > 0 {
			aad = append([]byte(nil), c.AAD...)
			aad[c.N%len(aad)] ^= 0x01
		}
	case 4:
		msg = msg[:c.N%len(msg)]
	case 5:
		msg = c.Garbage
	case 6:
		// one character of the hex text replaced by an arbitrary byte value (the other case of the same digit is the
		// same message; everything else is not)
		msg[c.N%len(msg)] = byte(c.N >> 8)
	case 7:
		// an even-length prefix of valid hex followed by one character that is not a hex digit (odd length)
		k := (c.N % (len(msg)/2 + 1)) * 2
		msg = append(append([]byte(nil), msg[:k]...), []byte("zG/:@`\x00\xff \n")[(c.N>>8)%10])
	}
	var dec []byte
	if c.StrForm {
		dec, err = cryptz.GCMDecrypt(string(msg), string(secret), string(aad))
	} else {
		dec, err = cryptz.GCMDecrypt(msg, secret, aad)
	}
	switch c.Corrupt {
	case 0:
		if err != nil || !bytes.Equal(dec, c.Plain) {
			return fmt.Errorf("GCMDecrypt(GCMEncrypt(p)) = %x, %v want %x", dec, err, c.Plain)
		}
		if !c.StrForm {
			// the caller's buffers stay the caller's: the same message buffer decrypts again ...
			buf := append([]byte(nil), enc...)
			for round := 0; round < 2; round++ {
				if d, e := cryptz.GCMDecrypt(buf, c.Secret, c.AAD); e != nil || !bytes.Equal(d, c.Plain) {
					return fmt.Errorf("GCMDecrypt #%d of the same []byte message = %x, %v want %x (was the caller's buffer modified?)", round+1, d, e, c.Plain)
				}
			}
			// ... and a secret buffer changed in place afterwards is a different secret
			if len(c.Secret) > 0 {
				sb := append([]byte(nil), c.Secret...)
				enc2, e := cryptz.GCMEncrypt(c.Plain, sb, c.AAD)
				if e != nil {
					return fmt.Errorf("GCMEncrypt: %v", e)
				}
				if d, e := cryptz.GCMDecrypt(append([]byte(nil), enc2...), sb, c.AAD); e != nil || !bytes.Equal(d, c.Plain) {
					return fmt.Errorf("GCMDecrypt with the same secret buffer = %x, %v", d, e)
				}
				sb[c.N%len(sb)] ^= 0x41
				if _, e := cryptz.GCMDecrypt(append([]byte(nil), enc2...), sb, c.AAD); e == nil {
					return fmt.Errorf("GCMDecrypt succeeded although the secret buffer was changed in place after the previous call (stale cached key?)")
				}
				r.Class("secret buffer mutated in place")
			}
		}
		// upper-case hex is the same decoded message
		if dec2, e2 := cryptz.GCMDecrypt(bytes.ToUpper(enc), c.Secret, c.AAD); e2 != nil || !bytes.Equal(dec2, c.Plain) {
			return fmt.Errorf("GCMDecrypt of upper-case hex failed: %v", e2)
		}
		// interop: independently built message
		a2, n2 := refGCM(c.Secret, c.Salt)
		m2 := hex.EncodeToString(append(append([]byte("Salted__"), c.Salt...), a2.Seal(nil, n2, c.Plain, c.AAD)...))
		dec2, e2 := cryptz.GCMDecrypt(m2, c.Secret, c.AAD)
		if e2 != nil || !bytes.Equal(dec2, c.Plain) {
			return fmt.Errorf("GCMDecrypt(reference message) = %x, %v", dec2, e2)
		}
		// defined string/[]byte types for every argument
		if encN, e := cryptz.GCMEncrypt(nstr(c.Plain), nbytes(c.Secret), nstr(c.AAD)); e != nil {
			return fmt.Errorf("GCMEncrypt with defined types: %v", e)
		} else if rawN, e2 := hex.DecodeString(string(encN)); e2 != nil || len(rawN) < 32 {
			return fmt.Errorf("GCMEncrypt with defined types: output framing wrong")
		} else {
			aN, nonceN := refGCM(c.Secret, rawN[8:16])
			if pt, e3 := aN.Open(nil, nonceN, rawN[16:], c.AAD); e3 != nil || !bytes.Equal(pt, c.Plain) {
				return fmt.Errorf("GCMEncrypt with arguments of defined string/[]byte types: the independent decoder with the same secret and additional data fails: %v (were they ignored?)", e3)
			}
		}
		if dN, e := cryptz.GCMDecrypt(nbytes(enc), nstr(c.Secret), nbytes(c.AAD)); e != nil || !bytes.Equal(dN, c.Plain) {
			return fmt.Errorf("GCMDecrypt with arguments of defined types = %x, %v want %x", dN, e, c.Plain)
		}
		if _, e := cryptz.GCMDecrypt(nbytes(enc), nstr(string(c.Secret)+"x"), nbytes(c.AAD)); e == nil {
			return fmt.Errorf("GCMDecrypt accepted another secret passed as a defined string type")
		}
		// results handed out earlier are the caller's: later calls (other plaintexts, rejected messages) must not change them
		encKeep := string(enc)
		disturb(len(c.Plain))
		if !bytes.Equal(dec, c.Plain) || !bytes.Equal(dec2, c.Plain) || string(enc) != encKeep {
			return fmt.Errorf("a result returned earlier by GCMEncrypt/GCMDecrypt changed after later calls: dec=%x dec2=%x want %x", dec, dec2, c.Plain)
		}
		r.Class("earlier results re-read after later calls")
	case 5, 6, 7:
		// garbage: must agree with the reference decoder (error, or — astronomically unlikely — the same plaintext)
		ok := false
		if rw, e := hex.DecodeString(string(msg)); e == nil && len(rw) >= 32 && string(rw[:8]) == "Salted__" {
			a3, n3 := refGCM(secret, rw[8:16])
			_, e3 := a3.Open(nil, n3, rw[16:], aad)
			ok = e3 == nil
		}
		if ok != (err == nil) {
			return fmt.Errorf("GCMDecrypt(%q): err=%v, reference ok=%v", msg, err, ok)
		}
	default:
		if err == nil {
			return fmt.Errorf("GCMDecrypt accepted a message with corruption kind %d (%s)", c.Corrupt, field)
		}
	}
	r.ClassIf(field != "", field)
	r.ClassIf(c.Corrupt == 2, "secret differs")
	r.ClassIf(c.Corrupt == 3, "aad differs")
	r.ClassIf(c.Corrupt == 4, "truncated")
	r.ClassIf(c.Corrupt == 6, "one hex character replaced by an arbitrary byte")
	r.ClassIf(c.Corrupt == 7, "odd length ending in a non-hex character")
	r.NonTrivialIf(c.Corrupt != 0)
	return nil
}

// ---------------------------------------------------------------- streams: chunking and faults

var errInjected = errors.New("injected I/O fault")

type planReader struct {
	data     []byte
	plan     []int // chunk sizes; 0 = a (0, nil) read
	eofJoin  bool  // deliver io.EOF together with the last data
	failAt   int   // inject an error once this many bytes were delivered (-1: never)
	done     int
	zeroRuns int
	injected bool
}

func (p *planReader) Read(b []byte) (int, error) {
	if p.failAt >= 0 && p.done >= p.failAt {
		p.injected = true
		return 0, errInjected
	}
	if len(p.data) == 0 {
		return 0, io.EOF
	}
	n := len(b)
	if len(p.plan) > 0 {
		n = p.plan[0]
		p.plan = p.plan[1:]
		if n == 0 {
			p.zeroRuns++
			if p.zeroRuns <= 3 { // bounded: a reader may return (0,nil) occasionally, not forever
				return 0, nil
			}
			n = 1
		}
		if n > len(b) {
			n = len(b)
		}
	}
	if n > len(p.data) {
		n = len(p.data)
	}
	if p.failAt >= 0 && p.done+n > p.failAt {
		n = p.failAt - p.done
		copy(b, p.data[:n])
		p.data = p.data[n:]
		p.done += n
		p.injected = true
		return n, errInjected // data together with the error
	}
	copy(b, p.data[:n])
	p.data = p.data[n:]
	p.done += n
	if len(p.data) == 0 && p.eofJoin {
		return n, io.EOF
	}
	return n, nil
}

type planWriter struct {
	buf      bytes.Buffer
	chunks   []int
	failAt   int
	injected bool
}

func (w *planWriter) Write(b []byte) (int, error) {
	w.chunks = append(w.chunks, len(b))
	if w.failAt >= 0 && w.buf.Len()+len(b) > w.failAt {
		n := w.failAt - w.buf.Len()
		w.buf.Write(b[:n])
		w.injected = true
		return n, errInjected
	}
	return w.buf.Write(b)
}

type streamCase struct {
	Plain, Secret      g.B
	EncPlan, DecPlan   []int
	EncEOF, DecEOF     bool
	FaultSide, FaultAt int // side: 0 none, 1 enc reader, 2 enc writer, 3 dec reader, 4 dec writer
	StrSecret          bool
	Direct             int // bit 0: plaintext comes from a *bytes.Reader (io.WriterTo: one Write with everything), bit 1: ciphertext goes to a *bytes.Buffer (io.ReaderFrom), bits 2, 3: the same for decryption
}

func genStream(t *rapid.T) streamCase {
	plan := func(label string) []int {
		return rapid.SliceOfN(rapid.OneOf(rapid.SampledFrom([]int{0, 1, 1, 2, 7, 8, 15, 16, 17, 24}), rapid.IntRange(0, 64)), 0, 12).Draw(t, label)
	}
	pl := plainGen(t, 200)
	if rapid.IntRange(0, 24).Draw(t, "large") == 0 {
		// around the 32 KiB buffer of io.Copy and beyond
		pl = g.BytesLen(rapid.SampledFrom([]int{32767, 32768, 32769, 65536, 70001}).Draw(t, "largeLen")).Draw(t, "largePlain")
	}
	c := streamCase{Plain: pl, Secret: secretGen(t), EncPlan: plan("encPlan"), DecPlan: plan("decPlan"),
		EncEOF: rapid.Bool().Draw(t, "encEOF"), DecEOF: rapid.Bool().Draw(t, "decEOF"), StrSecret: rapid.Bool().Draw(t, "strSecret")}
	if rapid.IntRange(0, 2).Draw(t, "oneByte") == 0 {
		c.DecPlan = make([]int, len(c.Plain)+16)
		for i := range c.DecPlan {
			c.DecPlan[i] = 1
		}
	}
	c.Direct = rapid.SampledFrom([]int{0, 0, 0, 1, 2, 4, 8, 5, 15, 3, 12}).Draw(t, "direct")
	if rapid.IntRange(0, 2).Draw(t, "fault") == 0 {
		c.FaultSide = rapid.IntRange(1, 4).Draw(t, "side")
		c.FaultAt = rapid.IntRange(0, len(c.Plain)+17).Draw(t, "at")
	}
	return c
}

// packed lays a and b out as neighbours in one array: a's capacity reaches over b and over a few bytes behind b
// that the caller still owns. intact reports whether those bytes are unchanged.
func packed(a, b []byte) (wa, wb []byte, intact func() error) {
	const tail = "\x00owned by the caller"
	whole := append(append(append(make([]byte, 0, len(a)+len(b)+len(tail)), a...), b...), tail...)
	wa, wb = whole[:len(a)], whole[len(a):len(a)+len(b):len(a)+len(b)]
	return wa, wb, func() error {
		if string(whole[len(a)+len(b):]) != tail {
			return fmt.Errorf("the bytes behind the arguments (same array, owned by the caller) were changed to %q", whole[len(a)+len(b):])
		}
		return nil
	}
}

func encStream(w io.Writer, rd io.Reader, secret []byte, str bool) error {
	if !str {
		sec, neighbour, intact := packed(secret, []byte("neighbour"))
		defer func() {
			if string(neighbour) != "neighbour" || intact() != nil {
				panic("EncryptStreamTo changed the caller's memory behind the secret (same array, beyond its length)")
			}
		}()
		secret = sec
	}
	if str && len(secret)%2 == 1 {
		return cryptz.EncryptStreamTo(w, rd, nstr(secret)) // a defined string type
	}
	if str {
		return cryptz.EncryptStreamTo(w, rd, string(secret))
	}
	return cryptz.EncryptStreamTo(w, rd, secret)
}

func decStream(w io.Writer, rd io.Reader, secret []byte, str bool) error {
	if !str {
		sec, neighbour, intact := packed(secret, []byte("neighbour"))
		defer func() {
			if string(neighbour) != "neighbour" || intact() != nil {
				panic("DecryptStreamTo changed the caller's memory behind the secret (same array, beyond its length)")
			}
		}()
		secret = sec
	}
	if !str && len(secret)%2 == 1 {
		return cryptz.DecryptStreamTo(w, rd, nbytes(secret)) // a defined []byte type
	}
	if str {
		return cryptz.DecryptStreamTo(w, rd, string(secret))
	}
	return cryptz.DecryptStreamTo(w, rd, secret)
}

func runStream(c streamCase, r *pb.Rec) error {
	fa := func(side int) int {
		if c.FaultSide == side {
			return c.FaultAt
		}
		return -1
	}
	er := &planReader{data: append([]byte(nil), c.Plain...), plan: append([]int(nil), c.EncPlan...), eofJoin: c.EncEOF, failAt: fa(1)}
	ew := &planWriter{failAt: fa(2)}
	var encSrc io.Reader = er
	var encDst io.Writer = ew
	var encBuf bytes.Buffer
	if c.Direct&1 != 0 && c.FaultSide != 1 {
		encSrc = bytes.NewReader(append([]byte(nil), c.Plain...)) // io.Copy hands the whole plaintext to one Write
	}
	if c.Direct&2 != 0 && c.FaultSide != 2 {
		encDst = &encBuf
	}
	err := encStream(encDst, encSrc, c.Secret, c.StrSecret)
	if c.FaultSide == 1 || c.FaultSide == 2 {
		hit := er.injected || ew.injected
		if hit && err == nil {
			return fmt.Errorf("EncryptStreamTo swallowed an injected I/O fault (side %d at %d, plain %d bytes)", c.FaultSide, c.FaultAt, len(c.Plain))
		}
		if !hit && err != nil {
			return fmt.Errorf("EncryptStreamTo failed without a fault: %v", err)
		}
		r.Class("I/O fault during encryption")
		r.NonTrivial()
		if hit {
			return nil
		}
	} else if err != nil {
		return fmt.Errorf("EncryptStreamTo: %v", err)
	}
	ct := ew.buf.Bytes()
	if encDst != io.Writer(ew) {
		ct = encBuf.Bytes()
	}
	if len(ct) != 16+len(c.Plain) || string(ct[:8]) != "Salted__" {
		return fmt.Errorf("stream framing wrong: %d bytes for %d plaintext bytes, header %q", len(ct), len(c.Plain), ct[:min(8, len(ct))])
	}
	key, iv := evpBytesToKey(c.Secret, ct[8:16])
	blk, _ := aes.NewCipher(key)
	want := make([]byte, len(c.Plain))
	cipher.NewCTR(blk, iv).XORKeyStream(want, c.Plain)
	if !bytes.Equal(ct[16:], want) {
		return fmt.Errorf("stream body is not AES-256-CTR under the EVP_BytesToKey key/iv")
	}
	dr := &planReader{data: append([]byte(nil), ct...), plan: append([]int(nil), c.DecPlan...), eofJoin: c.DecEOF, failAt: fa(3)}
	dw := &planWriter{failAt: fa(4)}
	var decSrc io.Reader = dr
	var decDst io.Writer = dw
	var decBuf bytes.Buffer
	if c.Direct&4 != 0 && c.FaultSide != 3 {
		decSrc = bytes.NewReader(append([]byte(nil), ct...))
	}
	if c.Direct&8 != 0 && c.FaultSide != 4 {
		decDst = &decBuf
	}
	err = decStream(decDst, decSrc, c.Secret, c.StrSecret)
	if c.FaultSide == 3 || c.FaultSide == 4 {
		hit := dr.injected || dw.injected
		if hit && err == nil {
			return fmt.Errorf("DecryptStreamTo swallowed an injected I/O fault (side %d at %d, ct %d bytes)", c.FaultSide, c.FaultAt, len(ct))
		}
		if !hit && err != nil {
			return fmt.Errorf("DecryptStreamTo failed without a fault: %v", err)
		}
		r.Class("I/O fault during decryption")
		r.NonTrivial()
		if hit {
			return nil
		}
	} else if err != nil {
		return fmt.Errorf("DecryptStreamTo(plan %v, eofWithData %v): %v", c.DecPlan, c.DecEOF, err)
	}
	got := dw.buf.Bytes()
	if decDst != io.Writer(dw) {
		got = decBuf.Bytes()
	}
	if !bytes.Equal(got, c.Plain) {
		i := 0
		for i < len(got) && i < len(c.Plain) && got[i] == c.Plain[i] {
			i++
		}
		return fmt.Errorf("DecryptStreamTo(EncryptStreamTo(p)) differs from p at byte %d (%d bytes returned, %d expected; direct-mode bits %d)", i, len(got), len(c.Plain), c.Direct)
	}
	r.ClassIf(c.Direct != 0 && len(c.Plain) > 32768, "more than 32 KiB handed over in one Write/ReadFrom")
	short := false
	sum := 0
	for _, n := range c.DecPlan {
		if sum < 16 && sum+n < 16 {
			short = true
		}
		sum += n
		if sum >= 16 {
			break
		}
	}
	short = short && len(c.DecPlan) > 0 && c.DecPlan[0] < 16
	r.ClassIf(len(c.Plain) > 32000, "plaintext larger than the copy buffer")
	r.ClassIf(short, "short header read")
	r.ClassIf(len(c.DecPlan) > 0 && c.DecPlan[0] == 0, "(0,nil) first read")
	eofData := c.DecEOF && len(c.Plain) == 0 && (len(c.DecPlan) == 0 || c.DecPlan[0] >= 16)
	r.ClassIf(eofData, "header arrives with EOF")
	r.ClassIf(c.DecEOF, "EOF with data")
	r.NonTrivialIf(short || c.DecEOF)
	return nil
}

// truncated / garbage streams
type badStreamCase struct {
	Data   g.B
	Secret g.B
	Plan   []int
}

func genBadStream(t *rapid.T) badStreamCase {
	d := g.BytesLen(rapid.IntRange(0, 40).Draw(t, "n")).Draw(t, "data")
	if len(d) >= 8 && rapid.Bool().Draw(t, "magic") {
		copy(d, "Salted__")
	}
	return badStreamCase{Data: d, Secret: secretGen(t), Plan: rapid.SliceOfN(rapid.IntRange(0, 20), 0, 6).Draw(t, "plan")}
}

func runBadStream(c badStreamCase, r *pb.Rec) error {
	var out bytes.Buffer
	err := cryptz.DecryptStreamTo(&out, &planReader{data: append([]byte(nil), c.Data...), plan: append([]int(nil), c.Plan...), failAt: -1}, c.Secret)
	wellFormed := len(c.Data) >= 16 && string(c.Data[:8]) == "Salted__"
	if !wellFormed && err == nil {
		return fmt.Errorf("DecryptStreamTo accepted a stream without a complete Salted__ header: %x", c.Data)
	}
	if wellFormed && err != nil {
		return fmt.Errorf("DecryptStreamTo rejected a well-framed stream: %v", err)
	}
	r.ClassIf(len(c.Data) < 16, "truncated header")
	r.NonTrivialIf(len(c.Data) > 0)
	return nil
}

// ---------------------------------------------------------------- openssl cross-check (thorough tier, optional binary)

func TestOpenSSL(t *testing.T) {
	st := pb.Stats("openssl_crosscheck")
	st.SetRule("messages exchanged in both directions with `openssl enc -aes-256-cbc -md md5 -a -A -pass pass:<secret>` (printable secrets, arbitrary plaintext); every message counts as non-trivial")
	bin, err := exec.LookPath("openssl")
	if err != nil {
		st.Note("openssl binary not present: cross-check skipped")
		t.Skip("no openssl")
	}
	rng := rand.New(rand.NewSource(int64(pb.Seed("openssl"))))
	n := pb.Scaled(20)
	for i := 0; i < n; i++ {
		plain := make([]byte, rng.Intn(100))
		rng.Read(plain)
		sec := make([]byte, 1+rng.Intn(20))
		for j := range sec {
			sec[j] = "abcdefghijklmnopqrstuvwxyzABCDEFGHIJKLMNOPQRSTUVWXYZ0123456789_-+=.,"[rng.Intn(68)]
		}
		rec := &pb.Rec{}
		rec.NonTrivial()
		// library -> openssl
		enc, err := cryptz.Encrypt(plain, sec)
		if err != nil {
			t.Fatal(err)
		}
		cmd := exec.Command(bin, "enc", "-d", "-aes-256-cbc", "-md", "md5", "-a", "-A", "-pass", "pass:"+string(sec))
		cmd.Stdin = bytes.NewReader(enc)
		out, err := cmd.Output()
		js, _ := json.Marshal(map[string]any{"plain": plain, "secret": string(sec)})
		if err != nil || !bytes.Equal(out, plain) {
			st.Violation("openssl", js, fmt.Errorf("openssl could not decrypt the library's output: %v (%x vs %x)", err, out, plain))
			t.Fatalf("openssl -d failed: %v", err)
		}
		// openssl -> library
		cmd = exec.Command(bin, "enc", "-aes-256-cbc", "-md", "md5", "-a", "-A", "-pass", "pass:"+string(sec))
		cmd.Stdin = bytes.NewReader(plain)
		msg, err := cmd.Output()
		if err != nil {
			st.Note("openssl enc failed: %v", err)
			t.Skip("openssl enc unusable")
		}
		dec, err := cryptz.Decrypt(bytes.TrimSpace(msg), sec)
		if err != nil || !bytes.Equal(dec, plain) {
			st.Violation("openssl", js, fmt.Errorf("library could not decrypt openssl's output %q: %v", msg, err))
			t.Fatalf("Decrypt(openssl) failed: %v", err)
		}
		st.Case(js, rec)
	}
}

// ---------------------------------------------------------------- native fuzz of the decrypt entry points (thorough)

func FuzzDecrypt(f *testing.F) {
	f.Add([]byte("U2FsdGVkX18xMjM0NTY3OGFiY2RlZmdoaWprbG1ub3A="), []byte("k"))
	f.Add([]byte("U2FsdGVkX18="), []byte(""))
	f.Add([]byte("53616c7465645f5f3132333435363738"), []byte("k"))
	f.Add([]byte("Salted__12345678................"), []byte("k"))
	f.Add([]byte(""), []byte(""))
	f.Fuzz(func(t *testing.T, msg, secret []byte) {
		if err := runGarb(garbCase{Kind: 0, Text: msg, Secret: secret}, nil); err != nil {
			t.Fatal(err)
		}
		if err := runGCM(gcmCase{Plain: []byte("x"), Secret: secret, Salt: []byte("saltsalt"), Corrupt: 5, Garbage: msg}, nil); err != nil {
			t.Fatal(err)
		}
		if err := runBadStream(badStreamCase{Data: msg, Secret: secret}, nil); err != nil {
			t.Fatal(err)
		}
		// raw (un-encoded) entry points
		pb1 := append([]byte(nil), msg...)
		if _, err := cryptz.SaltBySecretCBCDecrypt(pb1, secret, len(secret)%2 == 0); err == nil {
			if _, ok := refDecryptCBC(msg, secret); !ok {
				t.Fatalf("SaltBySecretCBCDecrypt accepted %x", msg)
			}
		}
		pb2 := append([]byte(nil), msg...)
		cryptz.SaltBySecretGCMDecrypt(pb2, secret, []byte(nil), len(secret)%2 == 0)
	})
}

func init() {
	pb.Register("cbc_roundtrip_format", pb.Options{Twins: 3, Base: 4000, Required: []string{"block-aligned plaintext", "empty secret", "message kept across 1500 other derivations"},
		Rule: "plaintext 0..200 bytes, secret 0..140 bytes (biased to the MD5 block boundaries of the derivation input) (string and []byte forms), drawn salt; oracles: independent EVP_BytesToKey(MD5,1)+AES-256-CBC+PKCS#7 decoder recovers p from the library's output, exact ciphertext equality under the library's salt, Decrypt(Encrypt(p))=p, library decrypts an independently built message; non-trivial = non-empty plaintext"},
		genCBC, runCBC)
	pb.Register("cbc_garbage", pb.Options{Base: 8000, Required: []string{"garbage passes the header check", "truncated message", "accepted by both"},
		Rule: "arbitrary text (base64/hex-looking/any), valid header + garbage body, every truncation length and single-character changes of valid messages, base64 of arbitrary raw bytes; oracle: Decrypt errors <=> the reference decoder rejects, equal plaintext otherwise, never a panic; non-trivial = non-empty input"},
		genGarb, runGarb)
	pb.Register("gcm_envelope", pb.Options{Twins: 3, Base: 5000, Required: []string{"magic byte flipped", "salt byte flipped", "ciphertext byte flipped", "tag byte flipped", "secret differs", "aad differs", "truncated", "one hex character replaced by an arbitrary byte", "odd length ending in a non-hex character", "secret buffer mutated in place"},
		Rule: "GCM round trip and interop with an independent builder; corruption applied at the decoded-byte level (bit flip in magic/salt/ciphertext/tag), different secret, different AAD, truncated hex text, garbage; oracle: decrypt fails for every difference; non-trivial = corruption case"},
		genGCM, runGCM)
	pb.Register("stream", pb.Options{Twins: 3, Base: 5000, Required: []string{"plaintext larger than the copy buffer", "more than 32 KiB handed over in one Write/ReadFrom", "short header read", "EOF with data", "header arrives with EOF", "(0,nil) first read", "I/O fault during encryption", "I/O fault during decryption"},
		Rule: "EncryptStreamTo/DecryptStreamTo through readers following drawn chunk plans (1-byte reads, 15/16/17-byte first chunk, (0,nil) reads, data+EOF together) or *bytes.Reader / *bytes.Buffer (io.WriterTo / io.ReaderFrom: everything in one call) and recording writers; injected I/O errors at a drawn byte on each of the four sides; oracles: header+AES-256-CTR reference, round trip equality, fault => error (never a panic), no fault => success; non-trivial = first read < 16 bytes or EOF delivered with data or fault"},
		genStream, runStream)
	pb.Register("stream_bad", pb.Options{Base: 3000, Required: []string{"truncated header"},
		Rule: "DecryptStreamTo over arbitrary/truncated streams 0..40 bytes under chunk plans; oracle error <=> no complete Salted__ header; non-trivial = non-empty"},
		genBadStream, runBadStream)
}
