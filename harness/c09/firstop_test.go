package c09

// Each entry point as the very first use of package cryptz in a fresh process (see pb.FirstOps): a consumer that
// only ever decrypts must work as well as one that encrypted before.

import (
	"bytes"
	"encoding/base64"
	"encoding/hex"
	"fmt"
	"testing"

	"crypto/aes"
	"crypto/cipher"

	"github.com/welllog/golib/cryptz"

	"verif/harness/internal/pb"
)

func TestFirstOps(t *testing.T) {
	secret := []byte("first-op secret")
	salt := []byte("saltsalt")
	plains := [][]byte{[]byte(""), []byte("x"), []byte("0123456789abcdef"), []byte("hello, world of 21 b.")}
	ops := map[string]func() error{
		"Decrypt (messages built by the reference)": func() error {
			for _, p := range plains {
				msg := base64.StdEncoding.EncodeToString(refEncryptCBC(p, secret, salt))
				if d, err := cryptz.Decrypt(msg, secret); err != nil || !bytes.Equal(d, p) {
					return fmt.Errorf("Decrypt(reference message for %q) = %q, %v", p, d, err)
				}
			}
			return nil
		},
		"GCMDecrypt (messages built by the reference)": func() error {
			for _, p := range plains {
				a, n := refGCM(secret, salt)
				msg := hex.EncodeToString(append(append([]byte("Salted__"), salt...), a.Seal(nil, n, p, []byte("aad"))...))
				if d, err := cryptz.GCMDecrypt(msg, secret, "aad"); err != nil || !bytes.Equal(d, p) {
					return fmt.Errorf("GCMDecrypt(reference message for %q) = %q, %v", p, d, err)
				}
			}
			return nil
		},
		"DecryptStreamTo (streams built by the reference)": func() error {
			for _, p := range plains {
				key, iv := evpBytesToKey(secret, salt)
				blk, _ := aes.NewCipher(key)
				body := make([]byte, len(p))
				cipher.NewCTR(blk, iv).XORKeyStream(body, p)
				stream := append(append([]byte("Salted__"), salt...), body...)
				var out bytes.Buffer
				if err := cryptz.DecryptStreamTo(&out, bytes.NewReader(stream), secret); err != nil || !bytes.Equal(out.Bytes(), p) {
					return fmt.Errorf("DecryptStreamTo(reference stream for %q) = %q, %v", p, out.Bytes(), err)
				}
			}
			return nil
		},
		"Encrypt (decoded by the reference)": func() error {
			for _, p := range plains {
				e, err := cryptz.Encrypt(p, secret)
				if err != nil {
					return err
				}
				raw, _ := base64.StdEncoding.DecodeString(string(e))
				if d, ok := refDecryptCBC(raw, secret); !ok || !bytes.Equal(d, p) {
					return fmt.Errorf("Encrypt(%q): the reference decoder gets %q, ok=%v", p, d, ok)
				}
			}
			return nil
		},
		"GCMEncrypt then GCMDecrypt": func() error {
			for _, p := range plains {
				e, err := cryptz.GCMEncrypt(p, secret, "a")
				if err != nil {
					return err
				}
				if d, err := cryptz.GCMDecrypt(e, secret, "a"); err != nil || !bytes.Equal(d, p) {
					return fmt.Errorf("GCMDecrypt(GCMEncrypt(%q)) = %q, %v", p, d, err)
				}
			}
			return nil
		},
	}
	names := []string{"Decrypt (messages built by the reference)", "GCMDecrypt (messages built by the reference)", "DecryptStreamTo (streams built by the reference)", "Encrypt (decoded by the reference)", "GCMEncrypt then GCMDecrypt"}
	pb.Stats("first_operation_in_a_process").SetRule("each of Decrypt / GCMDecrypt / DecryptStreamTo (inputs built by the harness' OpenSSL-compatible reference), Encrypt and GCMEncrypt as the only thing a freshly started process does with the package (the test binary re-executes itself once per operation), on four plaintext lengths incl. empty and block-aligned; the list is enumerated completely")
	pb.FirstOps(t, "first_operation_in_a_process", "TestFirstOps", names, ops)
}
