// C08 — AES-CBC/GCM helpers and PKCS#7 padding invert exactly and reject bad input.
package c08

import (
	"bytes"
	"crypto/aes"
	"crypto/cipher"
	"encoding/json"
	"fmt"
	"testing"

	"github.com/welllog/golib/cryptz"
	"pgregory.net/rapid"

	"verif/harness/internal/g"
	"verif/harness/internal/pb"
)

func TestMain(m *testing.M)   { pb.Main(m) }
func TestProps(t *testing.T)  { pb.RunProps(t) }
func TestReplay(t *testing.T) { pb.RunReplay(t) }

// ---- reference PKCS#7 (written from the RFC 5652 definition, independent of the library)

func refPad(d []byte, bs int) []byte {
	n := bs - len(d)%bs
	out := append([]byte(nil), d...)
	for i := 0; i < n; i++ {
		out = append(out, byte(n))
	}
	return out
}

// strict un-padding: ok=false for anything that is not a correctly padded non-empty multiple of bs
func refUnpad(d []byte, bs int) (int, bool) {
	if len(d) == 0 || len(d)%bs != 0 {
		return 0, false
	}
	n := int(d[len(d)-1])
	if n < 1 || n > bs || n > len(d) {
		return 0, false
	}
	for _, b := range d[len(d)-n:] {
		if int(b) != n {
			return 0, false
		}
	}
	return len(d) - n, true
}

func plainLen(t *rapid.T) int {
	if rapid.IntRange(0, 15).Draw(t, "long") == 0 {
		// beyond one block run of the assembly implementations, around typical buffer sizes
		return rapid.OneOf(rapid.SampledFrom([]int{127, 128, 129, 255, 256, 257, 511, 512, 1023, 1024, 1025, 4095, 4096, 4097, 65535, 65536, 65537}), rapid.IntRange(81, 6000)).Draw(t, "plenLong")
	}
	return rapid.OneOf(rapid.SampledFrom([]int{0, 1, 15, 16, 17, 31, 32, 33, 47, 48, 64}), rapid.IntRange(0, 80)).Draw(t, "plen")
}

func keyLen(t *rapid.T) int { return rapid.SampledFrom([]int{16, 24, 32}).Draw(t, "klen") }

// keyGen: mostly fresh random keys, but a third of the cases take their key from a fixed pool of 400 keys, so
// that within one process the same key comes back after hundreds of other keys have been used (state kept per
// key - caches of expanded keys or AEAD instances - is exercised across cases, not only within one).
func keyGen(t *rapid.T) []byte {
	n := keyLen(t)
	switch rapid.IntRange(0, 9).Draw(t, "text") {
	case 0: // a key whose bytes are all text of one kind: hex digits, decimal digits, base64 characters, spaces
		alpha := rapid.SampledFrom([]string{"0123456789abcdef", "0123456789ABCDEF", "0123456789", "ABCDEFGHIJKLMNOPQRSTUVWXYZabcdefghijklmnopqrstuvwxyz0123456789+/=", " ", "0"}).Draw(t, "alphabet")
		k := make([]byte, n)
		for j := range k {
			k[j] = alpha[rapid.IntRange(0, len(alpha)-1).Draw(t, "c")]
		}
		return k
	}
	if rapid.IntRange(0, 2).Draw(t, "pooled") != 0 {
		return g.BytesLen(n).Draw(t, "key")
	}
	i := rapid.IntRange(0, 399).Draw(t, "poolKey")
	k := make([]byte, n)
	for j := range k {
		k[j] = byte(i*31 + j*7 + i>>3)
	}
	k[0], k[1] = byte(i), byte(i>>8)
	return k
}

// ---------------------------------------------------------------- CBC

type cbcCase struct {
	Key, IV, Plain g.B
	InPlaceEnc     bool
	InPlaceDec     bool
	AsString       bool
}

func genCBC(t *rapid.T) cbcCase {
	return cbcCase{
		Key:        keyGen(t),
		IV:         g.BytesLen(16).Draw(t, "iv"),
		Plain:      g.BytesLen(plainLen(t)).Draw(t, "plain"),
		InPlaceEnc: rapid.Bool().Draw(t, "inplaceEnc"),
		InPlaceDec: rapid.Bool().Draw(t, "inplaceDec"),
	}
}

// otherUsers calls the secret-based entry points of the same package (crypt.go) the way another part of a program
// would: they share package-level tables with the AES helpers, which must not be affected.
func otherUsers(n int) {
	for _, p := range []string{"", "x", "0123456789abcdef", "0123456789abcdef0"}[:1+n%4] {
		if e, err := cryptz.Encrypt(p, "other user"); err == nil {
			cryptz.Decrypt(e, "other user")
		}
		if e, err := cryptz.GCMEncrypt(p, "other user", ""); err == nil {
			cryptz.GCMDecrypt(e, "other user", "")
		}
	}
}

func runCBC(c cbcCase, r *pb.Rec) error {
	if len(c.IV) != 16 || (len(c.Key) != 16 && len(c.Key) != 24 && len(c.Key) != 32) {
		return nil
	}
	if len(c.Plain)%8 == 3 {
		otherUsers(len(c.Plain))
		r.Class("secret-based entry points of the package used before")
	}
	blk, _ := aes.NewCipher(c.Key)
	padded := refPad(c.Plain, 16)
	want := make([]byte, len(padded))
	cipher.NewCBCEncrypter(blk, c.IV).CryptBlocks(want, padded)

	encLen := cryptz.AESCBCEncryptLen(c.Plain)
	if encLen != len(want) || cryptz.AESCBCEncryptLen(string(c.Plain)) != encLen {
		return fmt.Errorf("AESCBCEncryptLen(%d bytes) = %d want %d", len(c.Plain), encLen, len(want))
	}
	// key, iv, plaintext and destination are windows into larger arrays whose neighbouring bytes the caller owns
	key, keyIntact := g.WindowBytes(c.Key, len(c.Plain))
	iv, ivIntact := g.WindowBytes(c.IV, len(c.Plain)+1)
	var dst, plain []byte
	plainIntact, dstIntact := func() error { return nil }, func() error { return nil }
	if c.InPlaceEnc {
		// documented in-place form: plaintext pre-grown by the padding length, dst reuses its memory
		buf, bi := g.WindowBytes(make([]byte, encLen), len(c.Plain)+2)
		copy(buf, c.Plain)
		plain, dst, dstIntact = buf[:len(c.Plain)], buf[:encLen], bi
	} else {
		plain, plainIntact = g.WindowBytes(c.Plain, len(c.Plain)+3)
		dirty := make([]byte, encLen)
		for i := range dirty {
			dirty[i] = 0xA5 // dirty destination
		}
		dst, dstIntact = g.WindowBytes(dirty, len(c.Plain)+4)
	}
	if err := cryptz.AESCBCEncrypt(dst, plain, key, iv); err != nil {
		return fmt.Errorf("AESCBCEncrypt error %v", err)
	}
	for what, f := range map[string]func() error{"key": keyIntact, "iv": ivIntact, "plaintext": plainIntact, "destination": dstIntact} {
		if e := f(); e != nil {
			return fmt.Errorf("AESCBCEncrypt (plaintext of %d bytes, in place %v), argument %s: %v", len(c.Plain), c.InPlaceEnc, what, e)
		}
	}
	if !bytes.Equal(dst, want) {
		return fmt.Errorf("AESCBCEncrypt(plain %x key %x iv %x inplace=%v) = %x want %x", c.Plain, c.Key, c.IV, c.InPlaceEnc, dst, want)
	}
	if !bytes.Equal(key, c.Key) || !bytes.Equal(iv, c.IV) || (!c.InPlaceEnc && !bytes.Equal(plain, c.Plain)) {
		return fmt.Errorf("AESCBCEncrypt modified key, iv or plaintext")
	}
	if len(c.Plain)%16 == 5 && c.Key[0]%4 == 1 {
		// the same key again after 300 other keys of all three sizes have been used (CBC and GCM): still the standard result
		for i := 0; i < 300; i++ {
			k := make([]byte, []int{16, 24, 32}[i%3])
			k[0], k[1], k[2] = byte(i), byte(i>>8), 0x5c
			d := make([]byte, cryptz.AESCBCEncryptLen("other"))
			cryptz.AESCBCEncrypt(d, []byte("other"), k, c.IV)
			g := make([]byte, 5+16)
			cryptz.AESGCMEncrypt(g, []byte("other"), k, c.IV[:12], nil)
		}
		again := make([]byte, encLen)
		if err := cryptz.AESCBCEncrypt(again, append([]byte(nil), c.Plain...), key, iv); err != nil || !bytes.Equal(again, want) {
			return fmt.Errorf("AESCBCEncrypt with a key used again after 300 other keys = %x, %v want %x", again, err, want)
		}
		a, _ := cipher.NewGCM(blk)
		wantG := a.Seal(nil, c.IV[:12], c.Plain, nil)
		gotG := make([]byte, len(wantG))
		if err := cryptz.AESGCMEncrypt(gotG, c.Plain, key, c.IV[:12], nil); err != nil || !bytes.Equal(gotG, wantG) {
			return fmt.Errorf("AESGCMEncrypt with a key used again after 300 other keys = %x, %v want %x", gotG, err, wantG)
		}
		r.Class("key used again after 300 other keys")
	}
	// decrypt
	if cryptz.AESCBCDecryptLen(want) != len(want) {
		return fmt.Errorf("AESCBCDecryptLen wrong")
	}
	ct, ctIntact := g.WindowBytes(want, len(want)+5)
	out, outIntact := ct, func() error { return nil }
	if !c.InPlaceDec {
		out, outIntact = g.WindowBytes(make([]byte, cryptz.AESCBCDecryptLen(ct)), len(want)+6)
	}
	n, err := cryptz.AESCBCDecrypt(out, ct, key, iv)
	if err != nil || n != len(c.Plain) || !bytes.Equal(out[:n], c.Plain) {
		return fmt.Errorf("AESCBCDecrypt(inplace=%v) = %d, %v (%x) want %x", c.InPlaceDec, n, err, out[:max(n, 0)], c.Plain)
	}
	for what, f := range map[string]func() error{"key": keyIntact, "iv": ivIntact, "ciphertext": ctIntact, "destination": outIntact} {
		if e := f(); e != nil {
			return fmt.Errorf("AESCBCDecrypt (ciphertext of %d bytes, in place %v), argument %s: %v", len(ct), c.InPlaceDec, what, e)
		}
	}
	// the caller overwrites its key buffer in place with another key of the same length: the next call uses the new key
	kb := append([]byte(nil), c.Key...)
	for i := range kb { // a key value that no earlier call has seen, first used through this very buffer
		kb[i] ^= byte(0x11 + 7*i)
	}
	_ = cryptz.AESCBCEncrypt(make([]byte, encLen), c.Plain, kb, c.IV)
	for i := range kb {
		kb[i] ^= byte(0xa7 + 3*i)
	}
	blkB, _ := aes.NewCipher(kb)
	wantB := make([]byte, len(padded))
	cipher.NewCBCEncrypter(blkB, c.IV).CryptBlocks(wantB, padded)
	dstB := make([]byte, encLen)
	if err := cryptz.AESCBCEncrypt(dstB, c.Plain, kb, c.IV); err != nil || !bytes.Equal(dstB, wantB) {
		return fmt.Errorf("AESCBCEncrypt after the key buffer was overwritten in place = %x, %v want %x (stale cached key?)", dstB, err, wantB)
	}
	outB := make([]byte, len(wantB))
	if nB, err := cryptz.AESCBCDecrypt(outB, wantB, kb, c.IV); err != nil || !bytes.Equal(outB[:nB], c.Plain) {
		return fmt.Errorf("AESCBCDecrypt after the key buffer was overwritten in place = %x, %v want %x", outB[:max(nB, 0)], err, c.Plain)
	}
	// the same key again with another IV and plaintext: no state may be carried over between calls
	iv2 := append([]byte(nil), c.IV...)
	for i := range iv2 {
		iv2[i] ^= byte(0x5c + i)
	}
	plain2 := append(append([]byte("second "), c.Plain...), c.Key[:len(c.Plain)%7]...)
	pad2 := refPad(plain2, 16)
	want2 := make([]byte, len(pad2))
	cipher.NewCBCEncrypter(blk, iv2).CryptBlocks(want2, pad2)
	dst2 := make([]byte, cryptz.AESCBCEncryptLen(plain2))
	if err := cryptz.AESCBCEncrypt(dst2, plain2, key, iv2); err != nil || !bytes.Equal(dst2, want2) {
		return fmt.Errorf("second AESCBCEncrypt under the same key (other IV) = %x, %v want %x", dst2, err, want2)
	}
	out2 := make([]byte, len(want2))
	if n2, err := cryptz.AESCBCDecrypt(out2, want2, key, iv2); err != nil || !bytes.Equal(out2[:n2], plain2) {
		return fmt.Errorf("second AESCBCDecrypt under the same key (other IV) = %x, %v want %x", out2[:max(n2, 0)], err, plain2)
	}
	r.ClassIf(len(c.Plain)%16 == 0, "full-block padding")
	r.ClassIf(len(c.Plain) == 0, "empty plaintext")
	r.ClassIf(c.InPlaceEnc || c.InPlaceDec, "in place")
	r.ClassIf(len(c.Key) > 16, "24/32-byte key")
	r.NonTrivialIf(len(c.Plain)%16 == 0 || c.InPlaceEnc || c.InPlaceDec)
	return nil
}

// ---------------------------------------------------------------- invalid key sizes

type keyCase struct {
	KeyLen int
	Fn     int
	Fill   byte
}

func genKey(t *rapid.T) keyCase {
	return keyCase{KeyLen: rapid.OneOf(rapid.IntRange(0, 40), rapid.SampledFrom([]int{48, 64, 96, 128})).Draw(t, "klen"), Fn: rapid.IntRange(0, 3).Draw(t, "fn"), Fill: rapid.SampledFrom([]byte{7, 7, '0', 'a', 'F', '9', ' ', 0}).Draw(t, "fill")}
}

func runKey(c keyCase, r *pb.Rec) error {
	if c.KeyLen < 0 || c.KeyLen > 1024 {
		return nil
	}
	fill := c.Fill
	if fill == 0 && c.KeyLen%2 == 1 {
		fill = 7
	}
	key := bytes.Repeat([]byte{fill}, c.KeyLen) // also keys that read as hex or decimal text of another key length
	valid := c.KeyLen == 16 || c.KeyLen == 24 || c.KeyLen == 32
	iv := make([]byte, 16)
	nonce := make([]byte, 12)
	var err error
	switch c.Fn {
	case 0:
		err = cryptz.AESCBCEncrypt(make([]byte, 16), []byte("abc"), key, iv)
	case 1:
		_, err = cryptz.AESCBCDecrypt(make([]byte, 16), make([]byte, 16), key, iv)
		if valid {
			err = nil // garbage ciphertext may legitimately fail un-padding
		}
	case 2:
		err = cryptz.AESGCMEncrypt(make([]byte, 3+16), []byte("abc"), key, nonce, nil)
	case 3:
		err = cryptz.AESGCMDecrypt(make([]byte, 3), make([]byte, 19), key, nonce, nil)
		if valid {
			err = nil
		}
	}
	if valid && err != nil {
		return fmt.Errorf("fn %d: valid key length %d rejected: %v", c.Fn, c.KeyLen, err)
	}
	if !valid && err == nil {
		return fmt.Errorf("fn %d: invalid key length %d accepted", c.Fn, c.KeyLen)
	}
	r.NonTrivialIf(!valid)
	return nil
}

// ---------------------------------------------------------------- GCM

type gcmCase struct {
	Key, Nonce, AAD, Plain g.B
	InPlaceEnc, InPlaceDec bool
	CorruptWhere           int // 0 none 1 ciphertext||tag 2 nonce 3 aad 4 truncate 5 extend
	CorruptBit             int
	Nonce2                 g.B // a second message under the SAME key with a nonce of (usually) another size
}

func genGCM(t *rapid.T) gcmCase {
	return gcmCase{
		Key:          keyGen(t),
		Nonce:        g.BytesLen(rapid.OneOf(rapid.Just(12), rapid.IntRange(1, 16), rapid.IntRange(1, 40), rapid.SampledFrom([]int{15, 16, 17, 24, 31, 32, 33, 64, 100, 255, 256, 1000})).Draw(t, "nlen")).Draw(t, "nonce"),
		AAD:          g.BytesLen(rapid.OneOf(rapid.IntRange(0, 40), rapid.IntRange(0, 40), rapid.SampledFrom([]int{127, 128, 129, 255, 256, 1000, 5000})).Draw(t, "alen")).Draw(t, "aad"),
		Plain:        g.BytesLen(plainLen(t)).Draw(t, "plain"),
		InPlaceEnc:   rapid.Bool().Draw(t, "inplaceEnc"),
		InPlaceDec:   rapid.Bool().Draw(t, "inplaceDec"),
		CorruptWhere: rapid.IntRange(0, 5).Draw(t, "where"),
		CorruptBit:   rapid.IntRange(0, 1<<20).Draw(t, "bit"),
		Nonce2:       g.BytesLen(rapid.OneOf(rapid.IntRange(0, 16), rapid.SampledFrom([]int{17, 32, 33, 64})).Draw(t, "n2len")).Draw(t, "nonce2"),
	}
}

func flip(b []byte, bit int) []byte {
	out := append([]byte(nil), b...)
	if len(out) == 0 {
		return out
	}
	bit %= len(out) * 8
	out[bit/8] ^= 1 << uint(bit%8)
	return out
}

func runGCM(c gcmCase, r *pb.Rec) error {
	if len(c.Nonce) < 1 || (len(c.Key) != 16 && len(c.Key) != 24 && len(c.Key) != 32) {
		return nil
	}
	blk, _ := aes.NewCipher(c.Key)
	ref, err := cipher.NewGCMWithNonceSize(blk, len(c.Nonce))
	if err != nil {
		return nil
	}
	want := ref.Seal(nil, c.Nonce, c.Plain, c.AAD)
	encLen := cryptz.AESGCMEncryptLen(c.Plain)
	if encLen != len(want) || cryptz.AESGCMEncryptLen(string(c.Plain)) != encLen || cryptz.AESGCMDecryptLen(want) != len(c.Plain) {
		return fmt.Errorf("AESGCM length helpers: enc %d dec %d want %d/%d", encLen, cryptz.AESGCMDecryptLen(want), len(want), len(c.Plain))
	}
	key, nonce, aad := append([]byte(nil), c.Key...), append([]byte(nil), c.Nonce...), append([]byte(nil), c.AAD...)
	var dst, plain []byte
	if c.InPlaceEnc {
		buf := make([]byte, len(c.Plain), encLen)
		copy(buf, c.Plain)
		plain, dst = buf, buf[:encLen]
	} else {
		plain, dst = append([]byte(nil), c.Plain...), bytes.Repeat([]byte{0x5a}, encLen)
	}
	if err := cryptz.AESGCMEncrypt(dst, plain, key, nonce, aad); err != nil {
		return fmt.Errorf("AESGCMEncrypt: %v", err)
	}
	if !bytes.Equal(dst, want) {
		return fmt.Errorf("AESGCMEncrypt(inplace=%v) = %x want %x", c.InPlaceEnc, dst, want)
	}
	if !bytes.Equal(key, c.Key) || !bytes.Equal(nonce, c.Nonce) || !bytes.Equal(aad, c.AAD) {
		return fmt.Errorf("AESGCMEncrypt modified key, nonce or aad")
	}
	ct := append([]byte(nil), want...)
	switch c.CorruptWhere {
	case 1:
		ct = flip(ct, c.CorruptBit)
	case 2:
		nonce = flip(nonce, c.CorruptBit)
	case 3:
		if len(aad) == 0 {
			aad = []byte{byte(c.CorruptBit)}
		} else {
			aad = flip(aad, c.CorruptBit)
		}
	case 4:
		ct = ct[:c.CorruptBit%len(ct)]
	case 5:
		ct = append(ct, byte(c.CorruptBit))
	}
	out := ct
	if !c.InPlaceDec || len(ct) < 16 {
		out = make([]byte, max(0, len(ct)-16))
	} else {
		out = ct[:cryptz.AESGCMDecryptLen(ct)]
	}
	err = cryptz.AESGCMDecrypt(out, ct, key, nonce, aad)
	if c.CorruptWhere == 0 {
		if err != nil || !bytes.Equal(out, c.Plain) {
			return fmt.Errorf("AESGCMDecrypt(inplace=%v) = %x, %v want %x", c.InPlaceDec, out, err, c.Plain)
		}
	} else if err == nil {
		return fmt.Errorf("AESGCMDecrypt accepted corrupted input (where=%d bit=%d)", c.CorruptWhere, c.CorruptBit)
	}
	// same key again, other nonce size: results must still equal the standard library's (no state kept between calls)
	if len(c.Nonce2) > 0 {
		ref2, err2 := cipher.NewGCMWithNonceSize(blk, len(c.Nonce2))
		if err2 == nil {
			want2 := ref2.Seal(nil, c.Nonce2, c.Plain, c.AAD)
			dst2 := make([]byte, len(want2))
			var e2 error
			if perr := pb.Catch(func() { e2 = cryptz.AESGCMEncrypt(dst2, c.Plain, c.Key, c.Nonce2, c.AAD) }); perr != nil {
				return fmt.Errorf("second AESGCMEncrypt with the same key and a %d-byte nonce after a %d-byte one: %v", len(c.Nonce2), len(c.Nonce), perr)
			}
			if e2 != nil || !bytes.Equal(dst2, want2) {
				return fmt.Errorf("second AESGCMEncrypt with the same key and a %d-byte nonce after a %d-byte one = %x, %v want %x", len(c.Nonce2), len(c.Nonce), dst2, e2, want2)
			}
			out2 := make([]byte, len(c.Plain))
			if e := cryptz.AESGCMDecrypt(out2, want2, c.Key, c.Nonce2, c.AAD); e != nil || !bytes.Equal(out2, c.Plain) {
				return fmt.Errorf("second AESGCMDecrypt with the same key and a %d-byte nonce: %v", len(c.Nonce2), e)
			}
			r.ClassIf(len(c.Nonce2) != len(c.Nonce), "same key, two nonce sizes")
		}
	} else {
		// empty nonce: an error, not a panic
		var e2 error
		if perr := pb.Catch(func() { e2 = cryptz.AESGCMEncrypt(make([]byte, len(c.Plain)+16), c.Plain, c.Key, nil, c.AAD) }); perr != nil || e2 == nil {
			return fmt.Errorf("AESGCMEncrypt with an empty nonce: error %v, panic %v (want an error)", e2, perr)
		}
		r.Class("empty nonce rejected")
	}
	// key buffer overwritten in place between two GCM calls
	{
		kb := append([]byte(nil), c.Key...)
		for i := range kb {
			kb[i] ^= byte(0x23 + 11*i)
		}
		sealedOld := make([]byte, encLen)
		_ = cryptz.AESGCMEncrypt(sealedOld, c.Plain, kb, c.Nonce, c.AAD)
		for i := range kb {
			kb[i] ^= byte(0x39 + 5*i)
		}
		blkB, _ := aes.NewCipher(kb)
		refB, _ := cipher.NewGCMWithNonceSize(blkB, len(c.Nonce))
		wantB := refB.Seal(nil, c.Nonce, c.Plain, c.AAD)
		want = sealedOld
		dstB := make([]byte, encLen)
		if err := cryptz.AESGCMEncrypt(dstB, c.Plain, kb, c.Nonce, c.AAD); err != nil || !bytes.Equal(dstB, wantB) {
			return fmt.Errorf("AESGCMEncrypt after the key buffer was overwritten in place = %x, %v want %x (stale cached key?)", dstB, err, wantB)
		}
		// a message sealed under the OLD key must not open under the new one
		if err := cryptz.AESGCMDecrypt(make([]byte, len(c.Plain)), want, kb, c.Nonce, c.AAD); err == nil {
			return fmt.Errorf("AESGCMDecrypt opened a message sealed under the old key after the key buffer was overwritten in place")
		}
	}
	r.ClassIf(c.CorruptWhere == 1 && len(ct) > 0 && c.CorruptBit%(len(ct)*8)/8 >= len(ct)-16, "tag bit flipped")
	r.ClassIf(c.CorruptWhere == 1, "ciphertext/tag corrupted")
	r.ClassIf(c.CorruptWhere == 2, "nonce corrupted")
	r.ClassIf(c.CorruptWhere == 3, "aad corrupted")
	r.ClassIf(c.InPlaceEnc || c.InPlaceDec, "in place")
	r.ClassIf(len(c.Nonce) != 12, "non-standard nonce size")
	r.ClassIf(len(c.Nonce) > 16, "nonce longer than one AES block")
	r.ClassIf(len(c.Plain) > 256, "plaintext longer than 256 bytes")
	r.NonTrivialIf(c.CorruptWhere != 0 || c.InPlaceEnc || c.InPlaceDec)
	return nil
}

// ---------------------------------------------------------------- PKCS#7 standalone

type padCase struct {
	Data  g.B
	Block int
	Mode  int // 0 round trip, 1 arbitrary un-pad, 2 near-valid un-pad
	Mut   int
}

func genPad(t *rapid.T) padCase {
	c := padCase{Block: rapid.OneOf(rapid.SampledFrom([]int{1, 2, 8, 16, 255}), rapid.IntRange(1, 255)).Draw(t, "block"), Mode: rapid.IntRange(0, 2).Draw(t, "mode"), Mut: rapid.IntRange(0, 1<<16).Draw(t, "mut")}
	switch c.Mode {
	case 0:
		n := rapid.IntRange(1, 64).Draw(t, "n")
		if rapid.IntRange(0, 3).Draw(t, "relative") == 0 { // lengths chosen relative to the block size: k*b-1, k*b, k*b+1
			n = max(1, rapid.IntRange(1, 3).Draw(t, "k")*c.Block+rapid.IntRange(-1, 1).Draw(t, "d"))
		}
		c.Data = g.BytesLen(n).Draw(t, "data")
	case 1:
		n := rapid.IntRange(0, 64).Draw(t, "n")
		if rapid.IntRange(0, 3).Draw(t, "long") == 0 {
			n = rapid.IntRange(0, 3*c.Block+1).Draw(t, "nlong")
		}
		if rapid.Bool().Draw(t, "multiple") {
			n = n / c.Block * c.Block
		}
		d := g.BytesLen(n).Draw(t, "data")
		if n > 0 && rapid.Bool().Draw(t, "smalltail") {
			d[n-1] = byte(rapid.IntRange(0, 17).Draw(t, "tail"))
		} else if n > 0 && rapid.Bool().Draw(t, "padtail") { // a run of equal bytes at the end, about as long as its value
			v := rapid.IntRange(1, 255).Draw(t, "v")
			for i, run := 0, v+rapid.IntRange(-2, 1).Draw(t, "runlen"); i < run && i < n; i++ {
				d[n-1-i] = byte(v)
			}
		}
		c.Data = d
	case 2:
		n := rapid.IntRange(1, 40).Draw(t, "n")
		if rapid.IntRange(0, 3).Draw(t, "relative") == 0 {
			n = max(1, rapid.IntRange(1, 2).Draw(t, "k")*c.Block+rapid.IntRange(-1, 1).Draw(t, "d"))
		}
		c.Data = g.BytesLen(n).Draw(t, "data")
	}
	return c
}

func runPad(c padCase, r *pb.Rec) error {
	if c.Block < 1 || c.Block > 255 {
		return nil
	}
	var in []byte
	switch c.Mode {
	case 0:
		if len(c.Data) == 0 {
			return nil
		}
		src := make([]byte, len(c.Data), len(c.Data)+rapidCapSlack(c.Mut))
		copy(src, c.Data)
		p, err := cryptz.PKCS7Padding(src, c.Block)
		want := refPad(c.Data, c.Block)
		if err != nil || !bytes.Equal(p, want) {
			return fmt.Errorf("PKCS7Padding(%x,%d) = %x,%v want %x", c.Data, c.Block, p, err, want)
		}
		u, err := cryptz.PKCS7UnPadding(p, c.Block)
		if err != nil || !bytes.Equal(u, c.Data) {
			return fmt.Errorf("PKCS7UnPadding(PKCS7Padding(%x,%d)) = %x,%v", c.Data, c.Block, u, err)
		}
		if c.Block == 8 {
			p5, e5 := cryptz.PKCS5Padding(append([]byte(nil), c.Data...))
			u5, e6 := cryptz.PKCS5UnPadding(p5)
			if e5 != nil || e6 != nil || !bytes.Equal(p5, want) || !bytes.Equal(u5, c.Data) {
				return fmt.Errorf("PKCS5 round trip failed for %x", c.Data)
			}
		}
		r.ClassIf(len(c.Data)%c.Block == 0, "full-block padding")
		r.ClassIf(len(c.Data)%c.Block == 0 && c.Block >= 128, "full-block padding with a block size >= 128")
		r.ClassIf(len(c.Data)%c.Block == 0 && c.Block == 255, "full-block padding with block size 255")
		r.NonTrivialIf(len(c.Data)%c.Block == 0 || c.Block > 16)
		return nil
	case 1:
		in = append([]byte(nil), c.Data...)
	case 2: // near-valid: correct padding with one defect
		in = refPad(c.Data, c.Block)
		n := int(in[len(in)-1])
		switch c.Mut % 5 {
		case 0:
			in[len(in)-1-(c.Mut/5)%n] ^= byte(1 + (c.Mut/7)%255) // one pad byte wrong
		case 1:
			in[len(in)-1] = 0 // pad value 0
		case 2:
			in[len(in)-1] = byte(min(255, c.Block+1+(c.Mut/5)%3)) // pad value > block
		case 3:
			in = in[:len(in)-1] // not a multiple (unless block 1)
		case 4: // still valid: control
		}
		r.Class("near-valid padding")
	}
	orig := append([]byte(nil), in...)
	got, err := cryptz.PKCS7UnPadding(in, c.Block)
	wn, ok := refUnpad(orig, c.Block)
	if ok != (err == nil) {
		return fmt.Errorf("PKCS7UnPadding(%x,%d): err=%v but reference strict un-padding ok=%v", orig, c.Block, err, ok)
	}
	if ok && (len(got) != wn || !bytes.Equal(got, orig[:wn])) {
		return fmt.Errorf("PKCS7UnPadding(%x,%d) = %x want %x", orig, c.Block, got, orig[:wn])
	}
	if !bytes.Equal(in, orig) {
		return fmt.Errorf("PKCS7UnPadding modified its input")
	}
	r.ClassIf(!ok, "un-padding rejected")
	r.ClassIf(ok, "un-padding accepted")
	r.NonTrivialIf(!ok && len(orig) > 0 && len(orig)%c.Block == 0)
	return nil
}

func rapidCapSlack(m int) int { return m % 40 }

// ---------------------------------------------------------------- un-padding inside CBC decryption

type cbcBadCase struct {
	Key, IV g.B
	Blocks  g.B // the *decrypted* block string the library will see (any bytes)
	CutTo   int // -1: keep; else ciphertext truncated/extended to this length
	InPlace bool
}

func genCBCBad(t *rapid.T) cbcBadCase {
	nb := rapid.IntRange(1, 4).Draw(t, "nblocks")
	d := g.BytesLen(16*nb).Draw(t, "blocks")
	switch rapid.IntRange(0, 6).Draw(t, "tailkind") {
	case 5: // several pad bytes wrong, related to one another: the same difference in two or four of them, or three differences that cancel
		n := rapid.IntRange(3, 16).Draw(t, "n")
		for i := 0; i < n; i++ {
			d[len(d)-1-i] = byte(n)
		}
		delta := byte(rapid.IntRange(1, 255).Draw(t, "delta"))
		pos := rapid.SliceOfNDistinct(rapid.IntRange(0, n-1), 2, min(4, n), func(x int) int { return x }).Draw(t, "pos")
		switch len(pos) {
		case 3:
			d2 := byte(rapid.IntRange(1, 255).Draw(t, "delta2"))
			d[len(d)-1-pos[0]] ^= delta
			d[len(d)-1-pos[1]] ^= d2
			d[len(d)-1-pos[2]] ^= delta ^ d2
		default:
			for _, p := range pos {
				d[len(d)-1-p] ^= delta
			}
		}
	case 6: // several pad bytes replaced by arbitrary values
		n := rapid.IntRange(2, 16).Draw(t, "n")
		for i := 0; i < n; i++ {
			d[len(d)-1-i] = byte(n)
		}
		for i, k := 0, rapid.IntRange(2, n).Draw(t, "k"); i < k; i++ {
			d[len(d)-1-rapid.IntRange(0, n-1).Draw(t, "p")] = rapid.Byte().Draw(t, "v")
		}
	case 0: // valid padding
		n := rapid.IntRange(1, 16).Draw(t, "n")
		for i := 0; i < n; i++ {
			d[len(d)-1-i] = byte(n)
		}
	case 1: // one pad byte wrong
		n := rapid.IntRange(2, 16).Draw(t, "n")
		for i := 0; i < n; i++ {
			d[len(d)-1-i] = byte(n)
		}
		d[len(d)-1-rapid.IntRange(1, n-1).Draw(t, "k")] ^= 0x10
	case 2:
		d[len(d)-1] = byte(rapid.SampledFrom([]int{0, 17, 18, 32, 255}).Draw(t, "tail"))
	}
	cut := -1
	if rapid.IntRange(0, 4).Draw(t, "cut") == 0 {
		cut = rapid.IntRange(0, len(d)+3).Draw(t, "cutTo")
	}
	return cbcBadCase{Key: keyGen(t), IV: g.BytesLen(16).Draw(t, "iv"), Blocks: d, CutTo: cut, InPlace: rapid.Bool().Draw(t, "inplace")}
}

func runCBCBad(c cbcBadCase, r *pb.Rec) error {
	if len(c.IV) != 16 || len(c.Blocks) == 0 || len(c.Blocks)%16 != 0 || (len(c.Key) != 16 && len(c.Key) != 24 && len(c.Key) != 32) {
		return nil
	}
	blk, _ := aes.NewCipher(c.Key)
	ct := make([]byte, len(c.Blocks))
	cipher.NewCBCEncrypter(blk, c.IV).CryptBlocks(ct, c.Blocks)
	seen := c.Blocks
	if c.CutTo >= 0 {
		if c.CutTo <= len(ct) {
			ct = ct[:c.CutTo]
		} else {
			ct = append(ct, make([]byte, c.CutTo-len(ct))...)
		}
		if len(ct) >= 16 && len(ct)%16 == 0 {
			seen = make([]byte, len(ct))
			cipher.NewCBCDecrypter(blk, c.IV).CryptBlocks(seen, ct)
		} else {
			seen = nil
		}
	}
	wn, ok := refUnpad(seen, 16)
	in := append([]byte(nil), ct...)
	out := in
	if !c.InPlace {
		out = make([]byte, len(in))
	}
	n, err := cryptz.AESCBCDecrypt(out, in, c.Key, c.IV)
	if ok != (err == nil) {
		return fmt.Errorf("AESCBCDecrypt(decrypted blocks %x): err=%v but strict un-padding ok=%v", seen, err, ok)
	}
	if ok && (n != wn || !bytes.Equal(out[:n], seen[:wn])) {
		return fmt.Errorf("AESCBCDecrypt(decrypted blocks %x) = %d want %d", seen, n, wn)
	}
	r.ClassIf(seen == nil, "ciphertext length illegal")
	r.ClassIf(!ok && seen != nil, "bad padding rejected")
	r.ClassIf(ok, "padding accepted")
	r.NonTrivialIf(!ok)
	return nil
}

// TestPadSweep: every block size 1..255 with every data length 1..2*block+1 (round trip), and for every block
// size every padding value 0..255 as the last byte of otherwise correctly padded data of one and two blocks
// (un-padding accepted exactly for the real padding length).
func TestPadSweep(t *testing.T) {
	st := pb.Stats("pkcs7_all_block_sizes")
	st.SetExhaustive(true)
	st.SetRule("exhaustive: block sizes 1..255 x data lengths 1..2*block+1: PKCS7UnPadding(PKCS7Padding(d,b),b) = d and the padded form equals the reference; block sizes 1..255 x trailing runs of every byte value v 1..255 of length v-1, v, v+1 (as far as they fit in two blocks): accepted <=> the reference strict un-padding accepts; non-trivial = full-block padding or a trailing run")
	data := make([]byte, 2*255+1)
	for i := range data {
		data[i] = byte(i*7 + 3)
	}
	fail := func(c padCase, err error) {
		js, _ := json.Marshal(c)
		st.Violation("exhaustive", js, err)
		t.Errorf("%v", err)
	}
	for b := 1; b <= 255; b++ {
		for n := 1; n <= 2*b+1; n++ {
			c := padCase{Data: data[:n], Block: b, Mode: 0}
			rc := &pb.Rec{}
			var err error
			if e := pb.Catch(func() { err = runPad(c, rc) }); e != nil {
				err = e
			}
			st.CaseKey(uint64(b)<<20|uint64(n), rc, func() []byte { j, _ := json.Marshal(map[string]int{"block": b, "len": n}); return j })
			if err != nil {
				fail(c, err)
				return
			}
		}
		for v := 1; v <= 255; v++ {
			for run := v - 1; run <= v+1; run++ {
				if run < 1 || run > 2*b {
					continue
				}
				in := append([]byte(nil), data[:2*b]...)
				if run < 2*b && in[2*b-run-1] == byte(v) {
					in[2*b-run-1] ^= 0x55 // the byte in front of the run differs from it
				}
				for i := 0; i < run; i++ {
					in[2*b-1-i] = byte(v)
				}
				c := padCase{Data: in, Block: b, Mode: 1}
				rc := &pb.Rec{}
				var err error
				if e := pb.Catch(func() { err = runPad(c, rc) }); e != nil {
					err = e
				}
				rc.NonTrivial()
				st.CaseKey(1<<40|uint64(b)<<20|uint64(v)<<4|uint64(run-v+1), rc, func() []byte {
					j, _ := json.Marshal(map[string]int{"block": b, "value": v, "run": run})
					return j
				})
				if err != nil {
					fail(c, err)
					return
				}
			}
		}
	}
}

// native fuzz (thorough): un-padding on arbitrary bytes
func FuzzUnpad(f *testing.F) {
	f.Add([]byte{1}, 1)
	f.Add([]byte{2, 2}, 2)
	f.Add(bytes.Repeat([]byte{16}, 16), 16)
	f.Add([]byte("abc\x05\x05\x05\x05\x05"), 8)
	f.Add([]byte{0}, 1)
	f.Fuzz(func(t *testing.T, d []byte, bs int) {
		if bs < 0 {
			bs = -bs
		}
		bs = bs%255 + 1
		if err := runPad(padCase{Data: d, Block: bs, Mode: 1}, nil); err != nil {
			t.Fatal(err)
		}
		if len(d) >= 16 {
			d = d[:len(d)/16*16]
			key, iv := bytes.Repeat([]byte{byte(bs)}, 16), bytes.Repeat([]byte{byte(len(d))}, 16)
			if err := runCBCBad(cbcBadCase{Key: key, IV: iv, Blocks: d, CutTo: -1}, nil); err != nil {
				t.Fatal(err)
			}
		}
	})
}

func init() {
	pb.Register("cbc", pb.Options{Twins: 3, Base: 8000, Required: []string{"full-block padding", "empty plaintext", "in place", "24/32-byte key", "key used again after 300 other keys", "secret-based entry points of the package used before"},
		Rule: "keys 16/24/32, 16-byte IV, plaintext 0..80 biased to block boundaries, fresh (dirty) or documented in-place dst; oracle crypto/cipher CBC over reference PKCS#7, length helpers, decrypt == plaintext; non-trivial = block-aligned plaintext or in-place layout"},
		genCBC, runCBC)
	pb.Register("key_sizes", pb.Options{Twins: 3, Base: 800, Rule: "every key length 0..40 and 48, 64, 96, 128 for the four AES entry points, the key filled with a binary value or with one character that reads as a hex / decimal digit or a space; oracle error <=> length not in {16,24,32}; non-trivial = invalid length"}, genKey, runKey)
	pb.Register("gcm", pb.Options{Twins: 3, Base: 8000, Required: []string{"tag bit flipped", "nonce corrupted", "aad corrupted", "in place", "non-standard nonce size", "nonce longer than one AES block", "plaintext longer than 256 bytes", "same key, two nonce sizes", "empty nonce rejected"},
		Rule: "keys 16/24/32, nonce 1..40 bytes and 64/100/255/256/1000, AAD 0..40 and up to 5000, plaintext 0..80 and (1 in 16) up to 65537, in-place layouts; single-bit flips over ciphertext||tag, nonce, AAD, truncation, extension; oracle crypto/cipher GCM Seal/Open; non-trivial = corruption or in-place case"},
		genGCM, runGCM)
	pb.Register("pkcs7", pb.Options{Twins: 3, Base: 12000, Required: []string{"full-block padding", "full-block padding with a block size >= 128", "full-block padding with block size 255", "near-valid padding", "un-padding rejected", "un-padding accepted"},
		Rule: "round trip for data 1..64 (1 in 4: k*block-1..k*block+1, k 1..3) and block 1..255 (with spare capacity in the input); un-padding of arbitrary byte strings and of near-valid paddings (one pad byte wrong, pad 0, pad > block, length not a multiple); oracle reference strict un-padding (error <=> rejected, equal prefix); non-trivial = rejected multiple-of-block input or full-block/large-block round trip"},
		genPad, runPad)
	pb.Register("cbc_unpad", pb.Options{Twins: 3, Base: 8000, Required: []string{"ciphertext length illegal", "bad padding rejected", "padding accepted"},
		Rule: "arbitrary 1-4 block strings with valid / one-byte-wrong / several-bytes-wrong (equal or cancelling differences, arbitrary values) / out-of-range padding tails, reference-encrypted with raw CBC, optionally truncated/extended, then AESCBCDecrypt (fresh or in-place dst); oracle error <=> reference strict un-padding rejects, equal length and content; non-trivial = rejected"},
		genCBCBad, runCBCBad)
}
