package c08

// Each operation as the very first use of package cryptz in a fresh process (see pb.FirstOps).

import (
	"bytes"
	"crypto/aes"
	"crypto/cipher"
	"fmt"
	"testing"

	"github.com/welllog/golib/cryptz"

	"verif/harness/internal/pb"
)

func TestFirstOps(t *testing.T) {
	key := []byte("0123456789abcdef0123456789abcdef")
	iv := []byte("fedcba9876543210")
	blk, _ := aes.NewCipher(key)
	plains := [][]byte{[]byte(""), []byte("x"), []byte("0123456789abcdef"), []byte("0123456789abcdef0")}
	refCBC := func(p []byte) []byte {
		padded := refPad(p, 16)
		out := make([]byte, len(padded))
		cipher.NewCBCEncrypter(blk, iv).CryptBlocks(out, padded)
		return out
	}
	gcm, _ := cipher.NewGCM(blk)
	ops := map[string]func() error{
		"AESCBCDecrypt (ciphertexts built with crypto/cipher)": func() error {
			for _, p := range plains {
				ct := refCBC(p)
				dst := make([]byte, len(ct))
				n, err := cryptz.AESCBCDecrypt(dst, ct, key, iv)
				if err != nil || !bytes.Equal(dst[:n], p) {
					return fmt.Errorf("AESCBCDecrypt of the standard ciphertext of %q = %q, %v", p, dst[:max(n, 0)], err)
				}
			}
			return nil
		},
		"AESCBCEncrypt": func() error {
			for _, p := range plains {
				dst := make([]byte, cryptz.AESCBCEncryptLen(p))
				if err := cryptz.AESCBCEncrypt(dst, append([]byte(nil), p...), key, iv); err != nil || !bytes.Equal(dst, refCBC(p)) {
					return fmt.Errorf("AESCBCEncrypt(%q) = %x, %v want %x", p, dst, err, refCBC(p))
				}
			}
			return nil
		},
		"AESGCMDecrypt (ciphertexts built with crypto/cipher)": func() error {
			for _, p := range plains {
				ct := gcm.Seal(nil, iv[:12], p, []byte("aad"))
				dst := make([]byte, cryptz.AESGCMDecryptLen(ct))
				if err := cryptz.AESGCMDecrypt(dst, ct, key, iv[:12], []byte("aad")); err != nil || !bytes.Equal(dst, p) {
					return fmt.Errorf("AESGCMDecrypt of the standard ciphertext of %q = %q, %v", p, dst, err)
				}
			}
			return nil
		},
		"AESGCMEncrypt": func() error {
			for _, p := range plains {
				want := gcm.Seal(nil, iv[:12], p, nil)
				dst := make([]byte, cryptz.AESGCMEncryptLen(p))
				if err := cryptz.AESGCMEncrypt(dst, p, key, iv[:12], nil); err != nil || !bytes.Equal(dst, want) {
					return fmt.Errorf("AESGCMEncrypt(%q) = %x, %v want %x", p, dst, err, want)
				}
			}
			return nil
		},
		"PKCS7UnPadding": func() error {
			for _, p := range plains[1:] {
				got, err := cryptz.PKCS7UnPadding(refPad(p, 16), 16)
				if err != nil || !bytes.Equal(got, p) {
					return fmt.Errorf("PKCS7UnPadding(padded %q) = %q, %v", p, got, err)
				}
			}
			return nil
		},
		"PKCS7Padding": func() error {
			for _, p := range plains[1:] {
				got, err := cryptz.PKCS7Padding(append([]byte(nil), p...), 16)
				if err != nil || !bytes.Equal(got, refPad(p, 16)) {
					return fmt.Errorf("PKCS7Padding(%q) = %x, %v", p, got, err)
				}
			}
			return nil
		},
	}
	names := []string{"AESCBCDecrypt (ciphertexts built with crypto/cipher)", "AESCBCEncrypt", "AESGCMDecrypt (ciphertexts built with crypto/cipher)", "AESGCMEncrypt", "PKCS7UnPadding", "PKCS7Padding"}
	pb.Stats("first_operation_in_a_process").SetRule("each of AESCBCDecrypt / AESCBCEncrypt / AESGCMDecrypt / AESGCMEncrypt / PKCS7UnPadding / PKCS7Padding as the only thing a freshly started process does with the package (the test binary re-executes itself once per operation), on four plaintext lengths incl. empty and block-aligned; oracle: crypto/cipher; the list is enumerated completely")
	pb.FirstOps(t, "first_operation_in_a_process", "TestFirstOps", names, ops)
}
