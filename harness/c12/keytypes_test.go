//go:build !sched

package c12

// C12 measures SafeKV against "a plain map". For key types whose == is not reflexive (float NaN, structs and
// interfaces holding one) a plain map has visible quirks: every Set of a NaN key adds an entry, no lookup or
// delete ever finds one. This file runs generated single-goroutine histories on SafeKV instantiated with such
// key types in lock step with a plain Go map of the same type, and compares every result and the full content.

import (
	"encoding/json"
	"fmt"
	"math"
	"sort"
	"sync/atomic"
	"testing"

	"github.com/welllog/golib/mapz"
	"pgregory.net/rapid"

	"verif/harness/internal/conc"
	"verif/harness/internal/pb"
)

type ktOp struct {
	K string // set setnx setx delete delete2 has get len keys values range clear getwithmap
	A int    // key code 0..5
	B int
}

type ktCase struct {
	Type string // float64 struct iface string
	Ops  []ktOp
}

type fkey struct {
	A int8
	F float64
}

func ktContent[K comparable](m map[K]int) string {
	var s []string
	for k, v := range m {
		s = append(s, fmt.Sprintf("%v=%d", any(k), v))
	}
	sort.Strings(s)
	return fmt.Sprint(s)
}

func runKeyTypes[K comparable](c ktCase, keys []K) error {
	s := mapz.NewSafeKV[K, int](0)
	m := map[K]int{}
	for step, o := range c.Ops {
		if o.A < 0 || o.A >= len(keys) || o.B < 0 || o.B >= len(keys) {
			return nil
		}
		k, k2 := keys[o.A], keys[o.B]
		where := fmt.Sprintf("SafeKV[%s,int], step %d: %s(%v)", c.Type, step, o.K, any(k))
		_, had := m[k]
		switch o.K {
		case "set":
			s.Set(k, step)
			m[k] = step
		case "setnx":
			got := s.SetNx(k, step)
			if !had {
				m[k] = step
			}
			if got != !had {
				return fmt.Errorf("%s = %v, a plain map has the key: %v", where, got, had)
			}
		case "setx":
			got := s.SetX(k, step)
			if had {
				m[k] = step
			}
			if got != had {
				return fmt.Errorf("%s = %v, a plain map has the key: %v", where, got, had)
			}
		case "delete":
			s.Delete(k)
			delete(m, k)
		case "delete2":
			s.Delete(k, k2)
			delete(m, k)
			delete(m, k2)
		case "has":
			if got := s.Has(k); got != had {
				return fmt.Errorf("%s = %v, plain map: %v", where, got, had)
			}
		case "get":
			gv, gok := s.Get(k)
			if wv, wok := m[k]; gok != wok || gv != wv {
				return fmt.Errorf("%s = %d,%v plain map: %d,%v", where, gv, gok, wv, wok)
			}
		case "clear":
			s.Clear()
			m = map[K]int{}
		case "getwithmap":
			req := map[K]int{k: -1, k2: -1}
			s.GetWithMap(req)
			for rk, rv := range req {
				if wv, ok := m[rk]; (ok && rv != wv) || (!ok && rv != -1) {
					return fmt.Errorf("%s: GetWithMap filled %v with %d, plain map has %d,%v", where, any(rk), rv, wv, ok)
				}
			}
		}
		if s.Len() != len(m) {
			return fmt.Errorf("%s: Len = %d, a plain map holds %d entries (%s)", where, s.Len(), len(m), ktContent(m))
		}
		got := map[string]int{}
		n := 0
		s.Range(func(k K, v int) bool { got[fmt.Sprintf("%v=%d", any(k), v)]++; n++; return true })
		want := map[string]int{}
		for k, v := range m {
			want[fmt.Sprintf("%v=%d", any(k), v)]++
		}
		if n != len(m) || fmt.Sprint(got) != fmt.Sprint(want) {
			return fmt.Errorf("%s: Range yields %v, a plain map holds %s", where, got, ktContent(m))
		}
		if ks, vs := s.Keys(), s.Values(); len(ks) != len(m) || len(vs) != len(m) {
			return fmt.Errorf("%s: %d keys / %d values for %d entries", where, len(ks), len(vs), len(m))
		}
	}
	return nil
}

func TestKeyTypes(t *testing.T) {
	st := pb.Stats("safekv_key_types")
	st.SetRule("single-goroutine histories (<= 30 calls of Set/SetNx/SetX/Delete (1 or 2 keys)/Has/Get/Clear/GetWithMap) on SafeKV instantiated with float64 keys (NaN, -0, +0, Inf), struct keys with a float field, interface keys holding different dynamic types and NaN, and strings, in lock step with a plain Go map of the same key type; oracle: every result, Len, Range content, number of Keys/Values after every call; non-trivial = a NaN-bearing key was written")
	st.Require("NaN key written", "interface keys")
	kinds := []string{"set", "set", "setnx", "setx", "setx", "delete", "delete2", "has", "get", "clear", "getwithmap"}
	gen := rapid.Custom(func(t *rapid.T) ktCase {
		c := ktCase{Type: rapid.SampledFrom([]string{"float64", "float64", "struct", "iface", "string"}).Draw(t, "type")}
		n := rapid.IntRange(1, 30).Draw(t, "n")
		for i := 0; i < n; i++ {
			k := rapid.SampledFrom(kinds).Draw(t, "op")
			if k == "clear" && rapid.IntRange(0, 3).Draw(t, "rare") != 0 {
				k = "setx"
			}
			c.Ops = append(c.Ops, ktOp{K: k, A: rapid.IntRange(0, 5).Draw(t, "a"), B: rapid.IntRange(0, 5).Draw(t, "b")})
		}
		return c
	})
	nan := math.NaN()
	n := pb.Scaled(3000)
	for i := 0; i < n; i++ {
		c := gen.Example(int(pb.Seed("keytypes")%1000003) + i)
		js, _ := json.Marshal(c)
		saveCurrent("safekv_key_types", js)
		var err error
		switch c.Type {
		case "float64":
			err = runKeyTypes(c, []float64{0, math.Copysign(0, -1), nan, 1.5, math.Inf(1), nan})
		case "struct":
			err = runKeyTypes(c, []fkey{{0, 0}, {0, math.Copysign(0, -1)}, {0, nan}, {1, 0}, {1, nan}, {2, 1}})
		case "iface":
			err = runKeyTypes(c, []any{nil, 1, int8(1), "1", nan, fkey{1, nan}})
		default:
			err = runKeyTypes(c, []string{"", "a", "b", "ab", "\x00", "a\x00"})
		}
		if err != nil {
			st.Violation("key-types", js, err)
			t.Fatalf("%s: %v", js, err)
		}
		rec := &pb.Rec{}
		nanWritten := false
		for _, o := range c.Ops {
			if (o.K == "set" || o.K == "setnx" || o.K == "setx") && c.Type != "string" && (o.A == 2 || o.A == 4 || o.A == 5) {
				nanWritten = true
			}
		}
		rec.ClassIf(nanWritten, "NaN key written")
		rec.ClassIf(c.Type == "iface", "interface keys")
		rec.NonTrivialIf(nanWritten)
		st.Case(js, rec)
	}
}

func init() {
	pb.RegisterReplay("safekv_key_types", func(raw json.RawMessage) error {
		var c ktCase
		if err := json.Unmarshal(raw, &c); err != nil {
			return fmt.Errorf("BADREPLAY: %v", err)
		}
		nan := math.NaN()
		switch c.Type {
		case "float64":
			return runKeyTypes(c, []float64{0, math.Copysign(0, -1), nan, 1.5, math.Inf(1), nan})
		case "struct":
			return runKeyTypes(c, []fkey{{0, 0}, {0, math.Copysign(0, -1)}, {0, nan}, {1, 0}, {1, nan}, {2, 1}})
		case "iface":
			return runKeyTypes(c, []any{nil, 1, int8(1), "1", nan, fkey{1, nan}})
		}
		return runKeyTypes(c, []string{"", "a", "b", "ab", "\x00", "a\x00"})
	})
}

// ---- values that are pointers: callbacks run under the lock
//
// GetWithLock, Range and All hand the stored value to a callback while holding the read lock, Map runs its
// callback under the write lock. With pointer values that is what makes "read both fields" / "update both fields"
// safe. Goroutines of the first kind check that the two fields of a cell agree, goroutines of the second kind
// update both fields inside Map; the race detector watches the accesses (a callback that runs outside the lock is
// reported as a data race, and usually also seen as a torn pair).

type cell struct{ a, b int }

func TestPointerValues(t *testing.T) {
	st := pb.Stats("safekv_pointer_values")
	st.SetRule("SafeKV[int,*cell] with 3 keys; 2 goroutines update both fields of the cells inside Map callbacks, 3 goroutines read both fields inside GetWithLock / Range / All callbacks, 300 rounds each, under the race detector; oracle: no data race report, both fields of a cell always agree; every run is a case")
	n := pb.Scaled(6)
	for i := 0; i < n; i++ {
		s := mapz.NewSafeKV[int, *cell](4)
		for k := 0; k < 3; k++ {
			s.Set(k, &cell{})
		}
		saveCurrent("safekv_pointer_values", []byte(fmt.Sprintf(`{"run":%d}`, i)))
		var torn atomic.Value
		check := func(c *cell) {
			if a, b := c.a, c.b; a != b {
				torn.CompareAndSwap(nil, fmt.Sprintf("a callback under the read lock saw a cell with fields %d and %d while Map callbacks (write lock) update both together", a, b))
			}
		}
		bodies := []func(){}
		for w := 0; w < 2; w++ {
			bodies = append(bodies, func() {
				for r := 0; r < 300; r++ {
					s.Map(func(m mapz.KV[int, *cell]) {
						for _, c := range m {
							c.a++
							c.b++
						}
					})
				}
			})
		}
		bodies = append(bodies,
			func() {
				for r := 0; r < 300; r++ {
					s.GetWithLock(r%3, check)
				}
			},
			func() {
				for r := 0; r < 300; r++ {
					s.Range(func(_ int, c *cell) bool { check(c); return true })
				}
			},
			func() {
				for r := 0; r < 300; r++ {
					s.All()(func(_ int, c *cell) bool { check(c); return true })
				}
			})
		if panics := conc.RunRaced(bodies); len(panics) > 0 {
			t.Fatalf("panic: %v", panics[0])
		}
		js := []byte(fmt.Sprintf(`{"run":%d}`, i))
		if e := torn.Load(); e != nil {
			st.Violation("pointer-values", js, fmt.Errorf("%s", e))
			t.Fatalf("%s", e)
		}
		rec := &pb.Rec{}
		rec.NonTrivial()
		st.CaseKey(uint64(i)+pb.Seed("ptr"), rec, func() []byte { return js })
	}
}
