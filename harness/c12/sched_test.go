//go:build sched

package c12

import (
	"encoding/json"
	"fmt"
	"testing"

	"github.com/welllog/golib/mapz"
	"pgregory.net/rapid"

	"verif/harness/internal/conc"
	"verif/harness/internal/lin"
	"verif/harness/internal/pb"
)

func TestProps(t *testing.T) { pb.RunProps(t) }

const maxSteps = 6000

func genSched(t *rapid.T) kvCase {
	c := genProgram(t, 4, 4)
	c.Slots = conc.GenSlots(t, len(c.Threads), 14)
	return c
}

func build(c kvCase) ([]func(), func(conc.Result, *pb.Rec) error) {
	s := newKV(c)
	rec := &recorder{}
	var bodies []func()
	for i, th := range c.Threads {
		i, th := i, th
		bodies = append(bodies, func() { execThread(s, i, th, rec) })
	}
	return bodies, func(res conc.Result, r *pb.Rec) error {
		if res.Budget {
			r.Class("INCONCLUSIVE: step budget exhausted")
			return nil
		}
		if res.Err != nil {
			return fmt.Errorf("%v\nhistory so far:\n%s", res.Err, lin.Format(rec.ops))
		}
		r.ClassIf(res.Switches > 0, "callback or lock boundary pre-empted")
		return finish(s, c, rec.ops, r)
	}
}

func runSched(c kvCase, r *pb.Rec) error {
	if !sane(c) {
		return nil
	}
	bodies, after := build(c)
	var res conc.Result
	if c.Trace != nil {
		res = conc.RunTrace(bodies, c.Trace, maxSteps)
	} else {
		res = conc.RunSlots(bodies, c.Slots, maxSteps)
	}
	return after(res, r)
}

func TestExhaustive(t *testing.T) {
	st := pb.Stats("safekv_exhaustive")
	st.SetExhaustive(true)
	budget := 2
	if pb.Thorough() {
		budget = 3
	}
	st.SetRule(fmt.Sprintf("all schedules with <= %d pre-emptions (scheduling points: every lock/unlock and every callback step) for every ordered pair of single calls from a 14-call menu on key 0 (thorough: also two-call threads on a 7-call menu), map initially {} or {0:10}; oracle: porcupine linearizability against the atomic map model, deadlock detection; every (program, schedule) is distinct; non-trivial = at least one pre-emption", budget))
	menu := []call{
		{K: "get"}, {K: "set"}, {K: "setnx"}, {K: "setx"}, {K: "delete", Keys: []int{0}}, {K: "has"}, {K: "len"}, {K: "keys"}, {K: "values"},
		{K: "range", Stop: -1}, {K: "all", Stop: 0}, {K: "clear"}, {K: "map", W: true}, {K: "getwithmap", Keys: []int{0, 1}}, {K: "getwithlock"},
	}
	var cfgs []kvCase
	mk := func(cs []call, th int) []call {
		out := make([]call, len(cs))
		for i, c := range cs {
			c.Val = 1000*(th+1) + i
			if c.K != "range" && c.K != "all" {
				c.Stop = -1
			}
			out[i] = c
		}
		return out
	}
	for _, init := range []map[int]int{{}, {0: 10}} {
		for _, a := range menu {
			for _, b := range menu {
				cfgs = append(cfgs, kvCase{Initial: init, Threads: [][]call{mk([]call{a}, 0), mk([]call{b}, 1)}})
			}
		}
	}
	if pb.Thorough() {
		small := []call{{K: "set"}, {K: "setnx"}, {K: "delete", Keys: []int{0}}, {K: "keys"}, {K: "range", Stop: -1}, {K: "clear"}, {K: "map", W: true}}
		for _, a1 := range small {
			for _, a2 := range small {
				for _, b1 := range small {
					for _, b2 := range small {
						cfgs = append(cfgs, kvCase{Initial: map[int]int{0: 10}, Threads: [][]call{mk([]call{a1, a2}, 0), mk([]call{b1, b2}, 1)}})
					}
				}
			}
		}
	}
	key := uint64(0)
	for _, cfg := range cfgs {
		cfg := cfg
		_, trace, err, complete := conc.Explore(func() ([]func(), func(conc.Result) error) {
			bodies, after := build(cfg)
			return bodies, func(res conc.Result) error {
				r := &pb.Rec{}
				key++
				e := after(res, r)
				r.NonTrivialIf(res.Switches > 0)
				st.CaseKey(key, r, func() []byte {
					b, _ := json.Marshal(map[string]any{"program": cfg, "decisions": res.Trace})
					return b
				})
				return e
			}
		}, budget, maxSteps, 0)
		if err != nil {
			bad := cfg
			bad.Trace = trace
			js, _ := json.Marshal(bad)
			st.Violation("exhaustive", js, err)
			t.Errorf("program %+v: %v", cfg, err)
			return
		}
		if !complete {
			st.SetExhaustive(false)
		}
	}
	st.Note("%d programs enumerated completely", len(cfgs))
}

func init() {
	pb.Register("safekv_sched", pb.Options{Base: 6000,
		Required: []string{"concurrent SetNx same key", "snapshot vs Clear", "callback or lock boundary pre-empted", "snapshot method overlapping a writer"},
		Rule:     "the real SafeKV code rebuilt with \"sync\" redirected to cooperative locks of a deterministic scheduler (scheduling points at every Lock/Unlock/RLock/RUnlock; the harness callbacks passed to Range/All/Map/GetWithLock yield too, so other threads are tried inside the critical section); 2-4 threads x 1-4 calls over all 16 methods, keys 0..2, unique values, drawn initial content; oracle: porcupine linearizability against a plain map in which every call is one atomic step (SetNx true iff absent, SetX never creates, Keys/Values/Range/All/GetWithMap/Map observe one snapshot), quiescent read-back, deadlock detection; non-trivial = overlapping calls on the same key with a writer, or a snapshot method overlapping a writer"},
		genSched, runSched)
	pb.RegisterReplay("safekv_exhaustive", func(raw json.RawMessage) error {
		var c kvCase
		if err := json.Unmarshal(raw, &c); err != nil {
			return fmt.Errorf("BADREPLAY: %v", err)
		}
		return runSched(c, &pb.Rec{})
	})
}

// ---- large snapshots: one reader call over hundreds of keys against one atomic bulk writer call.
// Internal batching (a lock released and re-taken half-way through a large request) shows up as a
// snapshot that is neither the state before nor the state after the writer.

type bigCase struct {
	N      int
	Reader string // getwithmap keys values range all
	Writer string // mapset clear delete mapdelete
	Slots  []conc.Slot
}

func genBig(t *rapid.T) bigCase {
	return bigCase{
		N:      rapid.SampledFrom([]int{5, 64, 127, 128, 129, 257, 300, 700, 5, 64, 127, 128, 129, 257, 300, 700, 1024, 1025, 1027, 1300, 2100, 4100}).Draw(t, "n"),
		Reader: rapid.SampledFrom([]string{"getwithmap", "getwithmap", "keys", "values", "range", "all"}).Draw(t, "reader"),
		Writer: rapid.SampledFrom([]string{"mapset", "mapset", "clear", "delete", "delete", "mapdelete", "mapadd", "set1", "delete1"}).Draw(t, "writer"),
		Slots:  conc.GenSlots(t, 2, 10),
	}
}

func runBig(c bigCase, r *pb.Rec) error {
	if c.N < 1 || c.N > 5000 {
		return nil
	}
	conc.Reset()
	s := newKV(kvCase{})
	before, after := map[int]int{}, map[int]int{}
	for k := 0; k < c.N; k++ {
		s.Set(k, 1)
		before[k] = 1
	}
	var writer func()
	switch c.Writer {
	case "mapset":
		for k := range before {
			after[k] = 2
		}
		writer = func() {
			s.Map(func(m mapz.KV[int, int]) {
				for k := range m {
					m[k] = 2
				}
			})
		}
	case "clear":
		writer = s.Clear
	case "delete", "mapdelete":
		var ks []int
		for k := 0; k < c.N; k++ {
			if k%2 == 0 {
				ks = append(ks, k)
			} else {
				after[k] = 1
			}
		}
		if c.Writer == "delete" {
			writer = func() { s.Delete(ks...) }
		} else {
			writer = func() {
				s.Map(func(m mapz.KV[int, int]) {
					for _, k := range ks {
						delete(m, k)
					}
				})
			}
		}
	case "mapadd": // the map grows by a quarter in one call
		for k := range before {
			after[k] = 1
		}
		for k := c.N; k < c.N+c.N/4+1; k++ {
			after[k] = 3
		}
		writer = func() {
			s.Map(func(m mapz.KV[int, int]) {
				for k := c.N; k < c.N+c.N/4+1; k++ {
					m[k] = 3
				}
			})
		}
	case "set1", "delete1": // the size changes by one
		for k := range before {
			after[k] = 1
		}
		if c.Writer == "set1" {
			after[c.N] = 3
			writer = func() { s.Set(c.N, 3) }
		} else {
			delete(after, c.N/2)
			writer = func() { s.Delete(c.N / 2) }
		}
	default:
		return nil
	}
	got := map[int]int{}
	var reader func()
	switch c.Reader {
	case "getwithmap":
		reader = func() {
			req := map[int]int{}
			for k := 0; k < c.N+c.N/4+3; k++ {
				req[k] = -1
			}
			s.GetWithMap(req)
			for k, v := range req {
				if v != -1 {
					got[k] = v
				}
			}
		}
	case "keys":
		reader = func() {
			for _, k := range s.Keys() {
				got[k]++
			}
		}
	case "values":
		reader = func() {
			for i, v := range s.Values() {
				got[i] = v
			}
		}
	case "range":
		// the callbacks are scheduling points (every 16th key): the writer is tried while the enumeration is under way
		reader = func() {
			s.Range(func(k, v int) bool {
				if got[k] = v; len(got)%16 == 1 {
					conc.Yield()
				}
				return true
			})
		}
	case "all":
		reader = func() {
			s.All()(func(k, v int) bool {
				if got[k] = v; len(got)%16 == 1 {
					conc.Yield()
				}
				return true
			})
		}
	default:
		return nil
	}
	res := conc.RunSlots([]func(){reader, writer}, c.Slots, maxSteps)
	if res.Budget {
		r.Class("INCONCLUSIVE: step budget exhausted")
		return nil
	}
	if res.Err != nil {
		return res.Err
	}
	same := func(want map[int]int) bool {
		switch c.Reader {
		case "keys":
			if len(got) != len(want) {
				return false
			}
			for k, n := range got {
				if _, ok := want[k]; !ok || n != 1 {
					return false
				}
			}
			return true
		case "values":
			if len(got) != len(want) {
				return false
			}
			cnt := map[int]int{}
			for _, v := range want {
				cnt[v]++
			}
			for _, v := range got {
				cnt[v]--
			}
			for _, n := range cnt {
				if n != 0 {
					return false
				}
			}
			return true
		}
		if len(got) != len(want) {
			return false
		}
		for k, v := range want {
			if got[k] != v {
				return false
			}
		}
		return true
	}
	if !same(before) && !same(after) {
		return fmt.Errorf("%s over %d keys concurrent with one %s call observed %d entries that are neither the map before nor the map after the writer (no single instant)", c.Reader, c.N, c.Writer, len(got))
	}
	r.ClassIf(same(after) && !same(before), "snapshot taken after the writer")
	r.ClassIf(same(before), "snapshot taken before the writer")
	r.ClassIf(c.N > 128, "more than 128 keys")
	r.ClassIf(c.N > 1024, "more than 1024 keys")
	r.ClassIf(c.N > 1024 && c.Writer == "delete", "one Delete call with more than 512 keys")
	r.ClassIf(c.N > 1024 && (c.Writer == "set1" || c.Writer == "delete1" || c.Writer == "mapadd" || c.Writer == "delete"), "more than 1024 keys and a writer that changes the size")
	r.NonTrivialIf(c.N > 128)
	return nil
}

func init() {
	pb.Register("safekv_big_snapshot", pb.Options{Base: 1500, Required: []string{"more than 128 keys", "more than 1024 keys", "one Delete call with more than 512 keys", "more than 1024 keys and a writer that changes the size", "snapshot taken after the writer", "snapshot taken before the writer"},
		Rule: "one snapshot call (GetWithMap / Keys / Values / Range / All) over 5..4100 keys in one thread against one atomic writer call (Map setting every key, Clear, Delete of half the keys, Map deleting half, Map adding a quarter, Set of one new key, Delete of one key) in another, under generated schedules of the lock-level scheduling points; oracle: the observation equals the map before or the map after the writer; non-trivial = more than 128 keys"},
		genBig, runBig)
}

// ---- large populations that shrink: a store that once held thousands of keys is emptied almost completely
// (internal rebuilding or shrinking of the map happens, if at all, here) while another thread works on keys
// of its own. Only that thread touches its keys, so every one of its reads has exactly one correct answer.

type popCase struct {
	N      int // initial population
	Keep   int // keys that survive
	Chunks int // the shrinking thread uses this many Delete calls (the last keys one at a time when Chunks == 0)
	Rounds int // Set/Get rounds of the private thread
	Slots  []conc.Slot
}

func genPop(t *rapid.T) popCase {
	return popCase{N: rapid.SampledFrom([]int{300, 1023, 1024, 1025, 1100, 2048, 4100}).Draw(t, "n"), Keep: rapid.SampledFrom([]int{0, 1, 8, 100, 255, 256, 257}).Draw(t, "keep"),
		Chunks: rapid.IntRange(0, 5).Draw(t, "chunks"), Rounds: rapid.IntRange(1, 6).Draw(t, "rounds"), Slots: conc.GenSlots(t, 2, 14)}
}

func runPop(c popCase, r *pb.Rec) error {
	if c.N < 1 || c.N > 10000 || c.Keep < 0 || c.Chunks < 0 || c.Chunks > 16 || c.Rounds < 1 || c.Rounds > 16 {
		return nil
	}
	if c.Keep > c.N {
		c.Keep = c.N
	}
	conc.Reset()
	s := newKV(kvCase{})
	for k := 0; k < c.N; k++ {
		s.Set(k, 1)
	}
	const priv, privNx, privDel = 1000001, 1000002, 1000003
	var doomed []int
	for k := c.Keep; k < c.N; k++ {
		doomed = append(doomed, k)
	}
	shrinker := func() {
		if c.Chunks == 0 {
			cut := len(doomed) - 40
			if cut < 0 {
				cut = 0
			}
			s.Delete(doomed[:cut]...)
			for _, k := range doomed[cut:] {
				s.Delete(k)
			}
			return
		}
		per := (len(doomed) + c.Chunks - 1) / c.Chunks
		for i := 0; i < len(doomed); i += per {
			s.Delete(doomed[i:min(i+per, len(doomed))]...)
		}
	}
	var bad error
	fail := func(f string, a ...any) {
		if bad == nil {
			bad = fmt.Errorf(f, a...)
		}
	}
	private := func() {
		for i := 1; i <= c.Rounds; i++ {
			s.Set(priv, i)
			if v, ok := s.Get(priv); !ok || v != i {
				fail("thread B: Get(own key) = %d,%v right after its own Set(own key, %d) returned; nobody else touches that key (population %d shrinking to %d)", v, ok, i, c.N, c.Keep)
			}
			switch i {
			case 1:
				if !s.SetNx(privNx, 7) {
					fail("thread B: SetNx on its own absent key returned false")
				}
			case 2:
				if !s.Has(privNx) {
					fail("thread B: its own key set by SetNx in the previous round is gone (population %d shrinking to %d)", c.N, c.Keep)
				}
				s.Set(privDel, 1)
			case 3:
				s.Delete(privDel)
			default:
				if s.Has(privDel) {
					fail("thread B: a key it deleted itself is back (population %d shrinking to %d)", c.N, c.Keep)
				}
			}
		}
	}
	res := conc.RunSlots([]func(){shrinker, private}, c.Slots, 20000)
	if res.Budget {
		r.Class("INCONCLUSIVE: step budget exhausted")
		return nil
	}
	if res.Err != nil {
		return res.Err
	}
	if bad != nil {
		return bad
	}
	want := map[int]int{priv: c.Rounds}
	for k := 0; k < c.Keep; k++ {
		want[k] = 1
	}
	want[privNx] = 7
	if c.Rounds == 2 {
		want[privDel] = 1
	}
	if s.Len() != len(want) {
		return fmt.Errorf("after both threads finished: Len = %d, want %d (population %d shrunk to %d, private keys of thread B)", s.Len(), len(want), c.N, c.Keep)
	}
	for k, v := range want {
		if g, ok := s.Get(k); !ok || g != v {
			return fmt.Errorf("after both threads finished: Get(%d) = %d,%v want %d", k, g, ok, v)
		}
	}
	r.ClassIf(c.N >= 1024 && c.Keep*4 < c.N, "population >= 1024 shrunk below a quarter")
	r.NonTrivialIf(c.N >= 1024)
	return nil
}

func init() {
	pb.Register("safekv_big_population", pb.Options{Base: 300, Required: []string{"population >= 1024 shrunk below a quarter"},
		Rule: "a store of 300..4100 keys is shrunk to 0..257 keys by one thread (one Delete call, several, or the last 40 keys one by one) while another thread does Set/Get/SetNx/Has/Delete on three keys of its own, under generated schedules of the lock-level scheduling points; oracle: the second thread reads its own writes (nobody else touches its keys), final content and Len; non-trivial = population >= 1024"},
		genPop, runPop)
}
