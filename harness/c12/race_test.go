//go:build !sched

package c12

import (
	"encoding/json"
	"fmt"
	"os"
	"testing"

	"github.com/welllog/golib/mapz"
	"pgregory.net/rapid"

	"verif/harness/internal/conc"
	"verif/harness/internal/lin"
	"verif/harness/internal/pb"
)

func runRaced(c kvCase, r *pb.Rec) error {
	if !sane(c) {
		return nil
	}
	s := newKV(c)
	recs := make([]*recorder, len(c.Threads))
	var bodies []func()
	for i, th := range c.Threads {
		i, th := i, th
		recs[i] = &recorder{}
		bodies = append(bodies, func() { execThread(s, i, th, recs[i]) })
	}
	if p := conc.RunRaced(bodies); len(p) > 0 {
		return fmt.Errorf("panic in a goroutine: %v", p[0])
	}
	var ops []lin.Op
	for _, rc := range recs {
		ops = append(ops, rc.ops...)
	}
	return finish(s, c, ops, r)
}

func saveCurrent(prop string, js []byte) {
	if cur := os.Getenv("VERIF_CURRENT_CASE"); cur != "" {
		b, _ := json.Marshal(pb.ReplayFile{Property: os.Getenv("VERIF_PROPERTY"), Prop: prop, Kind: "race-detector", Mode: "race", Case: js, Error: "data race reported by the race detector while this program was running (report next to this file)"})
		os.WriteFile(cur, b, 0o644)
	}
}

func TestRaced(t *testing.T) {
	st := pb.Stats("safekv_raced")
	st.SetRule("generated programs (2-5 goroutines x 2-6 calls over all 16 methods) on real goroutines released from a barrier, unshimmed code under the race detector (halt_on_error; the running program is saved before every execution); history recorded with an atomic logical clock and checked with the same linearizability oracle; non-trivial as in the controlled tier")
	gen := rapid.Custom(func(t *rapid.T) kvCase { return genProgram(t, 5, 6) })
	n := pb.Scaled(1500)
	for i := 0; i < n; i++ {
		c := gen.Example(int(pb.Seed("raced")%1000003) + i)
		js, _ := json.Marshal(c)
		restoreProcs, procsClass := pb.FlipProcs(js)
		saveCurrent("safekv_raced", js)
		rec := &pb.Rec{}
		reps := 1
		if i%10 == 0 {
			reps = 20
		}
		for k := 0; k < reps; k++ {
			if err := runRaced(c, rec); err != nil {
				st.Violation("raced", js, err)
				t.Fatalf("raced program %s: %v", js, err)
			}
		}
		restoreProcs()
		rec.ClassIf(procsClass != "", procsClass)
		st.Case(js, rec)
	}
}

// tight loops: every method hammered from several goroutines for the race detector alone
type loopCase struct {
	Methods [][]string
	Iters   int
}

func runLoops(c loopCase) error {
	s := mapz.NewSafeKV[int, int](0)
	var bodies []func()
	for gi, ms := range c.Methods {
		gi, ms := gi, ms
		bodies = append(bodies, func() {
			for it := 0; it < c.Iters; it++ {
				for j, m := range ms {
					execCall(s, gi, call{K: m, Key: (it + j) % nKeys, Val: it, Keys: []int{it % nKeys}, Stop: it%3 - 1, W: it%2 == 0})
				}
			}
		})
	}
	if p := conc.RunRaced(bodies); len(p) > 0 {
		return fmt.Errorf("panic in a goroutine: %v", p[0])
	}
	if m := argDamage.Swap(nil); m != nil {
		return fmt.Errorf("%s", *m)
	}
	return nil
}

func TestRacedLoops(t *testing.T) {
	st := pb.Stats("safekv_raced_loops")
	st.SetRule("3-4 goroutines each looping 200 times over a drawn subset of the 16 methods (always including a writer) for the race detector; no history oracle; every drawn method assignment is a case, non-trivial = a snapshot method and Clear/Set/Delete run in different goroutines")
	gen := rapid.Custom(func(t *rapid.T) loopCase {
		n := rapid.IntRange(3, 4).Draw(t, "g")
		c := loopCase{Iters: 200}
		for i := 0; i < n; i++ {
			c.Methods = append(c.Methods, rapid.SliceOfN(rapid.SampledFrom(allKinds), 1, 4).Draw(t, "methods"))
		}
		c.Methods[0] = append(c.Methods[0], rapid.SampledFrom([]string{"set", "clear", "delete", "setnx"}).Draw(t, "writer"))
		return c
	})
	n := pb.Scaled(60)
	for i := 0; i < n; i++ {
		c := gen.Example(int(pb.Seed("loops")%1000003) + i)
		js, _ := json.Marshal(c)
		restoreProcs, procsClass := pb.FlipProcs(js)
		saveCurrent("safekv_raced_loops", js)
		if err := runLoops(c); err != nil {
			st.Violation("raced-loops", js, err)
			t.Fatalf("loops %s: %v", js, err)
		}
		rec := &pb.Rec{}
		snap, wr := false, false
		for gi, ms := range c.Methods {
			for _, m := range ms {
				if gi > 0 && (m == "keys" || m == "values" || m == "len" || m == "range" || m == "all") {
					snap = true
				}
				if m == "set" || m == "clear" || m == "delete" {
					wr = true
				}
			}
		}
		rec.NonTrivialIf(snap && wr)
		rec.ClassIf(snap && wr, "snapshot method vs writer in different goroutines")
		restoreProcs()
		rec.ClassIf(procsClass != "", procsClass)
		st.Case(js, rec)
	}
}

func init() {
	pb.RegisterReplay("safekv_raced", func(raw json.RawMessage) error {
		var c kvCase
		if err := json.Unmarshal(raw, &c); err != nil {
			return fmt.Errorf("BADREPLAY: %v", err)
		}
		for i := 0; i < 400; i++ {
			if err := runRaced(c, &pb.Rec{}); err != nil {
				return err
			}
		}
		return nil
	})
	pb.RegisterReplay("safekv_raced_loops", func(raw json.RawMessage) error {
		var c loopCase
		if err := json.Unmarshal(raw, &c); err != nil {
			return fmt.Errorf("BADREPLAY: %v", err)
		}
		for i := 0; i < 20; i++ {
			if err := runLoops(c); err != nil {
				return err
			}
		}
		return nil
	})
}
