// C12 — SafeKV is data-race free and every operation is atomic.
package c12

import (
	"fmt"
	"sort"
	"sync/atomic"
	"testing"

	"github.com/welllog/golib/mapz"
	"pgregory.net/rapid"

	"verif/harness/internal/conc"
	"verif/harness/internal/lin"
	"verif/harness/internal/pb"
)

func TestMain(m *testing.M)   { pb.Main(m) }
func TestReplay(t *testing.T) { pb.RunReplay(t) }

const nKeys = 3

type call struct {
	K    string
	Key  int
	Val  int
	Keys []int `json:",omitempty"`
	Stop int   // Range/All: callback returns false at this index (-1 never)
	W    bool  // Map: the callback also writes Key=Val
}

type kvCase struct {
	Initial map[int]int
	Threads [][]call
	Slots   []conc.Slot `json:",omitempty"`
	Trace   []int       `json:",omitempty"`
}

var allKinds = []string{"get", "getwithmap", "getwithlock", "set", "setnx", "setx", "delete", "has", "contains", "len", "keys", "values", "range", "all", "clear", "map"}

func genCall(t *rapid.T, th, idx int) call {
	k := rapid.SampledFrom([]string{"get", "getwithmap", "getwithlock", "set", "set", "setnx", "setnx", "setx", "delete", "has", "contains", "len", "keys", "values", "range", "all", "clear", "map", "map"}).Draw(t, "k")
	c := call{K: k, Key: rapid.IntRange(0, nKeys-1).Draw(t, "key"), Val: 1000*(th+1) + idx, Stop: -1}
	switch k {
	case "delete", "getwithmap":
		c.Keys = rapid.SliceOfNDistinct(rapid.IntRange(0, nKeys-1), 0, nKeys, func(x int) int { return x }).Draw(t, "keys")
	case "range", "all":
		c.Stop = rapid.IntRange(-1, 2).Draw(t, "stop")
	case "map":
		c.W = rapid.Bool().Draw(t, "write")
	}
	return c
}

func genProgram(t *rapid.T, maxThreads, maxCalls int) kvCase {
	c := kvCase{Initial: map[int]int{}}
	for k := 0; k < nKeys; k++ {
		if rapid.Bool().Draw(t, "present") {
			c.Initial[k] = 10 + k
		}
	}
	nt := rapid.IntRange(2, maxThreads).Draw(t, "threads")
	for i := 0; i < nt; i++ {
		n := rapid.IntRange(1, maxCalls).Draw(t, "ncalls")
		var th []call
		for j := 0; j < n; j++ {
			th = append(th, genCall(t, i, j))
		}
		c.Threads = append(c.Threads, th)
	}
	return c
}

func sane(c kvCase) bool {
	if len(c.Threads) == 0 || len(c.Threads) > 6 {
		return false
	}
	for k, v := range c.Initial {
		if k < 0 || k >= nKeys || v < 0 {
			return false
		}
	}
	ok := map[string]bool{}
	for _, k := range allKinds {
		ok[k] = true
	}
	for _, th := range c.Threads {
		if len(th) > 10 {
			return false
		}
		for _, cl := range th {
			if !ok[cl.K] || cl.Key < 0 || cl.Key >= nKeys || cl.Val < 0 {
				return false
			}
			for _, k := range cl.Keys {
				if k < 0 || k >= nKeys {
					return false
				}
			}
		}
	}
	return true
}

type recorder struct{ ops []lin.Op }

func execCall(s *mapz.SafeKV[int, int], th int, cl call) lin.Op {
	o := lin.Op{Thread: th, Kind: cl.K, Arg: cl.Key, Call: conc.Tick()}
	switch cl.K {
	case "get":
		o.Ret, o.OK = s.Get(cl.Key)
	case "getwithlock":
		s.GetWithLock(cl.Key, func(v int) {
			conc.Yield() // other threads are tried inside the critical section
			o.Ret, o.OK = v, true
		})
	case "getwithmap":
		m := map[int]int{}
		for _, k := range cl.Keys {
			m[k] = -1
		}
		s.GetWithMap(m)
		ks := append([]int(nil), cl.Keys...)
		sort.Ints(ks)
		for _, k := range ks {
			o.Keys = append(o.Keys, k)
			o.Vals = append(o.Vals, m[k])
		}
	case "has":
		o.OK = s.Has(cl.Key)
	case "contains":
		o.OK = s.Contains(cl.Key)
	case "set":
		o.Arg2 = cl.Val
		s.Set(cl.Key, cl.Val)
	case "setnx":
		o.Arg2 = cl.Val
		o.OK = s.SetNx(cl.Key, cl.Val)
	case "setx":
		o.Arg2 = cl.Val
		o.OK = s.SetX(cl.Key, cl.Val)
	case "delete":
		o.Keys = append([]int(nil), cl.Keys...)
		arg := append(make([]int, 0, len(cl.Keys)+2), cl.Keys...) // the caller's own list of keys
		s.Delete(arg...)
		for i := range arg {
			if arg[i] != o.Keys[i] {
				msg := fmt.Sprintf("Delete(%v...) changed the caller's slice of keys to %v", o.Keys, arg)
				argDamage.CompareAndSwap(nil, &msg)
			}
		}
	case "clear":
		s.Clear()
	case "len":
		o.Ret = s.Len()
	case "keys":
		o.Keys = s.Keys()
		if o.Keys == nil {
			o.Keys = []int{}
		}
	case "values":
		o.Vals = s.Values()
	case "range", "all":
		o.Full = true
		f := func(k, v int) bool {
			conc.Yield()
			o.Keys = append(o.Keys, k)
			o.Vals = append(o.Vals, v)
			if cl.Stop >= 0 && len(o.Keys)-1 == cl.Stop {
				o.Full = false
				return false
			}
			return true
		}
		if cl.K == "range" {
			s.Range(f)
		} else {
			s.All()(f)
		}
	case "map":
		o.Arg2 = cl.Val
		s.Map(func(m mapz.KV[int, int]) {
			for k, v := range m {
				o.Keys = append(o.Keys, k)
				o.Vals = append(o.Vals, v)
			}
			conc.Yield()
			if cl.W {
				m[cl.Key] = cl.Val
				o.OK = true
			}
			conc.Yield()
		})
	}
	o.Return = conc.Tick()
	return o
}

func execThread(s *mapz.SafeKV[int, int], th int, calls []call, rec *recorder) {
	for _, cl := range calls {
		rec.ops = append(rec.ops, execCall(s, th, cl))
	}
}

func newKV(c kvCase) *mapz.SafeKV[int, int] {
	conc.Reset()
	argDamage.Store(nil)
	capHint := 2
	if len(c.Initial) == 0 {
		capHint = 0 // nothing allocated up front by the caller: the first writes of the program are the first writes ever
	}
	s := mapz.NewSafeKV[int, int](capHint)
	for k, v := range c.Initial {
		s.Set(k, v)
	}
	return s
}

// argDamage holds the first report of a call that modified an argument the caller still owns.
var argDamage atomic.Pointer[string]

func finish(s *mapz.SafeKV[int, int], c kvCase, ops []lin.Op, r *pb.Rec) error {
	if m := argDamage.Swap(nil); m != nil {
		return fmt.Errorf("%s", *m)
	}
	th := len(c.Threads)
	// quiescent observers
	for _, k := range []string{"len", "keys", "values"} {
		ops = append(ops, execCall(s, th, call{K: k, Stop: -1}))
	}
	for k := 0; k < nKeys; k++ {
		ops = append(ops, execCall(s, th, call{K: "get", Key: k}))
	}
	inc, err := lin.CheckKV(ops, c.Initial)
	if err != nil {
		return fmt.Errorf("%v\nhistory:\n%s", err, lin.Format(ops))
	}
	r.ClassIf(inc, "INCONCLUSIVE: linearizability search hit its time limit")
	writer := func(o lin.Op) bool {
		switch o.Kind {
		case "set", "setnx", "setx", "delete", "clear":
			return true
		case "map":
			return o.OK
		}
		return false
	}
	snapshot := func(o lin.Op) bool {
		switch o.Kind {
		case "keys", "values", "range", "all", "getwithmap", "map":
			return true
		}
		return false
	}
	ov := func(a, b lin.Op) bool { return a.Thread != b.Thread && a.Call < b.Return && b.Call < a.Return }
	nt := false
	for i, a := range ops {
		for j, b := range ops {
			if i == j || !ov(a, b) {
				continue
			}
			if writer(a) && (snapshot(b) || b.Kind == "len") {
				nt = true
				r.Class("snapshot method overlapping a writer")
				r.ClassIf(a.Kind == "clear", "snapshot vs Clear")
			}
			if a.Kind == "setnx" && b.Kind == "setnx" && a.Arg == b.Arg {
				r.Class("concurrent SetNx same key")
				nt = true
			}
			if writer(a) && a.Arg == b.Arg && (b.Kind == "get" || writer(b) || b.Kind == "has") {
				nt = true
			}
		}
	}
	r.NonTrivialIf(nt)
	return nil
}
