// Package trieg holds the pattern-set / text generators and the brute-force
// occurrence oracle shared by C05 and C06.
package trieg

import (
	"sort"
	"strings"
	"unicode/utf8"

	"pgregory.net/rapid"

	"verif/harness/internal/g"
)

type Case struct {
	Patterns []string // valid UTF-8 by construction
	Text     g.B      // arbitrary bytes
	Keys     []string // valid UTF-8 keys for PrefixSearch / FuzzySearch
	Repl     string
	Mask     rune
	Shape    string // how the case was built (for classification)
	Stages   []int  `json:",omitempty"` // BuildFailureLinks is also called after inserting this many patterns (incremental use)
}

// BuildStaged inserts the patterns in order, calling build() after the stage points and once at the end.
func BuildStaged(c Case, insert func(string), build func()) {
	stage := map[int]int{}
	for _, k := range c.Stages {
		stage[k]++
	}
	for i, p := range c.Patterns {
		insert(p)
		for n := stage[i+1]; n > 0 && i+1 < len(c.Patterns); n-- {
			build()
		}
	}
	build()
	if stage[len(c.Patterns)] > 0 {
		build() // building twice must be harmless
	}
}

type Occ struct{ Start, Stop int }

// Occurrences is the byte-level brute force: all (pattern, position) pairs of the distinct non-empty patterns.
func Occurrences(patterns []string, text string) (occ []Occ, pats []string) {
	seen := map[string]bool{}
	for _, p := range patterns {
		if p == "" || seen[p] {
			continue
		}
		seen[p] = true
		for i := 0; i+len(p) <= len(text); i++ {
			if text[i:i+len(p)] == p {
				occ = append(occ, Occ{i, i + len(p)})
				pats = append(pats, p)
			}
		}
	}
	return
}

func Distinct(patterns []string) []string {
	seen := map[string]bool{}
	var out []string
	for _, p := range patterns {
		if p != "" && !seen[p] {
			seen[p] = true
			out = append(out, p)
		}
	}
	sort.Strings(out)
	return out
}

var widePool = func() []rune {
	var rs []rune
	for i := 0; i < 26; i++ {
		rs = append(rs, rune('A'+i))
	}
	for i := 0; i < 30; i++ {
		rs = append(rs, rune(0x410+i), rune(0x4e00+i*7))
	}
	return rs
}()

// narrow alphabets: every rune of a case comes from one class, so that "the largest rune in the dictionary" sits
// right at, just below or just above an encoding boundary (no other rune hides a boundary mistake)
var narrow = [][]rune{
	{'a', 'b', 'c'},
	{'a', 'b', 0x7f},
	{'a', 'b', 0x80},
	{'a', 0x7f, 0x80},
	{'a', 0x80, 0x81},
	{0x80, 0x81, 0xbf},
	{'a', 0xa9, 0xbf, 0xc0},
	{'a', 0xe9, 0xff},
	{'a', 0xff, 0x100},
	{'a', 0x3b1, 0x7ff},
	{'a', 0x7ff, 0x800},
	{0x800, 0x801, 0xfff},
	{'a', 0xd7ff, 0xe000},
	{'a', 0xfffd},
	{'a', 0xfffe, 0xffff},
	{'a', 0xffff, 0x10000},
	{0x10000, 0x10001, 0x10ffff},
}

func alphabet(t *rapid.T) []rune {
	if rapid.IntRange(0, 5).Draw(t, "narrow") == 0 {
		return append([]rune(nil), rapid.SampledFrom(narrow).Draw(t, "class")...)
	}
	n := rapid.IntRange(4, 13).Draw(t, "alphabet")
	rs := []rune{0xfffd}
	seen := map[rune]bool{0xfffd: true}
	pool := []rune{'a', 'b', 'c', 'd', 'e', 'f', 'x', 0xe9, 0x3b1, 0x7ff, 0x800, 0x65e5, 0x672c, 0x6708, 0xffff, 0x10000, 0x1f600, 0x10ffff, ' ', 0,
		0x7f, 0x80, 0x81, 0xbf, 0xc0, 0xff, 0x100, 0xd7ff, 0xe000, 0xfffe, 'a', 'b', 'c', 0xe9, 0x65e5}
	for len(rs) < n+1 {
		r := rapid.SampledFrom(pool).Draw(t, "r")
		if !seen[r] {
			seen[r] = true
			rs = append(rs, r)
		}
	}
	return rs
}

func str(t *rapid.T, alpha []rune, min, max int, label string) string {
	return string(rapid.SliceOfN(rapid.SampledFrom(alpha), min, max).Draw(t, label))
}

// Gen draws a case. withKeys adds PrefixSearch/FuzzySearch keys; withRepl adds replacement strings.
func Gen(t *rapid.T) Case {
	alpha := alphabet(t)
	c := Case{}
	shape := rapid.SampledFrom([]string{"core", "core", "core", "core", "core", "core", "random", "random", "wide", "wide", "leftmerge", "leftmerge", "leftmerge", "leftmerge", "touching", "touching", "many", "dups", "bushy", "bushy"}).Draw(t, "shape")
	c.Shape = shape
	var textParts []string
	switch shape {
	case "core", "random":
		core := []rune(str(t, alpha, 3, 8, "core"))
		n := rapid.IntRange(1, 12).Draw(t, "npat")
		for i := 0; i < n; i++ {
			var p string
			switch rapid.IntRange(0, 6).Draw(t, "pk") {
			case 0: // prefix
				p = string(core[:rapid.IntRange(1, len(core)).Draw(t, "l")])
			case 1: // suffix
				p = string(core[rapid.IntRange(0, len(core)-1).Draw(t, "s"):])
			case 2: // infix
				a := rapid.IntRange(0, len(core)-1).Draw(t, "a")
				p = string(core[a:rapid.IntRange(a+1, len(core)).Draw(t, "b")])
			case 3: // extension of an existing pattern
				if len(c.Patterns) > 0 {
					p = rapid.SampledFrom(c.Patterns).Draw(t, "base") + str(t, alpha, 1, 2, "ext")
				} else {
					p = string(core)
				}
			case 4: // duplicate
				if len(c.Patterns) > 0 {
					p = rapid.SampledFrom(c.Patterns).Draw(t, "dup")
				} else {
					p = string(core[:1])
				}
			case 5:
				p = str(t, alpha, 1, 5, "rand")
			default:
				p = string(core)
			}
			if shape == "random" {
				p = str(t, alpha, 1, 5, "rand")
			}
			c.Patterns = append(c.Patterns, p)
		}
		if rapid.IntRange(0, 9).Draw(t, "emptyPattern") == 0 {
			c.Patterns = append(c.Patterns, "")
		}
		textParts = append(textParts, string(core))
	case "wide":
		// many distinct first runes: the BFS ring queue of BuildFailureLinks must grow (initial capacity 10), also while rotated
		k := rapid.SampledFrom([]int{12, 25, 45}).Draw(t, "firsts")
		deep := rapid.IntRange(0, 3).Draw(t, "deep")
		for i := 0; i < k; i++ {
			p := string(widePool[i])
			for d := 0; d < deep; d++ {
				p += string(widePool[(i*7+d*3+rapid.IntRange(0, 5).Draw(t, "w"))%len(widePool)])
			}
			c.Patterns = append(c.Patterns, p)
			if rapid.IntRange(0, 3).Draw(t, "fork") == 0 {
				c.Patterns = append(c.Patterns, p+string(widePool[(i+1)%len(widePool)]), p+string(alpha[0]))
			}
		}
		alpha = append(alpha, widePool[:k]...)
	case "leftmerge":
		// A1 G1 A2 G2 ... Ak T with short patterns Ai and a long pattern L that starts inside A1 (or right behind
		// its first rune) and ends after Ak: the shape named in the property statement
		k := rapid.IntRange(2, 4).Draw(t, "k")
		var parts []string
		for i := 0; i < k; i++ {
			a := str(t, alpha, 2, 3, "A")
			c.Patterns = append(c.Patterns, a)
			parts = append(parts, a, str(t, alpha, 1, 2, "G"))
		}
		tail := str(t, alpha, 0, 2, "T")
		whole := strings.Join(parts, "") + tail
		rs := []rune(whole)
		from := rapid.IntRange(1, utf8.RuneCountInString(parts[0])).Draw(t, "from") // 1..len(A1): inside A1 or touching its end
		c.Patterns = append(c.Patterns, string(rs[from:]))
		if rapid.Bool().Draw(t, "extra") {
			c.Patterns = append(c.Patterns, str(t, alpha, 1, 3, "extraPat"))
		}
		textParts = append(textParts, str(t, alpha, 0, 2, "pre"), whole, str(t, alpha, 0, 2, "post"))
	case "many":
		// hundreds of occurrences in one text: buffers and tables sized for small inputs are crossed
		a, b := str(t, alpha, 1, 1, "a"), str(t, alpha, 1, 2, "b")
		c.Patterns = append(c.Patterns, a, a+a, b)
		reps := rapid.SampledFrom([]int{130, 257, 300, 520}).Draw(t, "reps")
		textParts = append(textParts, strings.Repeat(a, reps), b, strings.Repeat(a+b, reps/4))
	case "bushy":
		// 20..70 short patterns over a handful of runes: few first runes, many second and third ones (the breadth-first
		// frontier of BuildFailureLinks outgrows its ring buffer while the head is rotated), and most patterns have a
		// suffix that is a prefix of another one (failure links that are not the root)
		small := alpha
		if k := rapid.IntRange(3, 5).Draw(t, "bushyAlphabet"); len(small) > k {
			small = small[:k]
		}
		n := rapid.IntRange(20, 75).Draw(t, "nBushy")
		maxLen := rapid.SampledFrom([]int{4, 6, 8}).Draw(t, "bushyLen")
		for i := 0; i < n; i++ {
			c.Patterns = append(c.Patterns, str(t, small, 2, maxLen, "bp"))
		}
		textParts = append(textParts, str(t, small, 4, 12, "bt"), str(t, small, 4, 12, "bt2"))
		alpha = small
	case "dups":
		// the same pattern inserted hundreds of times (around 256 and its multiples), next to a few others
		a, b := str(t, alpha, 1, 3, "a"), str(t, alpha, 1, 3, "b")
		reps := rapid.SampledFrom([]int{255, 256, 257, 512, 513, 300}).Draw(t, "dupReps")
		c.Patterns = append(c.Patterns, b, a+b)
		for i := 0; i < reps; i++ {
			c.Patterns = append(c.Patterns, a)
		}
		textParts = append(textParts, a, b, a+b, a)
	case "touching":
		a, b := str(t, alpha, 1, 3, "a"), str(t, alpha, 1, 3, "b")
		c.Patterns = append(c.Patterns, a, b, a+b)
		if rapid.Bool().Draw(t, "dropJoined") {
			c.Patterns = c.Patterns[:2]
		}
		textParts = append(textParts, a, b, a, a, b)
	}
	// text: patterns, near-misses, filler
	n := rapid.IntRange(0, 8).Draw(t, "ntext")
	for i := 0; i < n; i++ {
		switch rapid.IntRange(0, 3).Draw(t, "tk") {
		case 0, 1:
			textParts = append(textParts, rapid.SampledFrom(c.Patterns).Draw(t, "tp"))
		case 2: // near miss: a pattern with one rune replaced or dropped
			rs := []rune(rapid.SampledFrom(c.Patterns).Draw(t, "nm"))
			if len(rs) > 0 {
				i := rapid.IntRange(0, len(rs)-1).Draw(t, "nmi")
				if rapid.Bool().Draw(t, "drop") {
					rs = append(rs[:i:i], rs[i+1:]...)
				} else {
					rs[i] = rapid.SampledFrom(alpha).Draw(t, "nmr")
				}
			}
			textParts = append(textParts, string(rs))
		default:
			textParts = append(textParts, str(t, alpha, 0, 3, "filler"))
		}
	}
	if len(textParts) > 1 && rapid.Bool().Draw(t, "shuffle") {
		textParts = rapid.Permutation(textParts).Draw(t, "order")
	}
	text := []byte(strings.Join(textParts, ""))
	// byte-exactness: damage the UTF-8
	if rapid.IntRange(0, 2).Draw(t, "damage") == 0 && len(text) > 0 {
		for k := rapid.IntRange(1, 3).Draw(t, "ndamage"); k > 0 && len(text) > 0; k-- {
			i := rapid.IntRange(0, len(text)-1).Draw(t, "di")
			switch rapid.IntRange(0, 5).Draw(t, "dk") {
			case 4, 5: // replace one rune by bytes that a sloppy decoder confuses with it
				var starts []int
				for j := 0; j < len(text); {
					r, sz := utf8.DecodeRune(text[j:])
					if r != utf8.RuneError || sz > 1 {
						starts = append(starts, j)
					}
					j += sz
				}
				if len(starts) == 0 {
					continue
				}
				j := starts[i%len(starts)]
				r, sz := utf8.DecodeRune(text[j:])
				enc := text[j : j+sz]
				var conf [][]byte
				if r < 0x100 {
					conf = append(conf, []byte{byte(r)}) // the code point as one raw byte
				}
				if r < 0x80 {
					conf = append(conf, []byte{0xc0 | byte(r>>6), 0x80 | byte(r&0x3f)}, []byte{0xe0, 0x80 | byte(r>>6), 0x80 | byte(r&0x3f)}) // overlong forms
				} else {
					conf = append(conf, append([]byte(nil), enc[1:]...), append([]byte(nil), enc[:1]...), append([]byte(nil), enc[sz-1:]...), append([]byte(nil), enc[:sz-1]...))
					if r < 0x800 {
						conf = append(conf, []byte{0xe0, 0x80 | byte(r>>6), 0x80 | byte(r&0x3f)})
					}
				}
				ins := rapid.SampledFrom(conf).Draw(t, "confusable")
				text = append(text[:j:j], append(append([]byte(nil), ins...), text[j+sz:]...)...)
			case 0: // delete a byte (truncates a multi-byte sequence when it hits one)
				text = append(text[:i:i], text[i+1:]...)
			case 1:
				text[i] = byte(rapid.IntRange(0x80, 0xff).Draw(t, "hi"))
			case 2:
				ins := rapid.SampledFrom(g.InvalidChunks).Draw(t, "chunk")
				text = append(text[:i:i], append([]byte(ins), text[i:]...)...)
			default: // cut the text in the middle of a rune
				text = text[:i]
			}
		}
	}
	c.Text = text
	// keys
	nk := rapid.IntRange(1, 4).Draw(t, "nkeys")
	for i := 0; i < nk; i++ {
		p := []rune(rapid.SampledFrom(c.Patterns).Draw(t, "kp"))
		var k string
		switch rapid.IntRange(0, 4).Draw(t, "kk") {
		case 0: // prefix of a pattern
			k = string(p[:rapid.IntRange(0, len(p)).Draw(t, "kl")])
		case 1: // suffix-overlap: something + prefix of a pattern
			k = str(t, alpha, 0, 2, "kpre") + string(p[:rapid.IntRange(0, len(p)).Draw(t, "kl")])
		case 2: // near miss
			if len(p) > 0 {
				p[rapid.IntRange(0, len(p)-1).Draw(t, "ki")] = rapid.SampledFrom(alpha).Draw(t, "kr")
			}
			k = string(p)
		case 3:
			k = string(p)
		default:
			k = str(t, alpha, 0, 3, "krand")
		}
		c.Keys = append(c.Keys, k)
	}
	if len(c.Patterns) > 1 && rapid.IntRange(0, 2).Draw(t, "staged") == 0 {
		c.Stages = rapid.SliceOfN(rapid.IntRange(1, len(c.Patterns)), 1, 2).Draw(t, "stages")
	}
	c.Repl = rapid.OneOf(rapid.Just(""), rapid.Just("*"), rapid.Custom(func(t *rapid.T) string { return str(t, alpha, 0, 3, "repl") })).Draw(t, "repl")
	c.Mask = rapid.SampledFrom([]rune{'*', 0xe9, 0x65e5, 0x1f600, 'a', 0xfffd, 0x7f, 0x80, 0xff, 0x100, 0x7ff, 0x800, 0xffff, 0x10000}).Draw(t, "mask")
	return c
}

// Rotate returns text rotated left by k of its runes (a byte that is not part of a valid encoding counts as one
// rune): a text of the same length with the same runes in another arrangement.
func Rotate(text string, k int) string {
	var cuts []int
	for i := 0; i < len(text); {
		cuts = append(cuts, i)
		_, size := utf8.DecodeRuneInString(text[i:])
		i += size
	}
	if len(cuts) == 0 {
		return text
	}
	at := cuts[k%len(cuts)]
	return string(append(append(make([]byte, 0, len(text)), text[at:]...), text[:at]...))
}
