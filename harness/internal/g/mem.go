package g

// Helpers for the memory side of "every input": how an argument is laid out in memory, and what happens to
// memory between two calls. None of them changes what a correct library returns.

import (
	"fmt"
	"runtime"
	"sync/atomic"
)

var frames = []struct{ pre, suf string }{
	{"", "\x80\xbf"},                 // continuation bytes right behind the window: a truncated rune at the end of the window is completed by the neighbour
	{"\xe6\x97", "\xa5"},             // the window sits inside what looks like multi-byte text
	{"\\", "\\u0041"},                // escapes around the window
	{"0123456789abcdef", "ABCDEF07"}, // digits and hex letters on both sides
	{"\xf0\x9f", "\x98\x80\x00"},     // four-byte rune split around the window
	{"a", ""},                        // nothing behind the window (it ends the allocation)
}

// Window returns a string equal to s that is a window into a larger allocation whose neighbouring bytes are
// chosen to look like a continuation of s (continuation bytes, digits, escapes). Code that looks at the bytes
// of a string and nothing else cannot tell the difference.
func Window(s string, salt int) string {
	if salt < 0 {
		salt = -salt
	}
	f := frames[salt%len(frames)]
	whole := string(append(append(append(make([]byte, 0, len(f.pre)+len(s)+len(f.suf)), f.pre...), s...), f.suf...))
	return whole[len(f.pre) : len(f.pre)+len(s)]
}

// WindowBytes returns a slice equal to b that is a window into a larger array (its capacity reaches over the
// bytes behind it), and a function that reports whether the neighbours - which the caller still owns - were
// modified. For arguments a function only reads.
func WindowBytes(b []byte, salt int) (win []byte, neighboursIntact func() error) {
	if salt < 0 {
		salt = -salt
	}
	f := frames[salt%len(frames)]
	suf := f.suf + "\x00neighbour" // always something behind the window
	whole := append(append(append(make([]byte, 0, len(f.pre)+len(b)+len(suf)), f.pre...), b...), suf...)
	win = whole[len(f.pre) : len(f.pre)+len(b)]
	return win, func() error {
		if string(whole[:len(f.pre)]) != f.pre {
			return fmt.Errorf("the %d bytes in front of the argument (same array, owned by the caller) were changed to %q", len(f.pre), whole[:len(f.pre)])
		}
		if string(whole[len(f.pre)+len(b):]) != suf {
			return fmt.Errorf("the bytes behind the argument (same array, beyond its length, owned by the caller) were changed from %q to %q", suf, whole[len(f.pre)+len(b):])
		}
		return nil
	}
}

// Recycle calls f(0), f(1), ... f(n-1) with a garbage collection after every call. f allocates its argument
// itself (same size every time), uses it and drops it: after the collection the allocator hands the same
// memory to the next round, so a library that remembers an argument by its address (without keeping it alive)
// or keeps a view of memory it no longer owns meets different content at the same place.
func Recycle(n int, f func(i int) error) error {
	for i := 0; i < n; i++ {
		if err := f(i); err != nil {
			return err
		}
		if gcBudget.Add(-1) >= 0 {
			runtime.GC()
		}
	}
	return nil
}

// gcBudget bounds the collections forced by Recycle in one test process (a collection costs far more than the
// calls it separates; the thorough tier multiplies the case counts by up to 100). Once it is used up the rounds
// still run, with whatever collections the 20 ms ticker of the process happens to place between them.
var gcBudget atomic.Int64

func init() { gcBudget.Store(12000) }

// GrowStack calls f at a recursion depth that forces the goroutine stack to be re-allocated (grown) if the
// goroutine has not used that much stack before; values living in the caller's frames move with it.
func GrowStack(kb int, f func()) {
	var pad [1024]byte
	pad[kb%1024] = byte(kb)
	if kb <= 0 {
		f()
		return
	}
	GrowStack(kb-1, f)
	sink(pad[kb%1024])
}

//go:noinline
func sink(byte) {}

// OnFreshStack runs f on a new goroutine (a small stack that will have to grow and, after collections,
// may shrink) and waits for it.
func OnFreshStack(f func()) {
	done := make(chan any)
	go func() {
		defer func() { done <- recover() }()
		f()
	}()
	if p := <-done; p != nil {
		panic(p) // re-raised on the calling goroutine, where the harness catches it
	}
}

// PtrRec is an element with a scalar, a string and a pointer (redundant, so that a recycled or torn value shows).
type PtrRec struct {
	A int
	S string
	P *int
}

// MkPtrRec / OkPtrRec build and verify the element for the number v.
func MkPtrRec(v int) PtrRec {
	x := ^v
	return PtrRec{A: v, S: fmt.Sprint(v, "#", v*7), P: &x}
}

func OkPtrRec(r PtrRec, v int) bool {
	return r.A == v && r.S == fmt.Sprint(v, "#", v*7) && r.P != nil && *r.P == ^v
}

var churnSink [][]byte

// AcrossGC fills a container with n freshly allocated pointer-carrying elements that nothing but the
// container references, forces two collections, churns the allocator with other content of the same sizes,
// and then takes every element out again and verifies it; several rounds on the same container.
func AcrossGC(what string, n, rounds int, put func(PtrRec) bool, take func() (PtrRec, bool)) error {
	for round := 0; round < rounds; round++ {
		base := 1000000*(round+1) + n
		for i := 0; i < n; i++ {
			if !put(MkPtrRec(base + i)) {
				return fmt.Errorf("%s: element %d of %d was not accepted", what, i, n)
			}
		}
		runtime.GC()
		runtime.GC()
		for i := 0; i < 4*n+64; i++ {
			x := new(int)
			*x = -1 - i
			churnSink = append(churnSink, []byte(fmt.Sprint(-1-i, "#garbage", *x)))
		}
		churnSink = churnSink[:0]
		for i := 0; i < n; i++ {
			v, got := take()
			if !got || !OkPtrRec(v, base+i) {
				return fmt.Errorf("%s, round %d: element %d of %d - put in before two garbage collections and referenced by the container alone - came back as {A:%d S:%.40q P:%v} ok=%v; it was put in as the element for %d", what, round, i, n, v.A, v.S, v.P, got, base+i)
			}
		}
	}
	return nil
}
