// Package g holds generators shared by several properties.
package g

import (
	"math"
	"unicode/utf8"

	"pgregory.net/rapid"
)

// BoundaryRunes are valid runes at the UTF-8 width boundaries plus a few
// ordinary ones of every width; U+FFFD (a legal 3-byte rune) is included on
// purpose.
var BoundaryRunes = []rune{
	0x00, 0x01, 'a', 'b', 'Z', '0', '_', ' ', '\\', 0x7f,
	0x80, 0xe9, 0x3b1, 0x7ff,
	0x800, 0x65e5, 0x672c, 0xd7ff, 0xe000, 0xfffd, 0xffff,
	0x10000, 0x1f600, 0x10ffff,
}

// Rune draws a valid rune (never a surrogate), biased to the boundaries.
func Rune() *rapid.Generator[rune] {
	return rapid.OneOf(
		rapid.SampledFrom(BoundaryRunes),
		rapid.Custom(func(t *rapid.T) rune {
			switch rapid.IntRange(1, 4).Draw(t, "w") {
			case 1:
				return rune(rapid.IntRange(0, 0x7f).Draw(t, "r1"))
			case 2:
				return rune(rapid.IntRange(0x80, 0x7ff).Draw(t, "r2"))
			case 3:
				r := rune(rapid.IntRange(0x800, 0xffff).Draw(t, "r3"))
				if r >= 0xd800 && r <= 0xdfff {
					r = 0xfffd
				}
				return r
			default:
				return rune(rapid.IntRange(0x10000, 0x10ffff).Draw(t, "r4"))
			}
		}),
	)
}

// UTF8 draws a valid UTF-8 string of up to max runes mixing all widths.
func UTF8(max int) *rapid.Generator[string] {
	return rapid.Custom(func(t *rapid.T) string {
		rs := rapid.SliceOfN(Rune(), 0, max).Draw(t, "runes")
		return string(rs)
	})
}

// InvalidChunks are byte sequences that are not valid UTF-8.
var InvalidChunks = []string{
	"\xff", "\xfe", "\x80", "\xbf", "\xc0\x80", "\xc3", "\xe6\x97", "\xe6", "\xf0\x9f\x98", "\xf0\x9f", "\xf0",
	"\xed\xa0\x80", "\xf4\x90\x80\x80", "\xc1\xbf", "\xe0\x80\x80",
}

// Bytes draws a byte string that mixes valid runes and invalid chunks.
func Bytes(max int) *rapid.Generator[string] {
	return rapid.Custom(func(t *rapid.T) string {
		n := rapid.IntRange(0, max).Draw(t, "n")
		b := make([]byte, 0, n*2)
		for i := 0; i < n; i++ {
			switch rapid.IntRange(0, 3).Draw(t, "k") {
			case 0:
				b = append(b, rapid.SampledFrom(InvalidChunks).Draw(t, "bad")...)
			case 1:
				b = append(b, rapid.Byte().Draw(t, "byte"))
			default:
				b = utf8.AppendRune(b, Rune().Draw(t, "r"))
			}
		}
		return string(b)
	})
}

// B is a byte string that survives JSON encoding unchanged (Go's encoding/json
// replaces invalid UTF-8 in strings by U+FFFD, so cases carry raw bytes as a
// []byte, which is base64-encoded).
type B = []byte

// BytesLen draws exactly n arbitrary bytes (rapid's SliceOfN is biased to short slices).
func BytesLen(n int) *rapid.Generator[[]byte] {
	return rapid.SliceOfN(rapid.Byte(), n, n)
}

// ExtremeInts are argument values at the limits of int and at the 32-bit width and sign boundaries
// (an implementation that narrows an int, or adds two of them, goes wrong exactly here).
var ExtremeInts = FitInt([]int64{
	math.MaxInt64, math.MaxInt64 - 1, math.MaxInt64 - 2, math.MaxInt64 - 7, math.MinInt64, math.MinInt64 + 1, math.MinInt64 + 2,
	math.MaxInt32, math.MaxInt32 + 1, math.MaxInt32 - 1, math.MaxInt32 - 2, math.MaxInt32 - 7, math.MinInt32, math.MinInt32 + 1, math.MinInt32 - 1,
	1 << 32, 1<<32 + 1, 1<<32 + 2, 1<<32 - 1, -(1 << 32), -(1 << 32) + 1, 1 << 33, 1 << 62, -1 << 62, 1 << 31, 1<<31 + 1, 1 << 30, -(1 << 30),
})

// FitInt keeps the values that an int of this platform can hold (on a 32-bit platform the limits of int are
// the 32-bit entries of the list).
func FitInt(vs []int64) []int {
	var out []int
	for _, v := range vs {
		if int64(int(v)) == v {
			out = append(out, int(v))
		}
	}
	return out
}

// ExtremeInt draws one of ExtremeInts.
func ExtremeInt() *rapid.Generator[int] { return rapid.SampledFrom(ExtremeInts) }
