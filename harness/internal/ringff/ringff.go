// Package ringff fast-forwards a fresh SyncRing[int] to the state that k
// push/pop pairs produce (C10 quick tier, C01 wrap-around configurations).
package ringff

import (
	"reflect"
	"unsafe"

	"github.com/welllog/golib/ringz"
)

// FastForward sets head = tail = k and slot i's sequence number to
// k + ((i-k) mod cap) (all mod 2^32). It returns false if the struct layout is
// not the one it understands; callers must then skip the configuration.
func FastForward(r *ringz.SyncRing[int], k uint32) bool {
	v := reflect.ValueOf(r).Elem()
	vals, head, tail, capF := v.FieldByName("values"), v.FieldByName("head"), v.FieldByName("tail"), v.FieldByName("cap")
	if !vals.IsValid() || !head.IsValid() || !tail.IsValid() || !capF.IsValid() || vals.Kind() != reflect.Slice ||
		head.Kind() != reflect.Uint32 || tail.Kind() != reflect.Uint32 || capF.Kind() != reflect.Uint32 {
		return false
	}
	et := vals.Type().Elem()
	if et.Kind() != reflect.Struct {
		return false
	}
	pf, ok := et.FieldByName("pos")
	if !ok || pf.Type.Kind() != reflect.Uint32 {
		return false
	}
	c := uint32(capF.Uint())
	if c == 0 || c&(c-1) != 0 || vals.Len() != int(c) {
		return false
	}
	*(*uint32)(unsafe.Pointer(head.UnsafeAddr())) = k
	*(*uint32)(unsafe.Pointer(tail.UnsafeAddr())) = k
	base := vals.UnsafePointer()
	for i := uint32(0); i < c; i++ {
		p := (*uint32)(unsafe.Add(base, uintptr(i)*et.Size()+pf.Offset))
		*p = k + ((i - k) & (c - 1))
	}
	return true
}

// Snapshot reads head, tail and the slot sequence numbers.
func Snapshot(r *ringz.SyncRing[int]) []uint32 {
	v := reflect.ValueOf(r).Elem()
	vals := v.FieldByName("values")
	et := vals.Type().Elem()
	pf, _ := et.FieldByName("pos")
	out := []uint32{uint32(v.FieldByName("head").Uint()), uint32(v.FieldByName("tail").Uint())}
	for i := 0; i < vals.Len(); i++ {
		out = append(out, *(*uint32)(unsafe.Add(vals.UnsafePointer(), uintptr(i)*et.Size()+pf.Offset)))
	}
	return out
}
