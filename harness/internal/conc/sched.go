//go:build sched

package conc

import (
	"github.com/welllog/golib/zzverifshim/vsched"
)

// Tick is the event clock of controlled runs.
func Tick() int64 { return vsched.Tick() }

// Reset restarts the event clock.
func Reset() { vsched.ResetTick() }

// Yield is a scheduling point for harness callbacks.
func Yield() { vsched.Yield() }

// Atomic runs f without interleaving (probes).
func Atomic(f func()) { vsched.Atomic(f) }

type Result = vsched.Result

// slotChooser follows the generated slots, then completes without pre-emption:
// the running thread continues until it finishes, blocks or spins.
type slotChooser struct {
	slots []Slot
	i     int
}

func has(el []int, x int) bool {
	for _, e := range el {
		if e == x {
			return true
		}
	}
	return false
}

func (c *slotChooser) Choose(cur int, curOK bool, el []int) int {
	for c.i < len(c.slots) {
		s := &c.slots[c.i]
		if s.N > 0 && has(el, s.T) {
			s.N--
			return s.T
		}
		c.i++
	}
	if curOK {
		return cur
	}
	return after(el, cur)
}

// after returns the first eligible thread behind cur in cyclic order (fair completion).
func after(el []int, cur int) int {
	for _, e := range el {
		if e > cur {
			return e
		}
	}
	return el[0]
}

// RunSlots executes the bodies under the given schedule.
func RunSlots(bodies []func(), slots []Slot, maxSteps int) Result {
	s := vsched.New(&slotChooser{slots: append([]Slot(nil), slots...)}, maxSteps)
	for i, b := range bodies {
		s.Go(string(rune('A'+i)), b)
	}
	return s.Run()
}

// RunTrace replays an explicit decision list (thread id per scheduling step);
// after the list it completes without pre-emption.
type traceChooser struct {
	trace []int
	i     int
}

func (c *traceChooser) Choose(cur int, curOK bool, el []int) int {
	for c.i < len(c.trace) {
		t := c.trace[c.i]
		c.i++
		if has(el, t) {
			return t
		}
	}
	if curOK {
		return cur
	}
	return after(el, cur)
}

func RunTrace(bodies []func(), trace []int, maxSteps int) Result {
	s := vsched.New(&traceChooser{trace: trace}, maxSteps)
	for i, b := range bodies {
		s.Go(string(rune('A'+i)), b)
	}
	return s.Run()
}

// ---- bounded-pre-emption exhaustive enumeration (stateless DFS)

type decision struct {
	options []int // thread ids in the order they are tried
	costs   []int // pre-emption cost of each option (0: no pre-emption)
	chosen  int   // index into options
}

type dfsChooser struct {
	prefix []int // chosen option index per decision point (replayed)
	log    []decision
	used   int
	budget int
}

func (c *dfsChooser) Choose(cur int, curOK bool, el []int) int {
	var d decision
	if curOK {
		d.options = append(d.options, cur)
		d.costs = append(d.costs, 0)
		for _, e := range el {
			if e != cur {
				d.options = append(d.options, e)
				d.costs = append(d.costs, 1)
			}
		}
	} else {
		first := after(el, cur)
		d.options = append(d.options, first)
		d.costs = append(d.costs, 0)
		for _, e := range el {
			if e != first {
				d.options = append(d.options, e)
				d.costs = append(d.costs, 0)
			}
		}
	}
	k := len(c.log)
	if k < len(c.prefix) && c.prefix[k] < len(d.options) {
		d.chosen = c.prefix[k]
	}
	if c.used+d.costs[d.chosen] > c.budget {
		d.chosen = 0
	}
	c.used += d.costs[d.chosen]
	c.log = append(c.log, d)
	return d.options[d.chosen]
}

// Explore runs mk() (which must build a fresh system and return its thread
// bodies and a check function) under every schedule with at most maxPreempt
// pre-emptions. It stops at the first error and returns it with the decision
// trace that produced it. limit bounds the number of executions (0: none).
func Explore(mk func() (bodies []func(), check func(Result) error), maxPreempt, maxSteps, limit int) (execs int, trace []int, err error, complete bool) {
	var prefix []int
	for {
		bodies, check := mk()
		ch := &dfsChooser{prefix: prefix, budget: maxPreempt}
		s := vsched.New(ch, maxSteps)
		s.KeepTrace()
		for i, b := range bodies {
			s.Go(string(rune('A'+i)), b)
		}
		res := s.Run()
		execs++
		if e := check(res); e != nil {
			return execs, res.Trace, e, false
		}
		// backtrack: last decision with an untried alternative that fits the budget
		log := ch.log
		next := -1
		var used []int
		u := 0
		for _, d := range log {
			used = append(used, u)
			u += d.costs[d.chosen]
		}
		for i := len(log) - 1; i >= 0 && next < 0; i-- {
			d := log[i]
			for alt := d.chosen + 1; alt < len(d.options); alt++ {
				if used[i]+d.costs[alt] <= maxPreempt {
					prefix = prefix[:0]
					for j := 0; j < i; j++ {
						prefix = append(prefix, log[j].chosen)
					}
					prefix = append(prefix, alt)
					next = i
					break
				}
			}
		}
		if next < 0 {
			return execs, nil, nil, true
		}
		if limit > 0 && execs >= limit {
			return execs, nil, nil, false
		}
	}
}
