//go:build !sched

package conc

// In raced (unshimmed) builds the harness callbacks do not yield and events are
// ordered by the atomic logical clock.
func Tick() int64     { return Now() }
func Yield()          {}
func Atomic(f func()) { f() }

// Reset restarts the logical clock (between executions only).
func Reset() { ResetClock() }
