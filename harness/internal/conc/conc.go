// Package conc holds what the concurrent checks (C01, C11, C12) share:
// per-thread programs, schedule slots, and the two execution engines —
// controlled schedules (build tag sched, see sched.go) and real goroutines
// under the race detector (race.go).
package conc

import (
	"sync"
	"sync/atomic"

	"pgregory.net/rapid"
)

// Slot: run thread T for N scheduling steps (skipped if T cannot run).
type Slot struct{ T, N int }

// GenSlots draws a bursty schedule: long pauses inside an operation are common.
func GenSlots(t *rapid.T, threads, max int) []Slot {
	n := rapid.IntRange(0, max).Draw(t, "nslots")
	s := make([]Slot, n)
	for i := range s {
		s[i] = Slot{T: rapid.IntRange(0, threads-1).Draw(t, "st"), N: rapid.OneOf(rapid.IntRange(1, 3), rapid.IntRange(1, 12), rapid.IntRange(1, 40)).Draw(t, "sn")}
	}
	return s
}

// ---- real-concurrency engine

var clock int64

// Now is the logical clock of raced runs (atomic, so it also orders the
// recorded events consistently with real time).
func Now() int64 { return atomic.AddInt64(&clock, 1) }

func ResetClock() { atomic.StoreInt64(&clock, 0) }

// RunRaced releases the thread bodies from a barrier on real goroutines and
// waits for all of them. A panic in a body is returned as an error string.
func RunRaced(bodies []func()) (panics []any) {
	var wg sync.WaitGroup
	var mu sync.Mutex
	start := make(chan struct{})
	for _, b := range bodies {
		b := b
		wg.Add(1)
		go func() {
			defer wg.Done()
			defer func() {
				if p := recover(); p != nil {
					mu.Lock()
					panics = append(panics, p)
					mu.Unlock()
				}
			}()
			<-start
			b()
		}()
	}
	close(start)
	wg.Wait()
	return panics
}
