// Package conc holds what the concurrent checks (C01, C11, C12) share:
// per-thread programs, schedule slots, and the two execution engines —
// controlled schedules (build tag sched, see sched.go) and real goroutines
// under the race detector (race.go).
package conc

import (
	"runtime"
	"sort"
	"strings"
	"sync"
	"sync/atomic"
	"time"

	"pgregory.net/rapid"
)

// Slot: run thread T for N scheduling steps (skipped if T cannot run).
type Slot struct{ T, N int }

// GenSlots draws a bursty schedule: long pauses inside an operation are common.
func GenSlots(t *rapid.T, threads, max int) []Slot {
	n := rapid.IntRange(0, max).Draw(t, "nslots")
	s := make([]Slot, n)
	for i := range s {
		s[i] = Slot{T: rapid.IntRange(0, threads-1).Draw(t, "st"), N: rapid.OneOf(rapid.IntRange(1, 3), rapid.IntRange(1, 12), rapid.IntRange(1, 40)).Draw(t, "sn")}
	}
	return s
}

// ---- real-concurrency engine

var clock int64

// Now is the logical clock of raced runs (atomic, so it also orders the
// recorded events consistently with real time).
func Now() int64 { return atomic.AddInt64(&clock, 1) }

func ResetClock() { atomic.StoreInt64(&clock, 0) }

// RunRaced releases the thread bodies from a barrier on real goroutines and
// waits for all of them. A panic in a body is returned as an error string.
func RunRaced(bodies []func()) (panics []any) {
	var wg sync.WaitGroup
	var mu sync.Mutex
	start := make(chan struct{})
	for _, b := range bodies {
		b := b
		wg.Add(1)
		go func() {
			defer wg.Done()
			defer func() {
				if p := recover(); p != nil {
					mu.Lock()
					panics = append(panics, p)
					mu.Unlock()
				}
			}()
			<-start
			b()
		}()
	}
	close(start)
	done := make(chan struct{})
	go func() { wg.Wait(); close(done) }()
	for waited := 0; ; waited++ {
		select {
		case <-done:
			return panics
		case <-time.After(time.Second):
		}
		if waited < 10 {
			continue
		}
		// Not finished after 10 s: if every unfinished thread of the program is parked (lock, semaphore, condition,
		// channel) and is found in exactly the same place two seconds later, nothing can ever wake them - the
		// program has deadlocked. The verdict rests on the state of the goroutines, not on the time that has passed.
		a := parkedBodies()
		if a == "" {
			continue
		}
		time.Sleep(2 * time.Second)
		if b := parkedBodies(); b == a {
			select {
			case <-done:
				return panics
			default:
			}
			mu.Lock()
			panics = append(panics, "DEADLOCK: every unfinished thread of the program is parked and stays where it is:\n"+a)
			out := append([]any(nil), panics...)
			mu.Unlock()
			return out // the parked goroutines are left behind
		}
	}
}

// parkedBodies returns a description of the unfinished program threads if all of them are parked, "" otherwise.
func parkedBodies() string {
	buf := make([]byte, 4<<20)
	n := runtime.Stack(buf, true)
	if n == len(buf) {
		return ""
	}
	var desc []string
	for _, g := range strings.Split(string(buf[:n]), "\n\n") {
		if !strings.Contains(g, "conc.RunRaced.func1") {
			continue
		}
		head := g[:strings.IndexByte(g+"\n", '\n')]
		parked := false
		for _, st := range []string{"[sync.RWMutex.RLock", "[sync.RWMutex.Lock", "[sync.Mutex.Lock", "[semacquire", "[sync.Cond.Wait", "[chan receive", "[chan send", "[select"} {
			parked = parked || strings.Contains(head, st)
		}
		if !parked {
			return ""
		}
		lines := strings.Split(g, "\n")
		if len(lines) > 7 {
			lines = lines[:7]
		}
		// goroutine ids and states, without the ", N minutes" suffix that changes over time
		if i := strings.Index(lines[0], ","); i > 0 {
			lines[0] = lines[0][:i] + "]:"
		}
		desc = append(desc, strings.Join(lines, "\n"))
	}
	sort.Strings(desc)
	return strings.Join(desc, "\n")
}
