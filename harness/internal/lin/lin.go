// Package lin holds the history representation and the sequential models
// (bounded/unbounded FIFO queue, small map) checked with porcupine.
package lin

import (
	"fmt"
	"sort"
	"strings"
	"time"

	"github.com/anishathalye/porcupine"
)

// Op is one completed call of a history. Call/Return are event numbers of a
// total order consistent with real time (controlled runs: vsched.Tick; raced
// runs: an atomic logical clock read before invocation and after response).
type Op struct {
	Thread int    `json:"t"`
	Kind   string `json:"k"`
	Arg    int    `json:"a,omitempty"`
	Arg2   int    `json:"a2,omitempty"`
	Ret    int    `json:"r,omitempty"`
	OK     bool   `json:"ok,omitempty"`
	Keys   []int  `json:"ks,omitempty"` // snapshot style results / multi-key arguments
	Vals   []int  `json:"vs,omitempty"`
	Full   bool   `json:"full,omitempty"` // enumeration ran to the end (no early stop)
	Call   int64  `json:"c"`
	Return int64  `json:"e"`
}

func (o Op) String() string {
	return fmt.Sprintf("T%d %s(%d,%d)->%d,%v keys%v vals%v [%d,%d]", o.Thread, o.Kind, o.Arg, o.Arg2, o.Ret, o.OK, o.Keys, o.Vals, o.Call, o.Return)
}

func Format(ops []Op) string {
	s := append([]Op(nil), ops...)
	sort.Slice(s, func(i, j int) bool { return s[i].Call < s[j].Call })
	var sb strings.Builder
	for _, o := range s {
		sb.WriteString("  " + o.String() + "\n")
	}
	return sb.String()
}

func overlapsAny(ops []Op, i int) bool {
	for j := range ops {
		if j != i && ops[j].Call < ops[i].Return && ops[i].Call < ops[j].Return {
			return true
		}
	}
	return false
}

// Overlapping reports whether at least two mutating calls overlap.
func Overlapping(ops []Op, mutating func(Op) bool) bool {
	for i := range ops {
		if !mutating(ops[i]) {
			continue
		}
		for j := i + 1; j < len(ops); j++ {
			if mutating(ops[j]) && ops[j].Call < ops[i].Return && ops[i].Call < ops[j].Return {
				return true
			}
		}
	}
	return false
}

// ---------------------------------------------------------------- FIFO queue

type qstate struct {
	items string // values joined; comparable
}

func enc(v []int) string {
	var sb strings.Builder
	for _, x := range v {
		fmt.Fprintf(&sb, "%d,", x)
	}
	return sb.String()
}

func dec(s string) []int {
	var out []int
	for _, f := range strings.Split(s, ",") {
		if f != "" {
			var x int
			fmt.Sscanf(f, "%d", &x)
			out = append(out, x)
		}
	}
	return out
}

// QueueStats describes what the check looked at.
type QueueStats struct {
	FalseNoOverlap   int // failed Push/Pop that overlapped nothing (had to be full/empty)
	FalseExcused     int // failed Push/Pop excused by an overlapping call
	ObserversChecked int
	Inconclusive     bool // the (NP-hard) linearizability search hit its time limit: no verdict for this history
}

// SearchLimit bounds one linearizability search; hitting it is "inconclusive", never a violation.
var SearchLimit = 3 * time.Second

// CheckQueue checks a history of Push/Pop/Len/IsEmpty/IsFull (+ the sequential
// final drain appended by the harness) against a FIFO queue of capacity cap
// (cap < 0: unbounded) starting with the given content.
//
//   - conservation: nothing invented, duplicated or lost
//   - linearizability (porcupine) of the successful operations, of failed
//     operations that overlap no other call (they must be "full"/"empty"), and of
//     observers that overlap no other call (they must be exact)
//   - Len within [0, cap] always (lenMin: lower bound, 0)
func CheckQueue(ops []Op, initial []int, cap int) (QueueStats, error) {
	var st QueueStats
	pushed := map[int]bool{}
	for _, v := range initial {
		pushed[v] = true
	}
	for _, o := range ops {
		if o.Kind == "push" && o.OK {
			if pushed[o.Arg] {
				return st, fmt.Errorf("HARNESS: value %d pushed twice", o.Arg)
			}
			pushed[o.Arg] = true
		}
	}
	popped := map[int]bool{}
	for _, o := range ops {
		switch o.Kind {
		case "pop":
			if !o.OK {
				continue
			}
			if !pushed[o.Ret] {
				return st, fmt.Errorf("conservation: Pop returned %d which was never pushed (invented value)", o.Ret)
			}
			if popped[o.Ret] {
				return st, fmt.Errorf("conservation: value %d popped twice (duplicated)", o.Ret)
			}
			popped[o.Ret] = true
		case "len":
			if o.Ret < 0 || (cap >= 0 && o.Ret > cap) {
				return st, fmt.Errorf("Len() = %d outside [0, %d]", o.Ret, cap)
			}
		}
	}
	// lost values: everything pushed is popped (the harness drains at the end)
	for v := range pushed {
		if !popped[v] {
			return st, fmt.Errorf("conservation: value %d was pushed but never came out, not even in the final drain (lost)", v)
		}
	}
	var hist []porcupine.Operation
	for i, o := range ops {
		switch o.Kind {
		case "push", "pop":
			if !o.OK {
				if overlapsAny(ops, i) {
					st.FalseExcused++
					continue
				}
				st.FalseNoOverlap++
			}
		case "len", "isempty", "isfull":
			if overlapsAny(ops, i) {
				continue
			}
			st.ObserversChecked++
		default:
			continue
		}
		hist = append(hist, porcupine.Operation{ClientId: o.Thread, Input: o, Output: o, Call: o.Call, Return: o.Return})
	}
	model := porcupine.Model{
		Init: func() interface{} { return enc(initial) },
		Step: func(state, input, output interface{}) (bool, interface{}) {
			q := dec(state.(string))
			o := output.(Op)
			switch o.Kind {
			case "push":
				if o.OK {
					if cap >= 0 && len(q) >= cap {
						return false, state
					}
					return true, enc(append(q, o.Arg))
				}
				return cap >= 0 && len(q) == cap, state
			case "pop":
				if o.OK {
					if len(q) == 0 || q[0] != o.Ret {
						return false, state
					}
					return true, enc(q[1:])
				}
				return len(q) == 0, state
			case "len":
				return o.Ret == len(q), state
			case "isempty":
				return o.OK == (len(q) == 0), state
			case "isfull":
				return o.OK == (cap >= 0 && len(q) == cap), state
			}
			return false, state
		},
		Equal: func(a, b interface{}) bool { return a.(string) == b.(string) },
	}
	switch porcupine.CheckOperationsTimeout(model, hist, SearchLimit) {
	case porcupine.Unknown:
		st.Inconclusive = true
		return st, nil
	case porcupine.Illegal:
		return st, fmt.Errorf("history is not linearizable to a FIFO queue (capacity %d, initial %v); failed operations/observers that overlap another call were already excused", cap, initial)
	}
	return st, nil
}

// ---------------------------------------------------------------- small map (SafeKV)

const NKeys = 4

type kvstate [NKeys]int // -1 = absent

func (s kvstate) n() int {
	c := 0
	for _, v := range s {
		if v >= 0 {
			c++
		}
	}
	return c
}

// CheckKV checks a history of SafeKV calls against a plain map in which every
// call is one atomic step. inconclusive: the search hit SearchLimit.
func CheckKV(ops []Op, initial map[int]int) (inconclusive bool, err error) {
	var init kvstate
	for i := range init {
		init[i] = -1
	}
	for k, v := range initial {
		init[k] = v
	}
	var hist []porcupine.Operation
	for _, o := range ops {
		hist = append(hist, porcupine.Operation{ClientId: o.Thread, Input: o, Output: o, Call: o.Call, Return: o.Return})
	}
	model := porcupine.Model{
		Init: func() interface{} { return init },
		Step: func(state, input, output interface{}) (bool, interface{}) {
			s := state.(kvstate)
			o := output.(Op)
			k := o.Arg
			switch o.Kind {
			case "get":
				return o.OK == (s[k] >= 0) && (!o.OK || o.Ret == s[k]), s
			case "getwithlock": // fn called iff present, with the value
				return o.OK == (s[k] >= 0) && (!o.OK || o.Ret == s[k]), s
			case "has", "contains":
				return o.OK == (s[k] >= 0), s
			case "set":
				s[k] = o.Arg2
				return true, s
			case "setnx":
				if s[k] >= 0 {
					return !o.OK, s
				}
				s[k] = o.Arg2
				return o.OK, s
			case "setx":
				if s[k] < 0 {
					return !o.OK, s
				}
				s[k] = o.Arg2
				return o.OK, s
			case "delete":
				for _, x := range o.Keys {
					s[x] = -1
				}
				return true, s
			case "clear":
				for i := range s {
					s[i] = -1
				}
				return true, s
			case "len":
				return o.Ret == s.n(), s
			case "keys": // returned key set = key set at one instant
				if len(o.Keys) != s.n() {
					return false, s
				}
				for _, x := range o.Keys {
					if s[x] < 0 {
						return false, s
					}
				}
				return true, s
			case "values":
				var want []int
				for _, v := range s {
					if v >= 0 {
						want = append(want, v)
					}
				}
				got := append([]int(nil), o.Vals...)
				sort.Ints(want)
				sort.Ints(got)
				return fmt.Sprint(got) == fmt.Sprint(want), s
			case "range", "all": // observed pairs come from one snapshot; complete unless stopped early
				seen := map[int]bool{}
				for i, x := range o.Keys {
					if s[x] < 0 || s[x] != o.Vals[i] || seen[x] {
						return false, s
					}
					seen[x] = true
				}
				return !o.Full || len(o.Keys) == s.n(), s
			case "getwithmap": // Keys = requested keys, Vals = result (-1: untouched)
				for i, x := range o.Keys {
					if s[x] != o.Vals[i] {
						return false, s
					}
				}
				return true, s
			case "map": // callback saw snapshot (Keys/Vals, complete) and then wrote Arg->Arg2 if OK
				if len(o.Keys) != s.n() {
					return false, s
				}
				for i, x := range o.Keys {
					if s[x] != o.Vals[i] {
						return false, s
					}
				}
				if o.OK {
					s[o.Arg] = o.Arg2
				}
				return true, s
			}
			return false, s
		},
		Equal: func(a, b interface{}) bool { return a.(kvstate) == b.(kvstate) },
	}
	switch porcupine.CheckOperationsTimeout(model, hist, SearchLimit) {
	case porcupine.Unknown:
		return true, nil
	case porcupine.Illegal:
		return false, fmt.Errorf("history is not linearizable to a map in which every SafeKV call is one atomic step (initial %v)", initial)
	}
	return false, nil
}
