// Package pb is the small property-based-testing framework shared by every
// per-property test package of the harness.
//
// A property is registered as a pair (gen, run): gen draws a plain,
// JSON-serialisable case value from rapid; run executes the case against the
// real code and an explicit oracle and returns an error on violation. Keeping
// the two apart is what makes every failure a replayable plain file: the
// shrunk case is written as JSON and `TestReplay` re-executes it through run
// alone, with no rapid involved.
//
// The package also owns evidence collection (evaluations, distinct
// non-trivial cases by hash, class histogram, samples) and the known-finding
// signature mechanism (DESIGN.md §3.5, §3.6).
package pb

import (
	"encoding/binary"
	"encoding/json"
	"flag"
	"fmt"
	"hash/fnv"
	"os"
	"os/exec"
	"path/filepath"
	"regexp"
	"runtime"
	"runtime/debug"
	"sort"
	"strconv"
	"strings"
	"sync"
	"sync/atomic"
	"syscall"
	"testing"
	"time"

	"pgregory.net/rapid"
)

// Rec is handed to run; the property marks the case's classes and whether it
// is non-trivial by the property's stated rule.
type Rec struct {
	classes    []string
	nontrivial bool
	note       string
}

func (r *Rec) Class(name string) {
	if r == nil {
		return
	}
	for _, c := range r.classes {
		if c == name {
			return
		}
	}
	r.classes = append(r.classes, name)
}

func (r *Rec) ClassIf(cond bool, name string) {
	if cond {
		r.Class(name)
	}
}

func (r *Rec) NonTrivial() {
	if r != nil {
		r.nontrivial = true
	}
}

func (r *Rec) NonTrivialIf(c bool) {
	if c {
		r.NonTrivial()
	}
}

// Note attaches a free-text annotation shown with the sample.
func (r *Rec) Note(s string) {
	if r != nil {
		r.note = s
	}
}

type propStats struct {
	Name        string            `json:"name"`
	Evaluations int64             `json:"evaluations"`
	NonTrivial  int64             `json:"nontrivial_total"`
	Distinct    int               `json:"distinct_nontrivial"`
	Classes     map[string]int64  `json:"classes"`
	Required    []string          `json:"required_classes,omitempty"`
	Samples     []json.RawMessage `json:"samples"`
	Violations  []violation       `json:"violations,omitempty"`
	KnownHits   map[string]int64  `json:"known_hits,omitempty"`
	Excluded    int64             `json:"excluded_by_known_finding,omitempty"`
	Exhaustive  bool              `json:"exhaustive,omitempty"`
	Notes       []string          `json:"notes,omitempty"`
	Rule        string            `json:"rule,omitempty"`

	hashes map[uint64]struct{}
	mu     sync.Mutex
}

type violation struct {
	Replay string `json:"replay"`
	Error  string `json:"error"`
	Known  string `json:"known,omitempty"`
}

type prop struct {
	name     string
	base     int // base number of rapid checks at scale 1
	check    func(t *rapid.T)
	replay   func(raw json.RawMessage) error
	stats    *propStats
	sigs     map[string]func(raw json.RawMessage) bool
	required []string
	twins    int
}

var (
	reAddr      = regexp.MustCompile(`0x[0-9a-fA-F]+\??`)
	reGoroutine = regexp.MustCompile(`goroutine \d+`)
)

var (
	props    []*prop
	byName   = map[string]*prop{}
	allStats []*propStats
	statMu   sync.Mutex
)

// Options for Register.
type Options struct {
	// Base is the number of rapid cases at scale 1 (quick tier).
	Base int
	// Required classes: the run is marked vacuous (exit 2 in the driver) if
	// one of them was never hit.
	Required []string
	// Rule: one-line statement of the non-triviality rule (goes to evidence).
	Rule string
	// Twins > 1: one case in eight (chosen by the hash of the case) is executed by this many goroutines at the same
	// time, each on objects of its own. Independent objects share nothing, so every instance must pass exactly as a
	// single one does; state shared behind the scenes (package-level buffers, pools, caches) shows as interference.
	// Only for run functions that keep no state of their own outside the case.
	Twins int
}

// Stats returns (creating it on first use) the collector for a non-rapid
// sub-check (exhaustive enumerations, raced programs, fuzz targets).
func Stats(name string) *Collector {
	statMu.Lock()
	defer statMu.Unlock()
	for _, s := range allStats {
		if s.Name == name {
			return &Collector{s}
		}
	}
	s := &propStats{Name: name, Classes: map[string]int64{}, hashes: map[uint64]struct{}{}, KnownHits: map[string]int64{}}
	allStats = append(allStats, s)
	return &Collector{s}
}

// Collector is the evidence collector API for hand-written loops.
type Collector struct{ s *propStats }

func (c *Collector) SetRule(r string)          { c.s.Rule = r }
func (c *Collector) SetExhaustive(b bool)      { c.s.Exhaustive = b }
func (c *Collector) Require(classes ...string) { c.s.Required = append(c.s.Required, classes...) }
func (c *Collector) Note(format string, a ...any) {
	c.s.mu.Lock()
	c.s.Notes = append(c.s.Notes, fmt.Sprintf(format, a...))
	c.s.mu.Unlock()
}

// Case records one executed case. canon is the canonical encoding (hashed for
// distinctness and used as sample).
func (c *Collector) Case(canon []byte, rec *Rec) {
	c.s.record(canon, rec)
}

// CaseKey records one executed case whose distinctness key is already a hash.
func (c *Collector) CaseKey(key uint64, rec *Rec, sample func() []byte) {
	c.s.recordKey(key, rec, sample)
}

// Violation records a failure and writes the replay file; it returns the path.
func (c *Collector) Violation(kind string, casejson []byte, err error) string {
	path := writeReplay(c.s.Name, kind, casejson, err)
	c.s.mu.Lock()
	c.s.Violations = append(c.s.Violations, violation{Replay: path, Error: trunc(err.Error(), 4000)})
	c.s.mu.Unlock()
	return path
}

func trunc(s string, n int) string {
	if len(s) > n {
		return s[:n] + "…"
	}
	return s
}

const maxSamples = 6

// maxHashes bounds the memory of the distinctness set of one sub-check in one shard; beyond it
// distinct_nontrivial is an under-count (conservative).
const maxHashes = 3_000_000

func (s *propStats) record(canon []byte, rec *Rec) {
	h := fnv.New64a()
	h.Write(canon)
	s.recordKey(h.Sum64(), rec, func() []byte { return canon })
}

func (s *propStats) recordKey(key uint64, rec *Rec, sample func() []byte) {
	s.mu.Lock()
	defer s.mu.Unlock()
	s.Evaluations++
	if rec != nil {
		for _, c := range rec.classes {
			s.Classes[c]++
		}
	}
	if rec != nil && rec.nontrivial {
		s.NonTrivial++
		if _, ok := s.hashes[key]; !ok && len(s.hashes) < maxHashes {
			s.hashes[key] = struct{}{}
			n := len(s.hashes)
			// keep the first few and then exponentially spread-out samples
			if len(s.Samples) < maxSamples && (n <= 2 || n&(n-1) == 0) {
				b := sample()
				if len(b) > 3000 {
					b, _ = json.Marshal(string(b[:3000]) + "…(truncated)")
				}
				if !json.Valid(b) {
					b, _ = json.Marshal(string(b))
				}
				var smp = map[string]any{"case": json.RawMessage(b)}
				if len(rec.classes) > 0 {
					smp["classes"] = rec.classes
				}
				if rec.note != "" {
					smp["note"] = rec.note
				}
				jb, _ := json.Marshal(smp)
				s.Samples = append(s.Samples, jb)
			}
		}
	}
}

// knownSigs is the list of signatures of *listed* findings for this run
// (env VERIF_KNOWN_SIGS, comma separated "prop:sig" or "sig").
func knownSigs() map[string]bool {
	m := map[string]bool{}
	for _, s := range strings.Split(os.Getenv("VERIF_KNOWN_SIGS"), ",") {
		s = strings.TrimSpace(s)
		if s != "" {
			m[s] = true
		}
	}
	return m
}

// Sig is a named predicate over a case recognising a known finding.
type Sig[C any] struct {
	Name string
	Pred func(c C) bool
}

// Register registers a rapid-driven property.
func Register[C any](name string, opt Options, gen func(t *rapid.T) C, run func(c C, r *Rec) error, sigs ...Sig[C]) {
	if opt.Base <= 0 {
		opt.Base = 1000
	}
	st := &propStats{Name: name, Classes: map[string]int64{}, hashes: map[uint64]struct{}{}, KnownHits: map[string]int64{}, Required: opt.Required, Rule: opt.Rule}
	allStats = append(allStats, st)
	known := knownSigs()
	single := func(c C, r *Rec) (err error) {
		defer func() {
			if p := recover(); p != nil {
				err = fmt.Errorf("PANIC: %v\n%s", p, trimStack(debug.Stack()))
			}
		}()
		return run(c, r)
	}
	safeRun := func(c C, r *Rec) error {
		if opt.Twins <= 1 {
			return single(c, r)
		}
		canon, _ := json.Marshal(c)
		h := fnv.New64a()
		h.Write(canon)
		every := uint64(8)
		if v, err := strconv.Atoi(os.Getenv("VERIF_TWINS_EVERY")); err == nil && v > 0 {
			every = uint64(v)
		}
		if h.Sum64()%every != 0 {
			return single(c, r)
		}
		errs := make([]error, opt.Twins)
		recs := make([]*Rec, opt.Twins)
		var wg sync.WaitGroup
		for i := range errs {
			recs[i] = &Rec{}
			wg.Add(1)
			go func(i int) {
				defer wg.Done()
				errs[i] = single(c, recs[i])
			}(i)
		}
		wg.Wait()
		if r != nil {
			*r = *recs[0]
			r.Class("executed by several goroutines at once on independent objects")
		}
		for _, e := range errs {
			if e != nil {
				if alone := single(c, &Rec{}); alone != nil {
					return alone // fails on its own as well: report it as the plain failure it is
				}
				return fmt.Errorf("the case passes when executed alone, but with %d goroutines executing it at the same time, each on its own objects, one of them fails (state shared between independent objects?): %v", opt.Twins, e)
			}
		}
		return nil
	}
	p := &prop{name: name, base: opt.Base, stats: st, required: opt.Required, twins: opt.Twins}
	p.check = func(t *rapid.T) {
		c := gen(t)
		// exclusion-by-construction of listed known findings
		for _, s := range sigs {
			if known[s.Name] && s.Pred(c) {
				st.mu.Lock()
				st.Excluded++
				st.KnownHits[s.Name]++
				st.mu.Unlock()
				t.Skip("excluded known finding " + s.Name)
			}
		}
		rec := &Rec{}
		canon, jerr := json.Marshal(c)
		if jerr != nil {
			panic(fmt.Sprintf("case of %s not serialisable: %v", name, jerr))
		}
		restore := flipProcs(canon, rec)
		current.Store(&runningCase{st: st, name: name, c: c, start: time.Now(), cpu: processCPU()})
		err := safeRun(c, rec)
		current.Store(nil)
		restore()
		if err != nil {
			path := writeReplay(name, "rapid", canon, err)
			st.mu.Lock()
			// rapid re-invokes the property while shrinking; the last write is
			// the minimal case, so keep only one entry per property.
			st.Violations = []violation{{Replay: path, Error: trunc(err.Error(), 4000)}}
			st.mu.Unlock()
			t.Fatalf("property %s violated: %v\ncase: %s", name, err, trunc(string(canon), 2000))
		}
		st.record(canon, rec)
	}
	p.replay = func(raw json.RawMessage) error {
		var c C
		if err := json.Unmarshal(raw, &c); err != nil {
			return fmt.Errorf("BADREPLAY: %v", err)
		}
		return safeRun(c, &Rec{})
	}
	p.sigs = map[string]func(json.RawMessage) bool{}
	for _, s := range sigs {
		s := s
		p.sigs[s.Name] = func(raw json.RawMessage) bool {
			var c C
			if json.Unmarshal(raw, &c) != nil {
				return false
			}
			return s.Pred(c)
		}
	}
	props = append(props, p)
	byName[name] = p
}

// RegisterReplay registers a replay-only handler (for non-rapid sub-checks).
func RegisterReplay(name string, fn func(raw json.RawMessage) error) {
	p := &prop{name: name, replay: func(raw json.RawMessage) (err error) {
		defer func() {
			if p := recover(); p != nil {
				err = fmt.Errorf("PANIC: %v\n%s", p, trimStack(debug.Stack()))
			}
		}()
		return fn(raw)
	}}
	byName[name] = p
}

func trimStack(b []byte) string {
	s := string(b)
	// drop the frames of the recover machinery itself
	if i := strings.Index(s, "panic("); i >= 0 {
		s = s[i:]
	}
	// keep only the frames of the code under test and of the property itself:
	// the callers (pb, rapid, testing) differ between rapid's phases
	for _, cut := range []string{"verif/harness/internal/pb.", "pgregory.net/rapid.", "testing.tRunner"} {
		if i := strings.Index(s, cut); i >= 0 {
			s = s[:i]
		}
	}
	// rapid only shrinks when the failure message is reproducible byte for
	// byte, so addresses and goroutine numbers must not appear in it
	s = reAddr.ReplaceAllString(s, "0x?")
	s = reGoroutine.ReplaceAllString(s, "goroutine ?")
	return trunc(s, 3000)
}

// ReplayFile is the on-disk format of a replay.
type ReplayFile struct {
	Property string          `json:"property"`
	Prop     string          `json:"prop"`
	Kind     string          `json:"kind"`
	Mode     string          `json:"mode,omitempty"`
	Error    string          `json:"error,omitempty"`
	Case     json.RawMessage `json:"case"`
}

func propertyID() string { return os.Getenv("VERIF_PROPERTY") }

func replayDir() string {
	d := os.Getenv("VERIF_REPLAY_OUT")
	if d == "" {
		d = filepath.Join(os.TempDir(), "verif-replays")
	}
	os.MkdirAll(d, 0o755)
	return d
}

func writeReplay(name, kind string, casejson []byte, err error) string {
	if !json.Valid(casejson) {
		casejson, _ = json.Marshal(string(casejson))
	}
	rf := ReplayFile{Property: propertyID(), Prop: name, Kind: kind, Mode: os.Getenv("VERIF_MODE"), Case: casejson}
	if err != nil {
		rf.Error = trunc(err.Error(), 4000)
	}
	b, _ := json.MarshalIndent(rf, "", " ")
	shard := os.Getenv("VERIF_SHARD")
	path := filepath.Join(replayDir(), fmt.Sprintf("%s.%s.s%s.json", propertyID(), name, shard))
	os.WriteFile(path, b, 0o644)
	return path
}

// Scale returns the case-count multiplier chosen by the driver.
func Scale() float64 {
	if s := os.Getenv("VERIF_SCALE"); s != "" {
		if f, err := strconv.ParseFloat(s, 64); err == nil && f > 0 {
			return f
		}
	}
	return 1
}

func Thorough() bool { return os.Getenv("VERIF_TIER") == "thorough" }

// Seed returns a non-zero seed derived from VERIF_SEED, the shard and a name.
func Seed(name string) uint64 {
	base, _ := strconv.ParseUint(os.Getenv("VERIF_SEED"), 10, 64)
	shard, _ := strconv.ParseUint(os.Getenv("VERIF_SHARD"), 10, 64)
	h := fnv.New64a()
	var b [16]byte
	binary.LittleEndian.PutUint64(b[:8], base)
	binary.LittleEndian.PutUint64(b[8:], shard)
	h.Write(b[:])
	h.Write([]byte(name))
	s := h.Sum64()
	if s == 0 {
		s = 1
	}
	return s
}

// Scaled returns max(1, base*scale).
func Scaled(base int) int {
	n := int(float64(base) * Scale())
	if n < 1 {
		n = 1
	}
	return n
}

// RunProps is the body of TestProps in every package.
func RunProps(t *testing.T) {
	only := os.Getenv("VERIF_ONLY")
	for _, p := range props {
		if only != "" && !strings.Contains(","+only+",", ","+p.name+",") {
			continue
		}
		if os.Getenv("VERIF_TWINS_ONLY") != "" && p.twins <= 1 {
			continue // the "independent objects at the same time" job: only sub-checks that declared themselves safe for it
		}
		p := p
		t.Run(p.name, func(t *testing.T) {
			flag.Set("rapid.checks", strconv.Itoa(Scaled(p.base)))
			flag.Set("rapid.seed", strconv.FormatUint(Seed(p.name), 10))
			flag.Set("rapid.nofailfile", "true")
			if os.Getenv("VERIF_SHRINKTIME") != "" {
				flag.Set("rapid.shrinktime", os.Getenv("VERIF_SHRINKTIME"))
			}
			rapid.Check(t, p.check)
		})
	}
}

// RunReplay is the body of TestReplay: re-executes the files named by
// VERIF_REPLAY (path-list separated by os.PathListSeparator) without rapid.
func RunReplay(t *testing.T) {
	files := filepath.SplitList(os.Getenv("VERIF_REPLAY"))
	st := Stats("replay")
	st.SetRule("saved replay files (shrunk failures and hand-kept regression inputs) re-executed without rapid; every file counts as non-trivial")
	known := knownSigs()
	for _, f := range files {
		if f == "" {
			continue
		}
		b, err := os.ReadFile(f)
		if err != nil {
			t.Errorf("BADREPLAY %s: %v", f, err)
			continue
		}
		var rf ReplayFile
		if err := json.Unmarshal(b, &rf); err != nil {
			t.Errorf("BADREPLAY %s: %v", f, err)
			continue
		}
		p := byName[rf.Prop]
		if p == nil {
			t.Errorf("BADREPLAY %s: unknown prop %q", f, rf.Prop)
			continue
		}
		err = p.replay(rf.Case)
		rec := &Rec{}
		rec.NonTrivial()
		rec.Class("replay:" + rf.Prop)
		st.Case(append([]byte(filepath.Base(f)+":"), rf.Case...), rec)
		if err != nil {
			if strings.HasPrefix(err.Error(), "BADREPLAY") {
				t.Errorf("%s: %v", f, err)
				continue
			}
			kn := ""
			for name, pred := range p.sigs {
				if known[name] && pred(rf.Case) {
					kn = name
				}
			}
			st.s.mu.Lock()
			st.s.Violations = append(st.s.Violations, violation{Replay: f, Error: trunc(err.Error(), 4000), Known: kn})
			if kn != "" {
				st.s.KnownHits[kn]++
			}
			st.s.mu.Unlock()
			if kn == "" {
				t.Errorf("replay %s: property violated: %v", f, err)
			} else {
				t.Logf("replay %s: known finding %s", f, kn)
			}
		}
	}
}

// Main is TestMain: runs the tests and writes the shard's evidence.
// runningCase is the case a Register'ed property is executing right now (sequential code under test: a call
// that never returns can only be noticed from outside).
type runningCase struct {
	st    *propStats
	name  string
	c     any
	start time.Time
	cpu   time.Duration // CPU time of the process when the case started
}

var current atomic.Pointer[runningCase]

// processCPU is the CPU time (user + system) this process has consumed so far.
func processCPU() time.Duration {
	var ru syscall.Rusage
	if syscall.Getrusage(syscall.RUSAGE_SELF, &ru) != nil {
		return 0
	}
	return time.Duration(ru.Utime.Nano() + ru.Stime.Nano())
}

// A generated case that never finishes is reported as a violation ("HANG"), but the bound must not depend on how
// busy the machine is: wall-clock time alone raised a false alarm once (a 512 MiB case of C16 under 16-fold
// parallel load took longer than 100 s). The verdict is therefore based on the CPU time of this process, which
// runs one case at a time:
//   - spinning: the case has consumed more than hangCPU of CPU time (the largest generated cases need a few
//     CPU-seconds), or
//   - blocked: it has been running for more than hangWall and consumed (almost) no CPU time at all in that time,
//     i.e. it is not slow but waiting for something that, in single-goroutine code without I/O, cannot come.
//
// A busy machine slows the wall clock of a healthy case, not its CPU time, and a healthy case that is being
// starved still accumulates CPU time far above the "blocked" threshold.
func hangLimits() (cpu, wall, idle time.Duration) {
	cpu, wall, idle = 120*time.Second, 150*time.Second, 200*time.Millisecond
	if v, err := strconv.Atoi(os.Getenv("VERIF_HANG_SECONDS")); err == nil && v > 0 {
		cpu, wall = time.Duration(v)*time.Second, time.Duration(v)*time.Second
	}
	return
}

func watchHangs() {
	cpuLimit, wallLimit, idle := hangLimits()
	for {
		time.Sleep(time.Second)
		rc := current.Load()
		if rc == nil {
			continue
		}
		wall, cpu := time.Since(rc.start), processCPU()-rc.cpu
		spinning := cpu > cpuLimit
		blocked := wall > wallLimit && cpu < idle
		if !spinning && !blocked {
			continue
		}
		if current.Load() != rc {
			continue // finished in the meantime
		}
		canon, _ := json.Marshal(rc.c)
		how := "spinning"
		if blocked {
			how = "blocked"
		}
		err := fmt.Errorf("HANG (%s): the case has been running for %v and has consumed %v of CPU time; the goroutine executing it:\n%s", how, wall.Round(time.Second), cpu.Round(10*time.Millisecond), hungStack())
		path := writeReplay(rc.name, "hang", canon, err)
		rc.st.mu.Lock()
		rc.st.Violations = []violation{{Replay: path, Error: trunc(err.Error(), 4000)}}
		rc.st.mu.Unlock()
		writeEvidence()
		fmt.Printf("property %s violated: %v\ncase: %s\n", rc.name, trunc(err.Error(), 1500), trunc(string(canon), 2000))
		os.Exit(1)
	}
}

// hungStack returns the stack of the goroutine that runs the test (the one with a frame of package pb's check).
func hungStack() string {
	buf := make([]byte, 1<<20)
	n := runtime.Stack(buf, true)
	for _, g := range strings.Split(string(buf[:n]), "\n\n") {
		if strings.Contains(g, "internal/pb.Register") && !strings.Contains(g, "watchHangs") {
			return trimStack([]byte(g))
		}
	}
	return "(not found)"
}

// The "procs" jobs (VERIF_PROCS_FLIP set; one shard is started with GOMAXPROCS=1 in the environment, the other
// with the machine's default) execute every case with a GOMAXPROCS value chosen by the hash of the case from
// 1, 2, 3, 4, 5, 6, 7, 12, 16: code that looks at the number of processors - once at package initialisation,
// when an object is built, or on every call - and takes another path for one processor, for "many", or does
// arithmetic that is only right for powers of two, meets all of these. What a correct library returns does
// not depend on the value.
var startProcs = runtime.GOMAXPROCS(0)

var procChoices = []int{1, 1, 1, 2, 3, 4, 5, 6, 7, 12, 16}

func flipProcs(canon []byte, rec *Rec) (restore func()) {
	restore, class := FlipProcs(canon)
	if class != "" {
		rec.Class(class)
	}
	return restore
}

// FlipProcs is exported for sub-checks that drive their own loop; class is "" when the job does not vary GOMAXPROCS.
func FlipProcs(canon []byte) (restore func(), class string) {
	if os.Getenv("VERIF_PROCS_FLIP") == "" {
		return func() {}, ""
	}
	h := fnv.New64a()
	h.Write(canon)
	n := procChoices[h.Sum64()>>7%uint64(len(procChoices))]
	runtime.GOMAXPROCS(n)
	return func() { runtime.GOMAXPROCS(startProcs) }, fmt.Sprintf("process started with GOMAXPROCS=%s, case executed with GOMAXPROCS=%d", map[bool]string{true: "1", false: "default"}[startProcs == 1], n)
}

// forceGC runs a garbage collection every few milliseconds for the whole life of the test process, so that
// collections fall between and inside cases at arbitrary points: sync.Pool contents are dropped (two cycles),
// finalizers and cleanups run, memory the library no longer references is recycled. Cases that pass on a
// correct library pass with any placement of collections; code whose results are only right while a pooled
// object, an address kept as an integer or an unsafe view stays alive gets its chance to fail.
// VERIF_GC_MS sets the period (default 20, 0 disables).
var gcPeriodMS = func() int {
	if v, err := strconv.Atoi(os.Getenv("VERIF_GC_MS")); err == nil && v >= 0 {
		return v
	}
	return 20
}()

func forceGC() {
	if gcPeriodMS == 0 {
		return
	}
	for {
		time.Sleep(time.Duration(gcPeriodMS) * time.Millisecond)
		runtime.GC()
	}
}

func Main(m *testing.M) {
	go watchHangs()
	go forceGC()
	code := m.Run()
	writeEvidence()
	os.Exit(code)
}

type shardEvidence struct {
	Property string       `json:"property"`
	Shard    string       `json:"shard"`
	Props    []*propStats `json:"props"`
}

func writeEvidence() {
	out := os.Getenv("VERIF_EV_OUT")
	if out == "" {
		return
	}
	ev := shardEvidence{Property: propertyID(), Shard: os.Getenv("VERIF_SHARD")}
	for _, s := range allStats {
		if s.Evaluations == 0 && len(s.Violations) == 0 && s.Excluded == 0 {
			continue
		}
		s.Distinct = len(s.hashes)
		if gcPeriodMS > 0 {
			s.Notes = append(s.Notes, fmt.Sprintf("a garbage collection was forced every %d ms while the cases ran (collections fall between and inside cases)", gcPeriodMS))
		}
		ev.Props = append(ev.Props, s)
		// hashes → sorted binary file next to the JSON
		hs := make([]uint64, 0, len(s.hashes))
		for h := range s.hashes {
			hs = append(hs, h)
		}
		sort.Slice(hs, func(i, j int) bool { return hs[i] < hs[j] })
		buf := make([]byte, 8*len(hs))
		for i, h := range hs {
			binary.LittleEndian.PutUint64(buf[8*i:], h)
		}
		os.WriteFile(out+"."+sanitize(s.Name)+".hashes", buf, 0o644)
	}
	b, _ := json.Marshal(ev)
	os.WriteFile(out, b, 0o644)
}

func sanitize(s string) string {
	return strings.Map(func(r rune) rune {
		if r >= 'a' && r <= 'z' || r >= 'A' && r <= 'Z' || r >= '0' && r <= '9' || r == '_' || r == '-' {
			return r
		}
		return '_'
	}, s)
}

// Catch runs f converting a panic into an error (for "never panics" oracles).
func Catch(f func()) (err error) {
	defer func() {
		if p := recover(); p != nil {
			err = fmt.Errorf("PANIC: %v\n%s", p, trimStack(debug.Stack()))
		}
	}()
	f()
	return nil
}

// SameConcurrently evaluates every fns[i](inputs[j]) once, one call at a time, and then lets `goroutines`
// goroutines repeat all calls `rounds` times at the same time: for pure functions every concurrent result must equal
// the result of the same call made alone. It returns the first difference (or panic).
func SameConcurrently(names []string, fns []func(string) string, inputs []string, goroutines, rounds int) error {
	want := make([][]string, len(fns))
	for i, f := range fns {
		for _, in := range inputs {
			want[i] = append(want[i], f(in))
		}
	}
	var mu sync.Mutex
	var bad error
	fail := func(f string, a ...any) {
		mu.Lock()
		if bad == nil {
			bad = fmt.Errorf(f, a...)
		}
		mu.Unlock()
	}
	var wg sync.WaitGroup
	for gi := 0; gi < goroutines; gi++ {
		wg.Add(1)
		go func(gi int) {
			defer wg.Done()
			defer func() {
				if p := recover(); p != nil {
					fail("panic in a concurrent caller: %v", p)
				}
			}()
			for round := 0; round < rounds; round++ {
				for i := range fns {
					ci := (i + gi) % len(fns)
					for j, in := range inputs {
						if got := fns[ci](in); got != want[ci][j] {
							fail("%s(%q) = %q while %d goroutines call concurrently; called alone it returns %q", names[ci], trunc(in, 200), trunc(got, 300), goroutines, trunc(want[ci][j], 300))
							return
						}
					}
				}
			}
		}(gi)
	}
	wg.Wait()
	return bad
}

// FirstOps checks operations that must work as the very first use of the library in a process (package-level state
// that is set up lazily, or by init, must not depend on which entry point happens to be called first). Every
// generated case of the ordinary sub-checks runs in a process that has already used the library thousands of times;
// here each operation gets a process of its own: the test binary re-executes itself once per operation with
// VERIF_FIRSTOP=<name>, and the child runs nothing but that operation.
// Call it from a Test function: in the parent it returns after all children have been judged; in a child it runs the
// operation, prints the verdict and exits.
func FirstOps(t *testing.T, statsName, testName string, names []string, ops map[string]func() error) {
	if child := os.Getenv("VERIF_FIRSTOP"); child != "" {
		op := ops[child]
		if op == nil {
			fmt.Println("FIRSTOP-FAIL: unknown operation " + child)
			os.Exit(3)
		}
		err := func() (err error) {
			defer func() {
				if p := recover(); p != nil {
					err = fmt.Errorf("PANIC: %v\n%s", p, trimStack(debug.Stack()))
				}
			}()
			return op()
		}()
		if err != nil {
			fmt.Println("FIRSTOP-FAIL: " + strings.ReplaceAll(err.Error(), "\n", " | "))
			os.Exit(3)
		}
		fmt.Println("FIRSTOP-OK")
		os.Exit(0)
	}
	st := Stats(statsName)
	st.SetExhaustive(true)
	for _, name := range names {
		cmd := exec.Command(os.Args[0], "-test.run", "^"+testName+"$", "-test.count=1")
		cmd.Env = append(os.Environ(), "VERIF_FIRSTOP="+name, "VERIF_EV_OUT=")
		out, err := cmd.CombinedOutput()
		js, _ := json.Marshal(map[string]string{"first_operation": name})
		rec := &Rec{}
		rec.NonTrivial()
		rec.Class("first operation: " + name)
		st.Case(js, rec)
		if strings.Contains(string(out), "FIRSTOP-OK") && err == nil {
			continue
		}
		msg := "the child process gave no verdict: " + trunc(string(out), 1500)
		if i := strings.Index(string(out), "FIRSTOP-FAIL: "); i >= 0 {
			msg = strings.TrimSpace(strings.SplitN(string(out)[i+len("FIRSTOP-FAIL: "):], "\n", 2)[0])
		}
		e := fmt.Errorf("as the first use of the library in a fresh process, %s fails: %s", name, msg)
		st.Violation("first-op", js, e)
		t.Errorf("%v", e)
	}
}
