// evmerge merges the per-shard evidence written by the test binaries into one
// /verif/evidence/<id>.json (EVIDENCE.schema.json) and prints a machine
// readable summary for the driver on stdout.
package main

import (
	"encoding/binary"
	"encoding/json"
	"flag"
	"fmt"
	"os"
	"sort"
	"strings"
)

type violation struct {
	Replay string `json:"replay"`
	Error  string `json:"error"`
	Known  string `json:"known,omitempty"`
}

type propStats struct {
	Name        string            `json:"name"`
	Evaluations int64             `json:"evaluations"`
	NonTrivial  int64             `json:"nontrivial_total"`
	Distinct    int               `json:"distinct_nontrivial"`
	Classes     map[string]int64  `json:"classes"`
	Required    []string          `json:"required_classes,omitempty"`
	Samples     []json.RawMessage `json:"samples"`
	Violations  []violation       `json:"violations,omitempty"`
	KnownHits   map[string]int64  `json:"known_hits,omitempty"`
	Excluded    int64             `json:"excluded_by_known_finding,omitempty"`
	Exhaustive  bool              `json:"exhaustive,omitempty"`
	Notes       []string          `json:"notes,omitempty"`
	Rule        string            `json:"rule,omitempty"`
	shards      int
	hashes      []uint64
}

type shardEvidence struct {
	Property string       `json:"property"`
	Shard    string       `json:"shard"`
	Props    []*propStats `json:"props"`
}

func sanitize(s string) string {
	return strings.Map(func(r rune) rune {
		if r >= 'a' && r <= 'z' || r >= 'A' && r <= 'Z' || r >= '0' && r <= '9' || r == '_' || r == '-' {
			return r
		}
		return '_'
	}, s)
}

func main() {
	var (
		prop   = flag.String("property", "", "")
		tier   = flag.String("tier", "quick", "")
		seed   = flag.Int64("seed", 0, "")
		wall   = flag.Float64("wall", 0, "")
		out    = flag.String("out", "", "")
		assume = flag.String("assumptions", "", "file with one assumption per line")
		extra  = flag.String("extra", "", "JSON object merged into coverage")
	)
	flag.Parse()
	merged := map[string]*propStats{}
	var order []string
	for _, f := range flag.Args() {
		b, err := os.ReadFile(f)
		if err != nil {
			continue // shard died before writing; the driver handles that
		}
		var se shardEvidence
		if json.Unmarshal(b, &se) != nil {
			continue
		}
		for _, p := range se.Props {
			hb, _ := os.ReadFile(f + "." + sanitize(p.Name) + ".hashes")
			m := merged[p.Name]
			if m == nil {
				m = &propStats{Name: p.Name, Classes: map[string]int64{}, KnownHits: map[string]int64{}, Required: p.Required, Rule: p.Rule, Exhaustive: p.Exhaustive}
				merged[p.Name] = m
				order = append(order, p.Name)
			}
			m.shards++
			m.Evaluations += p.Evaluations
			m.NonTrivial += p.NonTrivial
			m.Excluded += p.Excluded
			m.Exhaustive = m.Exhaustive && p.Exhaustive
			for k, v := range p.Classes {
				m.Classes[k] += v
			}
			for k, v := range p.KnownHits {
				m.KnownHits[k] += v
			}
			if len(m.Samples) < 6 {
				n := 6 - len(m.Samples)
				if n > 2 && m.shards > 1 {
					n = 2
				}
				if n > len(p.Samples) {
					n = len(p.Samples)
				}
				m.Samples = append(m.Samples, p.Samples[:n]...)
			}
			m.Violations = append(m.Violations, p.Violations...)
			for _, n := range p.Notes {
				dup := false
				for _, o := range m.Notes {
					dup = dup || o == n
				}
				if !dup {
					m.Notes = append(m.Notes, n)
				}
			}
			for i := 0; i+8 <= len(hb); i += 8 {
				m.hashes = append(m.hashes, binary.LittleEndian.Uint64(hb[i:]))
			}
		}
	}
	var (
		evals, distinct int64
		classes         = map[string]int64{}
		samples         []json.RawMessage
		subs            []map[string]any
		viol            []violation
		missing         []string
		rules           []string
		allExh          = len(order) > 0
		excluded        int64
		knownHits       = map[string]int64{}
	)
	for _, name := range order {
		m := merged[name]
		sort.Slice(m.hashes, func(i, j int) bool { return m.hashes[i] < m.hashes[j] })
		d := 0
		for i, h := range m.hashes {
			if i == 0 || h != m.hashes[i-1] {
				d++
			}
		}
		m.Distinct = d
		evals += m.Evaluations
		distinct += int64(d)
		excluded += m.Excluded
		allExh = allExh && m.Exhaustive
		for k, v := range m.Classes {
			classes[name+"/"+k] += v
		}
		for k, v := range m.KnownHits {
			knownHits[k] += v
		}
		for _, r := range m.Required {
			if m.Classes[r] == 0 && m.Evaluations > 0 {
				missing = append(missing, name+"/"+r)
			}
		}
		for i, s := range m.Samples {
			if i < 3 {
				samples = append(samples, json.RawMessage(fmt.Sprintf(`{"sub_check":%q,"sample":%s}`, name, s)))
			}
		}
		if m.Rule != "" {
			rules = append(rules, name+": "+m.Rule)
		}
		sub := map[string]any{"name": name, "evaluations": m.Evaluations, "nontrivial_total": m.NonTrivial,
			"distinct_nontrivial": d, "classes": m.Classes, "shards": m.shards}
		if m.Exhaustive {
			sub["exhaustive"] = true
		}
		if len(m.Notes) > 0 {
			sub["notes"] = m.Notes
		}
		if m.Excluded > 0 {
			sub["excluded_by_known_finding"] = m.Excluded
		}
		subs = append(subs, sub)
		viol = append(viol, m.Violations...)
	}
	if len(samples) > 40 {
		samples = samples[:40]
	}
	unknown := 0
	for _, v := range viol {
		if v.Known == "" {
			unknown++
		}
	}
	cov := map[string]any{
		"evaluations":         evals,
		"distinct_nontrivial": distinct,
		"rule":                "cases are drawn by rapid generators / enumerated as described per sub-check; a case is counted in distinct_nontrivial when it satisfies the sub-check's non-triviality rule and the 64-bit FNV hash of its canonical JSON encoding was not seen before (union over shards; a shard stops recording new hashes after 3 million per sub-check, so very large runs under-count). " + strings.Join(rules, " | "),
		"samples":             samples,
		"classes":             classes,
		"sub_checks":          subs,
		"exhaustive":          allExh,
	}
	if excluded > 0 || len(knownHits) > 0 {
		cov["excluded_by_known_finding"] = excluded
		cov["known_finding_hits"] = knownHits
	}
	if *extra != "" {
		var ex map[string]any
		if json.Unmarshal([]byte(*extra), &ex) == nil {
			for k, v := range ex {
				cov[k] = v
			}
		}
	}
	ev := map[string]any{
		"property_id": *prop, "tier": *tier, "seed": *seed, "level": "exploration",
		"coverage": cov, "wall_s": *wall, "violations": unknown,
	}
	if *assume != "" {
		if b, err := os.ReadFile(*assume); err == nil {
			var as []string
			for _, l := range strings.Split(string(b), "\n") {
				if strings.TrimSpace(l) != "" {
					as = append(as, strings.TrimSpace(l))
				}
			}
			ev["assumptions"] = as
		}
	}
	b, _ := json.MarshalIndent(ev, "", " ")
	if *out != "" {
		if err := os.WriteFile(*out, append(b, '\n'), 0o644); err != nil {
			fmt.Fprintln(os.Stderr, err)
			os.Exit(2)
		}
	}
	sum := map[string]any{"evaluations": evals, "distinct_nontrivial": distinct, "violations": viol, "missing_required": missing, "known_hits": knownHits}
	sb, _ := json.Marshal(sum)
	fmt.Println(string(sb))
}
