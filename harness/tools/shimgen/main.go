// shimgen writes, for the concurrent packages of golib, copies of the *current*
// source files in which only the imports of "sync/atomic" and "sync" are
// redirected to the schedule-controlling shims and runtime.Gosched is redirected
// to vsched.Gosched, plus an overlay.json for `go test -overlay` that also maps
// the virtual package directory <repo>/zzverifshim/... to /verif/shim/...
// Nothing is written under the repository.
package main

import (
	"bytes"
	"encoding/json"
	"flag"
	"fmt"
	"go/ast"
	"go/format"
	"go/parser"
	"go/token"
	"os"
	"path/filepath"
	"strconv"
	"strings"
)

const shimBase = "github.com/welllog/golib/zzverifshim/"

func main() {
	repo := flag.String("repo", "/repo", "")
	shim := flag.String("shim", "/verif/shim", "")
	out := flag.String("out", "", "")
	pkgs := flag.String("pkgs", "ringz,listz,mapz", "")
	flag.Parse()
	replace := map[string]string{}
	for _, pkg := range strings.Split(*pkgs, ",") {
		files, _ := filepath.Glob(filepath.Join(*repo, pkg, "*.go"))
		for _, f := range files {
			if strings.HasSuffix(f, "_test.go") {
				continue
			}
			src, changed, err := rewrite(f)
			if err != nil {
				fmt.Fprintln(os.Stderr, "shimgen:", err)
				os.Exit(1)
			}
			if !changed {
				continue
			}
			dst := filepath.Join(*out, pkg+"_"+filepath.Base(f))
			if err := os.WriteFile(dst, src, 0o644); err != nil {
				fmt.Fprintln(os.Stderr, "shimgen:", err)
				os.Exit(1)
			}
			replace[f] = dst
		}
	}
	for _, p := range []string{"vsched", "vatomic", "vsync"} {
		files, _ := filepath.Glob(filepath.Join(*shim, p, "*.go"))
		for _, f := range files {
			replace[filepath.Join(*repo, "zzverifshim", p, filepath.Base(f))] = f
		}
	}
	b, _ := json.MarshalIndent(map[string]any{"Replace": replace}, "", " ")
	if err := os.WriteFile(filepath.Join(*out, "overlay.json"), b, 0o644); err != nil {
		fmt.Fprintln(os.Stderr, "shimgen:", err)
		os.Exit(1)
	}
}

func rewrite(path string) ([]byte, bool, error) {
	fset := token.NewFileSet()
	f, err := parser.ParseFile(fset, path, nil, parser.ParseComments)
	if err != nil {
		return nil, false, err
	}
	changed := false
	runtimeName := ""
	for _, imp := range f.Imports {
		p, _ := strconv.Unquote(imp.Path.Value)
		switch p {
		case "sync/atomic":
			if imp.Name == nil {
				imp.Name = ast.NewIdent("atomic")
			}
			imp.Path.Value = strconv.Quote(shimBase + "vatomic")
			changed = true
		case "sync":
			if imp.Name == nil {
				imp.Name = ast.NewIdent("sync")
			}
			imp.Path.Value = strconv.Quote(shimBase + "vsync")
			changed = true
		case "runtime":
			runtimeName = "runtime"
			if imp.Name != nil {
				runtimeName = imp.Name.Name
			}
		}
	}
	goschedUsed, runtimeOther := false, false
	if runtimeName != "" {
		ast.Inspect(f, func(n ast.Node) bool {
			sel, ok := n.(*ast.SelectorExpr)
			if !ok {
				return true
			}
			if id, ok := sel.X.(*ast.Ident); ok && id.Name == runtimeName && id.Obj == nil {
				if sel.Sel.Name == "Gosched" {
					id.Name = "zzvsched"
					goschedUsed = true
				} else {
					runtimeOther = true
				}
			}
			return true
		})
	}
	if goschedUsed {
		changed = true
		// add the vsched import; drop "runtime" if nothing else uses it
		for _, d := range f.Decls {
			gd, ok := d.(*ast.GenDecl)
			if !ok || gd.Tok != token.IMPORT {
				continue
			}
			var specs []ast.Spec
			for _, s := range gd.Specs {
				is := s.(*ast.ImportSpec)
				if p, _ := strconv.Unquote(is.Path.Value); p == "runtime" && !runtimeOther {
					continue
				}
				specs = append(specs, s)
			}
			specs = append(specs, &ast.ImportSpec{Name: ast.NewIdent("zzvsched"), Path: &ast.BasicLit{Kind: token.STRING, Value: strconv.Quote(shimBase + "vsched")}})
			gd.Specs = specs
			if !gd.Lparen.IsValid() {
				gd.Lparen = gd.Pos()
				gd.Rparen = gd.End()
			}
			break
		}
	}
	if !changed {
		return nil, false, nil
	}
	var buf bytes.Buffer
	if err := format.Node(&buf, fset, f); err != nil {
		return nil, false, err
	}
	return buf.Bytes(), true, nil
}
