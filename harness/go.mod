module verif/harness

go 1.23

require (
	github.com/anishathalye/porcupine v1.3.0
	github.com/welllog/golib v0.0.0
	pgregory.net/rapid v1.3.0
)

replace github.com/welllog/golib => /repo
