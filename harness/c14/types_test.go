package c14

// The slicez functions are generic over comparable element types. This file runs the same small cases
// through several instantiations whose == is unusual: float64 (NaN != NaN, -0 == +0), strings, a struct with
// a float field, pointers (equal pointees, different pointers) and a zero-size type. The reference is the
// definition spelled with == and linear scans; elements are identified by their printed form, so "-0" and
// "0", although equal, are told apart where the definition says which element of the first slice is returned.

import (
	"fmt"
	"math"
	"sort"

	"github.com/welllog/golib/slicez"
	"pgregory.net/rapid"

	"verif/harness/internal/pb"
)

type typedCase struct {
	Type   string // float64 string struct pointer empty
	Fn     string
	S1, S2 []int // element codes 0..5, mapped to values of the element type
	Dst    int   // 0 nil, 1 fresh, 2 s1[:0], 3 s2[:0]
	V      int   // element code for Index/Contains
	Same   bool  // Equal: both arguments are the same slice
}

var typedFns = []string{"diff", "intersect", "unique", "diffinplace", "intersectinplace", "uniqueinplace", "equal", "index", "filter"}

func genTyped(t *rapid.T) typedCase {
	sl := func(label string) []int {
		return rapid.SliceOfN(rapid.IntRange(0, 5), 0, rapid.SampledFrom([]int{3, 6, 12}).Draw(t, label+"max")).Draw(t, label)
	}
	return typedCase{Type: rapid.SampledFrom([]string{"float64", "float64", "string", "struct", "pointer", "empty"}).Draw(t, "type"), Fn: rapid.SampledFrom(typedFns).Draw(t, "fn"),
		S1: sl("s1"), S2: sl("s2"), Dst: rapid.IntRange(0, 3).Draw(t, "dst"), V: rapid.IntRange(0, 5).Draw(t, "v"), Same: rapid.Bool().Draw(t, "same")}
}

type pairT struct {
	A int8
	F float32
}

var pointees = [3]int{7, 7, 8} // two different pointers to equal values

func runTyped(c typedCase, r *pb.Rec) error {
	for _, v := range append(append([]int{c.V}, c.S1...), c.S2...) {
		if v < 0 || v > 5 {
			return nil
		}
	}
	if len(c.S1) > 64 || len(c.S2) > 64 {
		return nil
	}
	nan := math.NaN()
	switch c.Type {
	case "float64":
		vals := []float64{0, math.Copysign(0, -1), nan, 1.5, math.Inf(1), nan}
		r.Class("float64 elements with NaN and signed zeros")
		return typedRun(c, r, func(i int) float64 { return vals[i] })
	case "string":
		vals := []string{"", "a", "b", "ab", "é", "a\x00"}
		return typedRun(c, r, func(i int) string { return vals[i] })
	case "struct":
		f32nan := float32(math.NaN())
		vals := []pairT{{0, 0}, {0, float32(math.Copysign(0, -1))}, {0, f32nan}, {1, 0}, {1, f32nan}, {2, 1}}
		r.Class("struct elements with a NaN field")
		return typedRun(c, r, func(i int) pairT { return vals[i] })
	case "pointer":
		vals := []*int{nil, &pointees[0], &pointees[1], &pointees[2], &pointees[0], nil}
		return typedRun(c, r, func(i int) *int { return vals[i] })
	case "empty":
		r.Class("zero-size element type")
		return typedRun(c, r, func(int) struct{} { return struct{}{} })
	}
	return nil
}

func typedRun[T comparable](c typedCase, r *pb.Rec, conv func(int) T) error {
	mk := func(codes []int) []T {
		out := make([]T, len(codes), len(codes)+2)
		for i, x := range codes {
			out[i] = conv(x)
		}
		return out
	}
	repr := func(s []T) []string {
		out := make([]string, len(s))
		for i, v := range s {
			out[i] = fmt.Sprintf("%v", any(v))
			if p, ok := any(v).(*int); ok {
				out[i] = fmt.Sprintf("%p", p)
			}
		}
		return out
	}
	sameSeq := func(a, b []T) bool { return fmt.Sprint(repr(a)) == fmt.Sprint(repr(b)) }
	msKey := func(s []T) string {
		// multiset up to ==: +0 and -0 are one value; NaNs are all alike (no way to tell them apart)
		k := repr(s)
		for i := range k {
			if k[i] == "-0" {
				k[i] = "0"
			}
			if k[i] == "{0 -0}" {
				k[i] = "{0 0}"
			}
		}
		sort.Strings(k)
		return fmt.Sprint(k)
	}
	contains := func(s []T, v T) bool {
		for _, x := range s {
			if x == v {
				return true
			}
		}
		return false
	}
	o1, o2 := mk(c.S1), mk(c.S2)
	s1, s2 := mk(c.S1), mk(c.S2)
	var dst []T
	switch c.Dst {
	case 1:
		dst = make([]T, 0, 4)
	case 2:
		dst = s1[:0]
	case 3:
		dst = s2[:0]
	}
	fail := func(f string, a ...any) error {
		return fmt.Errorf("%s on []%s (s1=%v s2=%v, dst layout %d): %s", c.Fn, c.Type, repr(o1), repr(o2), c.Dst, fmt.Sprintf(f, a...))
	}
	sel := func(keep func(T) bool) []T {
		var out []T
		for _, v := range o1 {
			if keep(v) {
				out = append(out, v)
			}
		}
		return out
	}
	firsts := func() []T {
		var out []T
		for _, v := range o1 {
			if !contains(out, v) {
				out = append(out, v)
			}
		}
		return out
	}
	switch c.Fn {
	case "diff":
		if got, want := slicez.Diff(dst, s1, s2), sel(func(v T) bool { return !contains(o2, v) }); !sameSeq(got, want) {
			return fail("= %v want %v", repr(got), repr(want))
		}
	case "intersect":
		if got, want := slicez.Intersect(dst, s1, s2), sel(func(v T) bool { return contains(o2, v) }); !sameSeq(got, want) {
			return fail("= %v want %v", repr(got), repr(want))
		}
	case "unique":
		if c.Dst == 3 {
			dst = nil
		}
		if got, want := slicez.Unique(dst, s1), firsts(); !sameSeq(got, want) {
			return fail("= %v want %v", repr(got), repr(want))
		}
	case "filter":
		if c.Dst == 3 {
			dst = nil
		}
		v := conv(c.V)
		if got, want := slicez.Filter(dst, s1, func(x T) bool { return x != v }), sel(func(x T) bool { return x != v }); !sameSeq(got, want) {
			return fail("(elements != %v) = %v want %v", repr([]T{v}), repr(got), repr(want))
		}
	case "diffinplace":
		got := slicez.DiffInPlaceFirst(s1, s2)
		if want := sel(func(v T) bool { return !contains(o2, v) }); msKey(got) != msKey(want) {
			return fail("= %v, want the multiset %v", repr(got), repr(want))
		}
		if msKey(s1) != msKey(o1) {
			return fail("the argument slice %v is no longer a permutation of its content", repr(s1))
		}
	case "intersectinplace":
		got := slicez.IntersectInPlaceFirst(s1, s2)
		if want := sel(func(v T) bool { return contains(o2, v) }); msKey(got) != msKey(want) {
			return fail("= %v, want the multiset %v", repr(got), repr(want))
		}
		if msKey(s1) != msKey(o1) {
			return fail("the argument slice %v is no longer a permutation of its content", repr(s1))
		}
	case "uniqueinplace":
		got := slicez.UniqueInPlace(s1)
		if want := firsts(); msKey(got) != msKey(want) {
			return fail("= %v, want the multiset %v", repr(got), repr(want))
		}
		if msKey(s1) != msKey(o1) {
			return fail("the argument slice %v is no longer a permutation of its content", repr(s1))
		}
	case "equal":
		a, b := s1, s2
		if c.Same {
			b = s1
			o2 = o1
		}
		want := len(o1) == len(o2)
		for i := 0; want && i < len(o1); i++ {
			want = o1[i] == o2[i]
		}
		if got := slicez.Equal(a, b); got != want {
			return fail("Equal (same slice passed twice: %v) = %v, element-wise == gives %v", c.Same, got, want)
		}
		r.ClassIf(c.Same && !want, "Equal(s, s) is false (an element differs from itself)")
	case "index":
		v := conv(c.V)
		wi := -1
		for i, x := range o1 {
			if x == v {
				wi = i
				break
			}
		}
		if g := slicez.Index(s1, v); g != wi {
			return fail("Index(%v) = %d want %d", repr([]T{v}), g, wi)
		}
		if g := slicez.Contains(s1, v); g != (wi >= 0) {
			return fail("Contains(%v) = %v want %v", repr([]T{v}), g, wi >= 0)
		}
	}
	if c.Dst != 3 && c.Fn != "equal" && !sameSeq(s2, o2) {
		return fail("the second slice was modified: %v", repr(s2))
	}
	r.NonTrivialIf(len(c.S1) >= 3)
	return nil
}

func init() {
	pb.Register("slice_functions_types", pb.Options{Twins: 3, Base: 12000, Required: []string{"float64 elements with NaN and signed zeros", "struct elements with a NaN field", "zero-size element type", "Equal(s, s) is false (an element differs from itself)"},
		Rule: "Diff/Intersect/Unique/Filter, the in-place forms, Equal (also with the same slice passed twice), Index and Contains instantiated for float64 (NaN, -0, +0, Inf), string, a struct with a float32 field, *int (different pointers to equal values, nil) and struct{}; slices of 0..12 elements, dst in {nil, fresh, s1[:0], s2[:0]}; oracle: the definitions spelled with == and linear scans, elements identified by their printed form; non-trivial = first slice of >= 3 elements"},
		genTyped, runTyped)
}
