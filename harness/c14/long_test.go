package c14

// Long run on ONE FlexSlice: tens of thousands of operations with the size oscillating across the growth and
// shrink thresholds many times; the slice model is compared after every call (cheaply) and in full at checkpoints.

import (
	"fmt"

	"github.com/welllog/golib/slicez"
	"pgregory.net/rapid"

	"verif/harness/internal/pb"
)

type flexLong struct {
	Seed  uint64
	Steps int
	Peak  int // the size oscillates between 0 and about Peak
}

func genFlexLong(t *rapid.T) flexLong {
	return flexLong{Seed: rapid.Uint64().Draw(t, "seed"), Steps: rapid.SampledFrom([]int{3000, 30000}).Draw(t, "steps"), Peak: rapid.SampledFrom([]int{12, 40, 300, 2000}).Draw(t, "peak")}
}

func runFlexLong(c flexLong, r *pb.Rec) error {
	if c.Steps < 1 || c.Steps > 200000 || c.Peak < 1 || c.Peak > 100000 {
		return nil
	}
	st := c.Seed | 1
	rnd := func(n int) int {
		st ^= st << 13
		st ^= st >> 7
		st ^= st << 17
		return int(st % uint64(n))
	}
	var f slicez.FlexSlice[int]
	var model []int
	next := 0
	growing := true
	shrinks := 0
	lastCap := 0
	for step := 0; step < c.Steps; step++ {
		where := fmt.Sprintf("FlexSlice long run (seed %d, peak %d), step %d", c.Seed, c.Peak, step)
		if len(model) >= c.Peak {
			growing = false
		} else if len(model) == 0 {
			growing = true
		}
		op := rnd(10)
		if growing && op < 6 || !growing && op < 2 {
			k := 1 + rnd(3)
			vs := make([]int, k)
			for i := range vs {
				next++
				vs[i] = next
			}
			if rnd(3) == 0 {
				f.Prepend(vs...)
				model = append(append([]int(nil), vs...), model...)
			} else {
				f.Append(vs...)
				model = append(model, vs...)
			}
		} else {
			var v int
			var ok bool
			var want int
			has := len(model) > 0
			switch rnd(3) {
			case 0:
				v, ok = f.Pop()
				if has {
					want = model[len(model)-1]
					model = model[:len(model)-1]
				}
			case 1:
				v, ok = f.Shift()
				if has {
					want = model[0]
					model = model[1:]
				}
			default:
				i := 0
				if has {
					i = rnd(len(model))
				}
				v, ok = f.Remove(i)
				if has {
					want = model[i]
					model = append(model[:i:i], model[i+1:]...)
				}
			}
			if ok != has || (has && v != want) {
				return fmt.Errorf("%s: removal returned %d,%v want %d,%v", where, v, ok, want, has)
			}
		}
		if f.Len() != len(model) {
			return fmt.Errorf("%s: Len = %d, model %d", where, f.Len(), len(model))
		}
		if cp := cap(f.Values); cp < lastCap {
			shrinks++
		}
		lastCap = cap(f.Values)
		if len(model) > 0 {
			i := rnd(len(model))
			if v, ok := f.Get(i); !ok || v != model[i] {
				return fmt.Errorf("%s: Get(%d) = %d,%v want %d", where, i, v, ok, model[i])
			}
		}
		if step%2048 == 2047 || step == c.Steps-1 {
			if !eq(f.Values, model) {
				return fmt.Errorf("%s: content differs from the model (%d elements)", where, len(model))
			}
		}
	}
	r.ClassIf(shrinks >= 5, "capacity shrank at least 5 times on one object")
	r.NonTrivialIf(c.Steps >= 30000)
	return nil
}

func init() {
	pb.Register("flexslice_long_run", pb.Options{Base: 12, Required: []string{"capacity shrank at least 5 times on one object"},
		Rule: "3000 or 30000 PRNG-driven Append/Prepend (1..3 values)/Pop/Shift/Remove/Get calls on one FlexSlice whose size oscillates between 0 and 12..2000; oracle: slice model (every returned value, Len, a random Get after every call, full content every 2048 steps); non-trivial = 30000 operations"},
		genFlexLong, runFlexLong)
}
