package c14

// FlexSlice holding hundreds to tens of thousands of elements: the slice is set up with a chosen length and
// spare capacity (through Append calls, or - the field is exported - by handing it a slice), and then a few
// bulk steps follow whose sizes are chosen relative to the current capacity and length: Append / Prepend of
// around cap/4, cap/2, cap, 2*cap values (or 0, 1, 2), n Pops / Shifts down past the shrink threshold,
// Remove at a position, SubSlice. The oracle is the slice model; the whole content is compared after every step.

import (
	"fmt"

	"github.com/welllog/golib/slicez"
	"pgregory.net/rapid"

	"verif/harness/internal/pb"
)

type flOp struct {
	K int // 0 Append, 1 Prepend, 2 Pop xn, 3 Shift xn, 4 Remove, 5 SubSlice (adopted)
	F int // size as a fraction: index into flFracs (of cap for Append/Prepend, of len otherwise)
	D int // offset -2..2
}

var flFracs = []int{0, 1, 125, 250, 251, 333, 500, 750, 1000, 1001, 1250, 2000, 3000} // per-mille; 1 stands for "one element"

type flCase struct {
	Len, Spare int
	ByAppend   bool
	Ops        []flOp
}

var flLens = []int{0, 1, 8, 9, 64, 255, 256, 257, 300, 511, 512, 513, 1000, 1023, 1024, 1025, 2048, 4096, 4097, 10000, 65536, 65537}

func genFlexLarge(t *rapid.T) flCase {
	c := flCase{Len: rapid.OneOf(rapid.SampledFrom(flLens), rapid.IntRange(0, 3000)).Draw(t, "len"), Spare: rapid.SampledFrom([]int{0, 0, 0, 1, 2, 7, 64, 100, 256, 1000}).Draw(t, "spare"), ByAppend: rapid.Bool().Draw(t, "byappend")}
	for i, n := 0, rapid.IntRange(1, 6).Draw(t, "nops"); i < n; i++ {
		c.Ops = append(c.Ops, flOp{K: rapid.SampledFrom([]int{0, 1, 1, 1, 2, 3, 4, 5}).Draw(t, "k"), F: rapid.IntRange(0, len(flFracs)-1).Draw(t, "f"), D: rapid.IntRange(-2, 2).Draw(t, "d")})
	}
	return c
}

func runFlexLarge(c flCase, r *pb.Rec) error {
	if c.Len < 0 || c.Len > 1<<17 || c.Spare < 0 || c.Spare > 1<<12 || len(c.Ops) > 8 {
		return nil
	}
	var f slicez.FlexSlice[int]
	var model []int
	next := 0
	if c.ByAppend {
		for i := 0; i < c.Len; i++ {
			next++
			f.Append(next)
			model = append(model, next)
		}
	} else {
		f.Values = make([]int, c.Len, c.Len+c.Spare)
		for i := range f.Values {
			next++
			f.Values[i] = next
		}
		model = append(model, f.Values...)
	}
	for step, o := range c.Ops {
		if o.F < 0 || o.F >= len(flFracs) || len(model) > 1<<19 {
			return nil
		}
		capB, lenB := cap(f.Values), len(model)
		size := func(base int) int {
			if flFracs[o.F] == 1 {
				return 1
			}
			return max(0, base*flFracs[o.F]/1000+o.D)
		}
		where := fmt.Sprintf("FlexSlice with len %d cap %d, step %d", lenB, capB, step)
		switch o.K {
		case 0, 1:
			n := size(max(capB, 4))
			vs := make([]int, n)
			for i := range vs {
				next++
				vs[i] = next
			}
			if o.K == 0 {
				where += fmt.Sprintf(": Append of %d values", n)
				f.Append(vs...)
				model = append(model, vs...)
			} else {
				where += fmt.Sprintf(": Prepend of %d values", n)
				f.Prepend(vs...)
				model = append(append(make([]int, 0, n+len(model)), vs...), model...)
				re := lenB+n > capB
				r.ClassIf(re && capB >= 256, "Prepend that must reallocate on a capacity >= 256")
				r.ClassIf(re && capB >= 256 && lenB+n > capB+capB/4, "Prepend on a capacity >= 256 that needs more than 1.25 times the capacity")
				r.ClassIf(re && capB >= 256 && lenB+n > 2*capB, "Prepend on a capacity >= 256 that needs more than twice the capacity")
				r.ClassIf(!re && capB >= 256 && n > 0, "Prepend within a spare capacity >= 256")
			}
			for i := range vs {
				if vs[i] != next-n+1+i {
					return fmt.Errorf("%s: the argument slice was modified", where)
				}
				vs[i] = -99 - i // the caller goes on using its own slice
			}
		case 2, 3:
			n := size(lenB)
			if o.K == 3 && lenB > 0 { // a Shift moves the whole content: keep the work of one step below 2e7 element moves
				n = min(n, 20000000/lenB)
			}
			where += fmt.Sprintf(": %d x %s", n, map[int]string{2: "Pop", 3: "Shift"}[o.K])
			for i := 0; i < n; i++ {
				var v int
				var ok bool
				if o.K == 2 {
					v, ok = f.Pop()
				} else {
					v, ok = f.Shift()
				}
				if ok != (len(model) > 0) {
					return fmt.Errorf("%s: call %d reports %v with %d elements held", where, i, ok, len(model))
				}
				if !ok {
					break
				}
				want := model[0]
				if o.K == 2 {
					want = model[len(model)-1]
					model = model[:len(model)-1]
				} else {
					model = model[1:]
				}
				if v != want {
					return fmt.Errorf("%s: call %d returned %d want %d", where, i, v, want)
				}
			}
			r.ClassIf(cap(f.Values) < capB && capB >= 1024, "a capacity >= 1024 shrank")
		case 4:
			i := size(lenB)
			where += fmt.Sprintf(": Remove(%d)", i)
			v, ok := f.Remove(i)
			in := i >= 0 && i < len(model)
			if ok != in || (in && v != model[i]) {
				return fmt.Errorf("%s = %d,%v", where, v, ok)
			}
			if in {
				model = append(model[:i:i], model[i+1:]...)
			}
		case 5:
			st, en := size(lenB)/2, size(lenB)
			if st > en || en > len(model) {
				continue
			}
			where += fmt.Sprintf(": SubSlice(%d,%d), continuing on the result", st, en)
			sub := f.SubSlice(st, en)
			if !eq(f.Values, model) {
				return fmt.Errorf("%s: the receiver changed", where)
			}
			var want []int
			if st < en {
				want = append([]int(nil), model[st:en]...)
			}
			f, model = sub, want
		}
		if f.Len() != len(model) || !eq(f.Values, model) {
			i := 0
			for i < len(model) && i < len(f.Values) && f.Values[i] == model[i] {
				i++
			}
			return fmt.Errorf("%s: afterwards Len = %d (model %d), first difference at position %d", where, f.Len(), len(model), i)
		}
		if len(model) > 0 {
			i := (step*7919 + len(model)/2) % len(model)
			if v, ok := f.Get(i); !ok || v != model[i] {
				return fmt.Errorf("%s: afterwards Get(%d) = %d,%v want %d", where, i, v, ok, model[i])
			}
		}
	}
	r.NonTrivialIf(c.Len >= 256)
	return nil
}

func init() {
	pb.Register("flexslice_large", pb.Options{Base: 3000, Required: []string{"Prepend that must reallocate on a capacity >= 256", "Prepend on a capacity >= 256 that needs more than 1.25 times the capacity", "Prepend on a capacity >= 256 that needs more than twice the capacity", "Prepend within a spare capacity >= 256", "a capacity >= 1024 shrank"},
		Rule: "a FlexSlice of 0..65537 elements with spare capacity 0..1000 (built by Append calls or handed a slice), then 1..6 bulk steps sized relative to the capacity / length (0, 1, 1/8, 1/4, 1/3, 1/2, 3/4, 1, 1.25, 2, 3 times, +-2): Append, Prepend, n Pops, n Shifts, Remove at a position, SubSlice and continuing on it; oracle: slice model (every returned value, Len and whole content after every step, a Get, argument slices unchanged); non-trivial = initial length >= 256"},
		genFlexLarge, runFlexLarge)
}
