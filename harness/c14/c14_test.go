// C14 — slicez set operations, in-place variants and FlexSlice match their definitions.
package c14

import (
	"errors"
	"fmt"
	"sort"
	"strings"
	"testing"

	"github.com/welllog/golib/slicez"
	"pgregory.net/rapid"

	"verif/harness/internal/g"
	"verif/harness/internal/pb"
)

func TestMain(m *testing.M)   { pb.Main(m) }
func TestProps(t *testing.T)  { pb.RunProps(t) }
func TestReplay(t *testing.T) { pb.RunReplay(t) }

type setCase struct {
	Fn     string
	S1, S2 []int
	Nil1   bool  // S1 is a nil slice when empty
	Dst    int   // 0 nil, 1 fresh with capacity, 2 s1[:0], 3 s2[:0], 4 fresh non-empty (content must be discarded)
	Table  []int // predicate / key table indexed by value 0..5
	A, B   int
	V      int
}

var setFns = []string{"diff", "intersect", "unique", "uniquebykey", "filter", "diffinplace", "intersectinplace", "uniqueinplace", "uniquebykeyinplace", "filterinplace",
	"chunk", "chunkprocess", "subslice", "copy", "remove", "index", "equal", "values"}

func genSet(t *rapid.T) setCase {
	sl := func(label string) []int {
		n := rapid.OneOf(rapid.IntRange(0, 3), rapid.IntRange(0, 10), rapid.IntRange(0, 10), rapid.IntRange(0, 70)).Draw(t, label+"n")
		return rapid.SliceOfN(rapid.IntRange(0, 5), n, n).Draw(t, label)
	}
	c := setCase{Fn: rapid.SampledFrom(setFns).Draw(t, "fn"), S1: sl("s1"), S2: sl("s2"), Nil1: rapid.Bool().Draw(t, "nil1"), Dst: rapid.IntRange(0, 4).Draw(t, "dst"),
		Table: rapid.SliceOfN(rapid.IntRange(0, 2), 6, 6).Draw(t, "table"), V: rapid.IntRange(0, 6).Draw(t, "v")}
	// related operands: one slice a prefix, a suffix, the reverse or a rotation of the other (equal contents in
	// other memory), or the other with one element changed
	switch rel := rapid.IntRange(0, 15).Draw(t, "related"); {
	case rel == 0 && len(c.S1) > 0:
		c.S2 = append([]int(nil), c.S1[:rapid.IntRange(0, len(c.S1)).Draw(t, "prefix")]...)
	case rel == 1 && len(c.S1) > 0:
		c.S2 = append([]int(nil), c.S1[rapid.IntRange(0, len(c.S1)).Draw(t, "suffix"):]...)
	case rel == 2 && len(c.S2) > 0:
		c.S1 = append([]int(nil), c.S2[:rapid.IntRange(0, len(c.S2)).Draw(t, "prefix1")]...)
	case rel == 3:
		c.S2 = nil
		for i := len(c.S1) - 1; i >= 0; i-- {
			c.S2 = append(c.S2, c.S1[i])
		}
	case rel == 4 && len(c.S1) > 1:
		k := rapid.IntRange(1, len(c.S1)-1).Draw(t, "rot")
		c.S2 = append(append([]int(nil), c.S1[k:]...), c.S1[:k]...)
	case rel == 5 && len(c.S1) > 0:
		c.S2 = append([]int(nil), c.S1...)
		c.S2[rapid.IntRange(0, len(c.S2)-1).Draw(t, "changed")] = rapid.IntRange(0, 6).Draw(t, "to")
	}
	n := len(c.S1)
	arg := rapid.OneOf(rapid.IntRange(-3, n+3), rapid.IntRange(-3, n+3), rapid.SampledFrom(append(g.FitInt([]int64{-1 << 62, 1 << 62}), -1, 0, n)), g.ExtremeInt())
	c.A, c.B = arg.Draw(t, "a"), arg.Draw(t, "b")
	return c
}

func multiset(s []int) string {
	c := append([]int(nil), s...)
	sort.Ints(c)
	return fmt.Sprint(c)
}

func eq(a, b []int) bool {
	if len(a) != len(b) {
		return false
	}
	for i := range a {
		if a[i] != b[i] {
			return false
		}
	}
	return true
}

func runSet(c setCase, r *pb.Rec) error {
	if len(c.Table) != 6 {
		return nil
	}
	for _, v := range append(append([]int(nil), c.S1...), c.S2...) {
		if v < 0 || v > 5 {
			return nil
		}
	}
	orig1, orig2 := append([]int(nil), c.S1...), append([]int(nil), c.S2...)
	s1, s2 := append(make([]int, 0, len(c.S1)+2), c.S1...), append(make([]int, 0, len(c.S2)+2), c.S2...)
	if c.Nil1 && len(s1) == 0 {
		s1 = nil
	}
	in2 := map[int]bool{}
	for _, v := range orig2 {
		in2[v] = true
	}
	pred := func(v int) bool { return c.Table[v] != 0 }
	key := func(v int) int { return c.Table[v] }
	var dst []int
	aliasInput := false
	switch c.Dst {
	case 1:
		dst = make([]int, 0, 16)
	case 2:
		dst = s1[:0]
		aliasInput = true
	case 3:
		dst = s2[:0]
		aliasInput = len(c.S2) > 0
	case 4:
		dst = []int{9, 9, 9}
	}
	dup := len(orig1) != len(uniq(orig1))
	fail := func(f string, a ...any) error {
		return fmt.Errorf("%s(s1=%v, s2=%v, dst layout %d, a=%d b=%d v=%d table=%v): %s", c.Fn, orig1, orig2, c.Dst, c.A, c.B, c.V, c.Table, fmt.Sprintf(f, a...))
	}
	selected := func(keep func(int) bool) []int {
		var out []int
		for _, v := range orig1 {
			if keep(v) {
				out = append(out, v)
			}
		}
		return out
	}
	isUnique := func(byKey bool) []int {
		seen := map[int]bool{}
		var out []int
		for _, v := range orig1 {
			k := v
			if byKey {
				k = key(v)
			}
			if !seen[k] {
				seen[k] = true
				out = append(out, v)
			}
		}
		return out
	}
	switch c.Fn {
	case "diff":
		got := slicez.Diff(dst, s1, s2)
		if want := selected(func(v int) bool { return !in2[v] }); !eq(got, want) {
			return fail("= %v want %v", got, want)
		}
	case "intersect":
		got := slicez.Intersect(dst, s1, s2)
		if want := selected(func(v int) bool { return in2[v] }); !eq(got, want) {
			return fail("= %v want %v", got, want)
		}
	case "unique":
		if c.Dst == 3 {
			dst = nil
		}
		got := slicez.Unique(dst, s1)
		if want := isUnique(false); !eq(got, want) {
			return fail("= %v want %v", got, want)
		}
	case "uniquebykey":
		if c.Dst == 3 {
			dst = nil
		}
		got := slicez.UniqueByKey(dst, s1, key)
		if want := isUnique(true); !eq(got, want) {
			return fail("= %v want %v", got, want)
		}
	case "filter":
		if c.Dst == 3 {
			dst = nil
		}
		got := slicez.Filter(dst, s1, pred)
		if want := selected(pred); !eq(got, want) {
			return fail("= %v want %v", got, want)
		}
	case "diffinplace", "intersectinplace", "uniqueinplace", "uniquebykeyinplace", "filterinplace":
		var got, want []int
		switch c.Fn {
		case "diffinplace":
			got, want = slicez.DiffInPlaceFirst(s1, s2), selected(func(v int) bool { return !in2[v] })
		case "intersectinplace":
			got, want = slicez.IntersectInPlaceFirst(s1, s2), selected(func(v int) bool { return in2[v] })
		case "uniqueinplace":
			got, want = slicez.UniqueInPlace(s1), isUnique(false)
		case "uniquebykeyinplace":
			got, want = slicez.UniqueByKeyInPlace(s1, key), isUnique(true)
			// which representative of a key class survives is not specified for the in-place form: compare keys
			gk, wk := make([]int, len(got)), make([]int, len(want))
			for i, v := range got {
				gk[i] = key(v)
			}
			for i, v := range want {
				wk[i] = key(v)
			}
			if multiset(gk) != multiset(wk) {
				return fail("keys %v want %v", gk, wk)
			}
			want = got
		case "filterinplace":
			got, want = slicez.FilterInPlace(s1, pred), selected(pred)
		}
		if multiset(got) != multiset(want) {
			return fail("= %v, want the multiset %v", got, want)
		}
		if multiset(s1) != multiset(orig1) {
			return fail("argument slice is now %v: not a permutation of %v", s1, orig1)
		}
		if !eq(s2, orig2) {
			return fail("second slice modified: %v", s2)
		}
		aliasInput = false
		r.Class("in-place variant")
	case "chunk":
		size := c.A
		chunks := slicez.Chunk(s1, size)
		var cat []int
		for i, ch := range chunks {
			cat = append(cat, ch...)
			if size >= 1 && (len(ch) > size || len(ch) == 0 || (i < len(chunks)-1 && len(ch) != size)) {
				return fail("chunk %d has %d elements", i, len(ch))
			}
		}
		if !eq(cat, orig1) {
			return fail("concatenation %v != input", cat)
		}
		r.ClassIf(size >= 1 && len(orig1)%size != 0 && len(orig1) > size, "short last chunk")
	case "chunkprocess":
		size := c.A
		var cat []int
		calls := 0
		failAt := -1
		if c.V < 4 {
			failAt = c.V
		}
		boom := errors.New("boom")
		err := slicez.ChunkProcess(s1, size, func(ch []int) error {
			if calls == failAt {
				calls++
				return boom
			}
			calls++
			if size >= 1 && (len(ch) > size || len(ch) == 0) {
				return fmt.Errorf("piece of %d elements", len(ch))
			}
			cat = append(cat, ch...)
			return nil
		})
		if err != nil && err != boom {
			return fail("%v", err)
		}
		if err == boom {
			if calls != failAt+1 {
				return fail("process called again after returning an error (%d calls, failed at %d)", calls, failAt)
			}
			if !eq(cat, orig1[:len(cat)]) {
				return fail("pieces before the error %v are not a prefix of the input", cat)
			}
			r.Class("process error propagated")
		} else {
			if !eq(cat, orig1) {
				return fail("concatenation %v != input (error %v)", cat, err)
			}
			if failAt >= 0 && failAt < calls {
				return fail("error of call %d swallowed", failAt)
			}
		}
	case "subslice":
		got := slicez.SubSlice(s1, c.A, c.B)
		st, en := c.A, c.B
		var want []int
		if st <= len(orig1) {
			if st < 0 {
				st = 0
			}
			if en < 0 || en > len(orig1) {
				en = len(orig1)
			}
			if st < en {
				want = orig1[st:en]
			}
		}
		if !eq(got, want) {
			return fail("= %v want %v", got, want)
		}
	case "copy":
		got := slicez.Copy(s1, c.A, c.B)
		st, ln := c.A, c.B
		var want []int
		if len(orig1) != 0 && st < len(orig1) && ln != 0 {
			if st < 0 {
				st = 0
			}
			if ln < 0 || ln > len(orig1)-st {
				ln = len(orig1) - st
			}
			want = orig1[st : st+ln]
		}
		if !eq(got, want) {
			return fail("= %v want %v", got, want)
		}
		for i := range got {
			got[i] = -7
		}
		if !eq(s1, orig1) {
			return fail("result shares memory with the input")
		}
		r.Class("fresh memory checked")
	case "remove":
		got, v, ok := slicez.Remove(s1, c.A)
		valid := c.A >= 0 && c.A < len(orig1)
		if ok != valid {
			return fail("ok=%v", ok)
		}
		if valid {
			want := append(append([]int(nil), orig1[:c.A]...), orig1[c.A+1:]...)
			if !eq(got, want) || v != orig1[c.A] {
				return fail("= %v,%d want %v,%d", got, v, want, orig1[c.A])
			}
		} else if !eq(got, orig1) || v != 0 {
			return fail("out of range: = %v,%d", got, v)
		}
		aliasInput = false
		s1 = append(s1[:0:0], orig1...)
	case "index":
		wi := -1
		for i, x := range orig1 {
			if x == c.V {
				wi = i
				break
			}
		}
		if g := slicez.Index(s1, c.V); g != wi {
			return fail("Index = %d want %d", g, wi)
		}
		if g := slicez.Contains(s1, c.V); g != (wi >= 0) {
			return fail("Contains = %v", g)
		}
		wf := -1
		for i, x := range orig1 {
			if pred(x) {
				wf = i
				break
			}
		}
		if g := slicez.IndexFunc(s1, pred); g != wf {
			return fail("IndexFunc = %d want %d", g, wf)
		}
		if g := slicez.ContainsFunc(s1, pred); g != (wf >= 0) {
			return fail("ContainsFunc = %v", g)
		}
	case "equal":
		want := eq(orig1, orig2)
		if g := slicez.Equal(s1, s2); g != want {
			return fail("Equal = %v want %v", g, want)
		}
		if !slicez.Equal(s1, append([]int(nil), orig1...)) {
			return fail("Equal(s, copy of s) = false")
		}
		r.ClassIf(want, "equal slices")
	case "values":
		got := slicez.Values(func(v int) int { return v * 10 }, s1, s2, s1)
		var want []int
		for _, s := range [][]int{orig1, orig2, orig1} {
			for _, v := range s {
				want = append(want, v*10)
			}
		}
		if !eq(got, want) {
			return fail("= %v want %v", got, want)
		}
		for i := range got {
			got[i] = -7
		}
		if !eq(s1, orig1) || !eq(s2, orig2) {
			return fail("result shares memory with an input")
		}
	}
	if !aliasInput {
		if (!strings.HasSuffix(c.Fn, "inplace") && !eq(s1, orig1)) || !eq(s2, orig2) {
			return fail("an input slice was modified: s1=%v s2=%v", s1, s2)
		}
	}
	r.ClassIf(aliasInput && dup, "dst aliases an input with duplicates present")
	r.ClassIf(c.Nil1 && len(orig1) == 0, "nil slice")
	r.ClassIf(len(orig1) > 32 || len(orig2) > 32, "slice longer than 32")
	r.ClassIf(c.A < 0 || c.A > len(orig1), "argument out of range")
	r.NonTrivialIf(dup && len(orig1) >= 3)
	return nil
}

func uniq(s []int) []int {
	seen := map[int]bool{}
	var out []int
	for _, v := range s {
		if !seen[v] {
			seen[v] = true
			out = append(out, v)
		}
	}
	return out
}

// ---------------------------------------------------------------- large inputs: size thresholds, skewed sizes, wide value ranges

type bigCase struct {
	Fn        string
	N1, N2    int // lengths
	V         int // values 0..V-1
	Seed      uint64
	Dst       int // 0 nil, 1 fresh, 2 s1[:0], 3 s2[:0]
	Mod       int // predicate: v%Mod == 0; key: v%Mod
	DupStride int // every DupStride-th element of s1 repeats an earlier one
}

var bigFns = []string{"diff", "intersect", "unique", "uniquebykey", "filter", "diffinplace", "intersectinplace", "uniqueinplace", "uniquebykeyinplace", "filterinplace", "chunk"}

func genBig(t *rapid.T) bigCase {
	size := rapid.OneOf(rapid.IntRange(0, 40), rapid.IntRange(100, 700), rapid.SampledFrom([]int{127, 128, 129, 255, 256, 257, 1023, 1024, 1025, 4095, 4096, 4097}), rapid.IntRange(1000, 9000))
	return bigCase{Fn: rapid.SampledFrom(bigFns).Draw(t, "fn"), N1: size.Draw(t, "n1"), N2: size.Draw(t, "n2"),
		V: rapid.SampledFrom([]int{3, 50, 300, 5000, 100000}).Draw(t, "values"), Seed: rapid.Uint64().Draw(t, "seed"), Dst: rapid.IntRange(0, 3).Draw(t, "dst"),
		Mod: rapid.IntRange(1, 9).Draw(t, "mod"), DupStride: rapid.IntRange(1, 7).Draw(t, "dupStride")}
}

func runBig(c bigCase, r *pb.Rec) error {
	if c.N1 < 0 || c.N2 < 0 || c.N1 > 20000 || c.N2 > 20000 || c.V < 1 || c.Mod < 1 || c.DupStride < 1 {
		return nil
	}
	st := c.Seed | 1
	next := func() int {
		st ^= st << 13
		st ^= st >> 7
		st ^= st << 17
		return int(st % uint64(c.V))
	}
	orig1, orig2 := make([]int, c.N1), make([]int, c.N2)
	for i := range orig1 {
		if i > 0 && i%c.DupStride == 0 {
			orig1[i] = orig1[int((st>>20)%uint64(i))] // a duplicate of an earlier element, wherever it is
			next()
		} else {
			orig1[i] = next()
		}
	}
	for i := range orig2 {
		if i%3 == 0 && c.N1 > 0 {
			orig2[i] = orig1[int((st>>24)%uint64(c.N1))] // shared with s1
			next()
		} else {
			orig2[i] = next()
		}
	}
	s1, s2 := append([]int(nil), orig1...), append([]int(nil), orig2...)
	in2 := make(map[int]bool, len(orig2))
	for _, v := range orig2 {
		in2[v] = true
	}
	pred := func(v int) bool { return v%c.Mod == 0 }
	key := func(v int) int { return v % c.Mod }
	var dst []int
	switch c.Dst {
	case 1:
		dst = make([]int, 0, 8)
	case 2:
		dst = s1[:0]
	case 3:
		dst = s2[:0]
	}
	fail := func(f string, a ...any) error {
		return fmt.Errorf("%s on generated slices (len(s1)=%d len(s2)=%d values<%d seed=%d dst layout %d mod %d dupStride %d): %s", c.Fn, c.N1, c.N2, c.V, c.Seed, c.Dst, c.Mod, c.DupStride, fmt.Sprintf(f, a...))
	}
	selected := func(keep func(int) bool) []int {
		var out []int
		for _, v := range orig1 {
			if keep(v) {
				out = append(out, v)
			}
		}
		return out
	}
	firstBy := func(k func(int) int) []int {
		seen := map[int]bool{}
		var out []int
		for _, v := range orig1 {
			if !seen[k(v)] {
				seen[k(v)] = true
				out = append(out, v)
			}
		}
		return out
	}
	diffAt := func(got, want []int) string {
		if len(got) != len(want) {
			return fmt.Sprintf("%d elements, want %d", len(got), len(want))
		}
		for i := range got {
			if got[i] != want[i] {
				return fmt.Sprintf("element %d = %d, want %d", i, got[i], want[i])
			}
		}
		return ""
	}
	perm := func() error {
		if multiset(s1) != multiset(orig1) {
			return fail("the argument slice is no longer a permutation of its original content")
		}
		return nil
	}
	id := func(v int) int { return v }
	switch c.Fn {
	case "diff":
		if d := diffAt(slicez.Diff(dst, s1, s2), selected(func(v int) bool { return !in2[v] })); d != "" {
			return fail("%s", d)
		}
	case "intersect":
		if d := diffAt(slicez.Intersect(dst, s1, s2), selected(func(v int) bool { return in2[v] })); d != "" {
			return fail("%s", d)
		}
	case "unique":
		if c.Dst == 3 {
			dst = nil
		}
		if d := diffAt(slicez.Unique(dst, s1), firstBy(id)); d != "" {
			return fail("%s", d)
		}
	case "uniquebykey":
		if c.Dst == 3 {
			dst = nil
		}
		if d := diffAt(slicez.UniqueByKey(dst, s1, key), firstBy(key)); d != "" {
			return fail("%s", d)
		}
	case "filter":
		if c.Dst == 3 {
			dst = nil
		}
		if d := diffAt(slicez.Filter(dst, s1, pred), selected(pred)); d != "" {
			return fail("%s", d)
		}
	case "diffinplace":
		got := slicez.DiffInPlaceFirst(s1, s2)
		if multiset(got) != multiset(selected(func(v int) bool { return !in2[v] })) {
			return fail("wrong multiset (%d elements)", len(got))
		}
		if err := perm(); err != nil {
			return err
		}
	case "intersectinplace":
		got := slicez.IntersectInPlaceFirst(s1, s2)
		if multiset(got) != multiset(selected(func(v int) bool { return in2[v] })) {
			return fail("wrong multiset (%d elements)", len(got))
		}
		if err := perm(); err != nil {
			return err
		}
	case "uniqueinplace":
		got := slicez.UniqueInPlace(s1)
		if multiset(got) != multiset(firstBy(id)) {
			return fail("wrong multiset (%d elements)", len(got))
		}
		if err := perm(); err != nil {
			return err
		}
	case "uniquebykeyinplace":
		got := slicez.UniqueByKeyInPlace(s1, key)
		ks := map[int]bool{}
		for _, v := range got {
			if ks[key(v)] {
				return fail("two results with key %d", key(v))
			}
			ks[key(v)] = true
		}
		if len(got) != len(firstBy(key)) {
			return fail("%d results, want %d", len(got), len(firstBy(key)))
		}
		if err := perm(); err != nil {
			return err
		}
	case "filterinplace":
		got := slicez.FilterInPlace(s1, pred)
		if multiset(got) != multiset(selected(pred)) {
			return fail("wrong multiset (%d elements)", len(got))
		}
		if err := perm(); err != nil {
			return err
		}
	case "chunk":
		size := c.Mod * c.DupStride * (1 + c.N2%40)
		var cat []int
		chunks := slicez.Chunk(s1, size)
		for i, ch := range chunks {
			if len(ch) != size && !(i == len(chunks)-1 && len(ch) > 0 && len(ch) < size) {
				return fail("chunk %d of %d has %d elements (size %d)", i, len(chunks), len(ch), size)
			}
			cat = append(cat, ch...)
		}
		if d := diffAt(cat, orig1); d != "" {
			return fail("concatenation of the chunks: %s", d)
		}
	default:
		return nil
	}
	if c.Dst != 3 && !eq(s2, orig2) && c.Fn != "chunk" {
		return fail("the second slice was modified")
	}
	small, large := c.N1, c.N2
	if small > large {
		small, large = large, small
	}
	r.ClassIf(large >= 1024, "an input of >= 1024 elements")
	r.ClassIf(large >= 1024 && small*8 <= large, "one input at least 8 times longer than the other")
	r.ClassIf(c.V >= 5000, "values up to 5000 or more")
	r.NonTrivialIf(large >= 256)
	return nil
}

// ---------------------------------------------------------------- FlexSlice

type fop struct {
	K    int
	N    int
	A, B int
}

const (
	fAppend = iota
	fPrepend
	fGet
	fRemove
	fPop
	fShift
	fSubSlice
	fSubSliceAdopt
	nF
)

type flexCase struct{ Ops []fop }

func genFlex(t *rapid.T) flexCase {
	kinds := []int{fAppend, fAppend, fPrepend, fPrepend, fPrepend, fGet, fRemove, fPop, fShift, fShift, fSubSlice, fSubSliceAdopt}
	var c flexCase
	n := rapid.IntRange(1, 40).Draw(t, "nops")
	for i := 0; i < n; i++ {
		o := fop{K: rapid.SampledFrom(kinds).Draw(t, "op"), A: rapid.IntRange(-2, 45).Draw(t, "a"), B: rapid.IntRange(-2, 45).Draw(t, "b")}
		switch o.K {
		case fAppend, fPrepend:
			o.N = rapid.OneOf(rapid.IntRange(0, 3), rapid.IntRange(0, 40)).Draw(t, "k")
		case fShift, fPop:
			o.N = rapid.OneOf(rapid.IntRange(1, 3), rapid.IntRange(1, 40)).Draw(t, "times")
		}
		c.Ops = append(c.Ops, o)
	}
	return c
}

func runFlex(c flexCase, r *pb.Rec) error {
	var f slicez.FlexSlice[int]
	var model []int
	next := 0
	shrunk := false
	for step, o := range c.Ops {
		where := fmt.Sprintf("step %d op %d (n=%d a=%d b=%d)", step, o.K, o.N, o.A, o.B)
		capBefore := cap(f.Values)
		switch o.K {
		case fAppend, fPrepend:
			vs := make([]int, o.N)
			for i := range vs {
				next++
				vs[i] = next
			}
			keep := append([]int(nil), vs...)
			if o.K == fAppend {
				f.Append(vs...)
				model = append(model, keep...)
			} else {
				inCap := cap(f.Values) >= len(f.Values)+len(vs)
				f.Prepend(vs...)
				model = append(append([]int(nil), keep...), model...)
				r.ClassIf(inCap && o.N > 0 && len(model) > o.N, "prepend within capacity")
				r.ClassIf(!inCap, "prepend reallocating")
				r.ClassIf(!inCap && shrunk, "prepend reallocating after a shrink")
				r.ClassIf(inCap && shrunk && o.N > 0, "prepend within capacity after a shrink")
			}
			if !eq(vs, keep) {
				return fmt.Errorf("%s: argument slice modified", where)
			}
			for i := range vs {
				vs[i] = -99 - i // the caller goes on using its own slice: the FlexSlice holds values, not this memory
			}
		case fGet:
			v, ok := f.Get(o.A)
			in := o.A >= 0 && o.A < len(model)
			if ok != in || (in && v != model[o.A]) {
				return fmt.Errorf("%s: Get = %d,%v model %v", where, v, ok, model)
			}
		case fRemove:
			v, ok := f.Remove(o.A)
			in := o.A >= 0 && o.A < len(model)
			if ok != in || (in && v != model[o.A]) {
				return fmt.Errorf("%s: Remove = %d,%v model %v", where, v, ok, model)
			}
			if in {
				model = append(model[:o.A:o.A], model[o.A+1:]...)
			}
		case fPop, fShift:
			for i := 0; i < o.N; i++ {
				var v int
				var ok bool
				if o.K == fPop {
					v, ok = f.Pop()
				} else {
					v, ok = f.Shift()
				}
				if ok != (len(model) > 0) {
					return fmt.Errorf("%s: ok=%v with %d elements", where, ok, len(model))
				}
				if !ok {
					break
				}
				want := model[0]
				if o.K == fPop {
					want = model[len(model)-1]
					model = model[:len(model)-1]
				} else {
					model = model[1:]
				}
				if v != want {
					return fmt.Errorf("%s: returned %d want %d", where, v, want)
				}
				if !eq(f.Values, model) {
					return fmt.Errorf("%s: content %v, model %v", where, f.Values, model)
				}
			}
		case fSubSlice, fSubSliceAdopt:
			sub := f.SubSlice(o.A, o.B)
			st, en := o.A, o.B
			var want []int
			if st <= len(model) {
				if st < 0 {
					st = 0
				}
				if en < 0 || en > len(model) {
					en = len(model)
				}
				if st < en {
					want = append([]int(nil), model[st:en]...)
				}
			}
			if !eq(sub.Values, want) || sub.Len() != len(want) {
				return fmt.Errorf("%s: SubSlice = %v want %v", where, sub.Values, want)
			}
			if !eq(f.Values, model) {
				return fmt.Errorf("%s: SubSlice modified the receiver: %v, model %v", where, f.Values, model)
			}
			if o.K == fSubSliceAdopt {
				f, model = sub, want
				r.Class("continued on a sub-slice")
			}
		}
		if cap(f.Values) < capBefore && capBefore > 8 {
			shrunk = true
			r.Class("capacity shrank")
		}
		if f.Len() != len(model) || !eq(f.Values, model) {
			return fmt.Errorf("%s: content %v (len %d), model %v", where, f.Values, f.Len(), model)
		}
		for i := range model {
			if v, ok := f.Get(i); !ok || v != model[i] {
				return fmt.Errorf("%s: Get(%d) = %d,%v want %d", where, i, v, ok, model[i])
			}
		}
	}
	r.NonTrivialIf(shrunk)
	return nil
}

func init() {
	pb.Register("slice_functions", pb.Options{Twins: 3, Base: 40000, Required: []string{"slice longer than 32", "dst aliases an input with duplicates present", "in-place variant", "nil slice", "argument out of range", "short last chunk", "process error propagated", "fresh memory checked"},
		Rule: "slices over 0..5 (duplicates common, empty, nil), dst in {nil, fresh, s1[:0], s2[:0], non-empty fresh}, predicates/keys from drawn tables, index/length/chunk arguments -3..len+3 and +-2^62; oracle: the definitions written directly (first-slice order, first occurrence, multiset + permutation for InPlace, concatenation and piece sizes, clamping tables, fresh memory); non-trivial = first slice has duplicates and >= 3 elements"},
		genSet, runSet)
	pb.Register("slice_functions_large", pb.Options{Base: 1500, Required: []string{"an input of >= 1024 elements", "one input at least 8 times longer than the other", "values up to 5000 or more"},
		Rule: "Diff/Intersect/Unique/UniqueByKey/Filter, their InPlace variants and Chunk on generated slices of 0..9000 elements (lengths around 128/256/1024/4096 sampled, the two inputs of independent size so that skewed pairs are common), values below 3..100000, every DupStride-th element of s1 a duplicate of an earlier one, a third of s2 shared with s1, dst in {nil, fresh, s1[:0], s2[:0]}; oracle: the definitions (order-sensitive for the copying forms, multiset + permutation for the in-place forms); non-trivial = an input of >= 256 elements"},
		genBig, runBig)
	pb.Register("flexslice", pb.Options{Twins: 3, Base: 15000, Required: []string{"capacity shrank", "prepend within capacity", "prepend reallocating", "prepend reallocating after a shrink", "prepend within capacity after a shrink", "continued on a sub-slice"},
		Rule: "<= 40 operations Append(k)/Prepend(k)/Get/Remove/Pop xN/Shift xN/SubSlice (and continuing on the sub-slice) with k up to 40 so that growth and the shrink threshold (cap > 8, len <= cap/4) are crossed; oracle: slice model after every step; non-trivial = the capacity shrank at least once"},
		genFlex, runFlex)
}
