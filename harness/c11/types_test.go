//go:build !sched

package c11

// SyncList is generic over any element type: a stored nil (interface, pointer, func) or a zero-size value is an
// element like any other. Sequential check, run with the raced jobs.

import (
	"encoding/json"
	"errors"
	"fmt"
	"testing"
	"time"

	"github.com/welllog/golib/listz"
	"pgregory.net/rapid"

	"verif/harness/internal/pb"
)

type typesCase struct {
	Type int
	Seq  []int // code 0..3 pushes that value, -1 Pop, -2 PopWait(0), -3 PopWait(-1) (only when an element is held)
}

func listFifo[T any](c typesCase, name string, vals [4]T, same func(a, b T) bool) error {
	l := listz.NewSync[T]()
	var model []int
	for step, code := range c.Seq {
		where := fmt.Sprintf("SyncList of %s, step %d", name, step)
		if code >= 0 {
			l.Push(vals[code])
			model = append(model, code)
		} else {
			var v T
			var ok bool
			switch {
			case code == -1:
				v, ok = l.Pop()
			case code == -2 || len(model) == 0:
				v, ok = l.PopWait(0)
			default:
				done := make(chan struct{})
				go func() { v, ok = l.PopWait(-1); close(done) }()
				select {
				case <-done:
				case <-time.After(20 * time.Second):
					return fmt.Errorf("%s: PopWait(-1) does not return although %d elements are held (a stored nil / zero value is still an element)", where, len(model))
				}
			}
			if ok != (len(model) > 0) {
				return fmt.Errorf("%s: pop = _,%v with %d elements held (a stored nil / zero value is still an element)", where, ok, len(model))
			}
			if ok {
				if !same(v, vals[model[0]]) {
					return fmt.Errorf("%s: pop returned %v, want value #%d (%v)", where, any(v), model[0], any(vals[model[0]]))
				}
				model = model[1:]
			}
		}
		if l.Len() != len(model) {
			return fmt.Errorf("%s: Len = %d, %d elements held", where, l.Len(), len(model))
		}
	}
	return nil
}

type bigElem struct {
	A [40]int
	S string
}

func runTypes(c typesCase) error {
	one, two := 1, 2
	e1 := errors.New("e1")
	switch c.Type {
	case 0:
		return listFifo(c, "any", [4]any{nil, 1, "x", nil}, func(a, b any) bool { return a == b })
	case 1:
		return listFifo(c, "error", [4]error{nil, e1, nil, errors.New("e2")}, func(a, b error) bool { return a == b })
	case 2:
		return listFifo(c, "*int", [4]*int{nil, &one, &two, nil}, func(a, b *int) bool { return a == b })
	case 3:
		return listFifo(c, "struct{}", [4]struct{}{}, func(a, b struct{}) bool { return true })
	case 4:
		return listFifo(c, "a 328-byte struct", [4]bigElem{{}, {A: [40]int{1}, S: "a"}, {A: [40]int{39: 9}}, {S: "zz"}}, func(a, b bigElem) bool { return a == b })
	case 5:
		return listFifo(c, "string", [4]string{"", "a", "\x00", "aa"}, func(a, b string) bool { return a == b })
	case 6:
		f := func() {}
		return listFifo(c, "func()", [4]func(){nil, f, nil, f}, func(a, b func()) bool { return (a == nil) == (b == nil) })
	}
	return nil
}

func TestElementTypes(t *testing.T) {
	st := pb.Stats("synclist_element_types")
	st.SetRule("SyncList instantiated with any, error (both holding nil values), *int, struct{}, a 328-byte struct, string and func(): <= 24 Push/Pop/PopWait(0)/PopWait(-1) calls with four fixed values per type from one goroutine against a slice model (Pop the oldest value including stored nils, Len); non-trivial = interface or zero-size element type")
	st.Require("interface elements holding nil", "zero-size elements")
	gen := rapid.Custom(func(t *rapid.T) typesCase {
		return typesCase{Type: rapid.IntRange(0, 6).Draw(t, "type"), Seq: rapid.SliceOfN(rapid.IntRange(-3, 3), 1, 24).Draw(t, "seq")}
	})
	n := pb.Scaled(1500)
	for i := 0; i < n; i++ {
		c := gen.Example(int(pb.Seed("types")%1000003) + i)
		js, _ := json.Marshal(c)
		if err := runTypes(c); err != nil {
			st.Violation("element-types", js, err)
			t.Fatalf("%s: %v", js, err)
		}
		rec := &pb.Rec{}
		rec.ClassIf(c.Type <= 1, "interface elements holding nil")
		rec.ClassIf(c.Type == 3, "zero-size elements")
		rec.NonTrivialIf(c.Type <= 1 || c.Type == 3)
		st.Case(js, rec)
	}
}

func init() {
	pb.RegisterReplay("synclist_element_types", func(raw json.RawMessage) error {
		var c typesCase
		if err := json.Unmarshal(raw, &c); err != nil {
			return fmt.Errorf("BADREPLAY: %v", err)
		}
		return runTypes(c)
	})
}
