//go:build sched

package c11

import (
	"encoding/json"
	"fmt"
	"os"
	"testing"

	"pgregory.net/rapid"

	"verif/harness/internal/conc"
	"verif/harness/internal/lin"
	"verif/harness/internal/pb"
)

func TestProps(t *testing.T) { pb.RunProps(t) }

const maxSteps = 4000

func genSched(t *rapid.T) listCase {
	c := genProgram(t, 4, 4, true)
	c.Slots = conc.GenSlots(t, len(c.Threads), 14)
	return c
}

// execute runs the case under its schedule (Slots, or the explicit Trace) and checks every oracle.
func execute(c listCase, r *pb.Rec) (conc.Result, error) {
	l, initial := newList(c)
	rec := &recorder{}
	var bodies []func()
	for i, th := range c.Threads {
		i, th := i, th
		bodies = append(bodies, func() { execThread(l, i, th, rec) })
	}
	var res conc.Result
	if c.Trace != nil {
		res = conc.RunTrace(bodies, c.Trace, maxSteps)
	} else {
		res = conc.RunSlots(bodies, c.Slots, maxSteps)
	}
	if res.Budget {
		r.Class("INCONCLUSIVE: step budget exhausted")
		if os.Getenv("VERIF_BUDGET_FAIL") != "" {
			return res, fmt.Errorf("step budget exhausted\n%s", lin.Format(rec.ops))
		}
		return res, nil
	}
	if res.Err != nil {
		return res, fmt.Errorf("%v\nhistory so far:\n%s", res.Err, lin.Format(rec.ops))
	}
	if rec.probeOK != nil {
		return res, fmt.Errorf("%v\nhistory:\n%s", rec.probeOK, lin.Format(rec.ops))
	}
	probeThread := -1
	for i, th := range c.Threads {
		if len(th) == 1 && th[0].K == "probe" {
			probeThread = i
		}
	}
	r.ClassIf(probeThread >= 0 && probeInFlight(rec.ops, probeThread), "probe with in-flight push")
	if err := finish(l, c, initial, rec.ops, r); err != nil {
		return res, err
	}
	r.ClassIf(res.SwitchAfterOK > 0, "pusher/popper parked right after a successful CAS")
	r.ClassIf(res.Switches > 0, "pre-emption inside an operation")
	mut := func(o lin.Op) bool { return o.Kind == "push" || o.Kind == "pop" }
	r.NonTrivialIf(res.Switches > 0 && lin.Overlapping(rec.ops, mut))
	return res, nil
}

func runSched(c listCase, r *pb.Rec) error {
	if !sane(c) {
		return nil
	}
	_, err := execute(c, r)
	return err
}

// bounded-exhaustive tier: every schedule with <= P pre-emptions for small programs
func TestExhaustive(t *testing.T) {
	st := pb.Stats("synclist_exhaustive")
	st.SetExhaustive(true)
	preempt2, preempt3 := 2, 1
	if pb.Thorough() {
		preempt2, preempt3 = 3, 2
	}
	st.SetRule(fmt.Sprintf("all schedules (every atomic step a scheduling point, context switches at thread end/spin free) with <= %d pre-emptions for every pair of threads with <= 2 calls from {push,pop} (+ probe thread variants with <= %d), initial content 0..2; same oracles as the random tier; every (program, schedule) is distinct; non-trivial = at least one pre-emption", preempt2, preempt3))
	seqs := [][]string{{"push"}, {"pop"}, {"push", "push"}, {"push", "pop"}, {"pop", "push"}, {"pop", "pop"}, {"len"}, {"popwait0", "len"}}
	mk := func(ks []string, th int) []call {
		var out []call
		for j, k := range ks {
			out = append(out, call{K: k, V: 100*(th+1) + j})
		}
		return out
	}
	var cfgs []listCase
	for init := 0; init <= 2; init++ {
		for _, a := range seqs {
			for _, b := range seqs {
				cfgs = append(cfgs, listCase{Initial: init, Threads: [][]call{mk(a, 0), mk(b, 1)}})
			}
		}
	}
	n2 := len(cfgs)
	for init := 0; init <= 1; init++ {
		for _, a := range seqs[:6] {
			for _, b := range [][]string{{"push"}, {"pop"}} {
				cfgs = append(cfgs, listCase{Initial: init, Threads: [][]call{mk(a, 0), mk(b, 1), {{K: "probe"}}}})
			}
		}
	}
	key := uint64(0)
	for ci, cfg := range cfgs {
		cfg := cfg
		budget := preempt2
		if ci >= n2 {
			budget = preempt3
		}
		var last *pb.Rec
		execs, trace, err, complete := conc.Explore(func() ([]func(), func(conc.Result) error) {
			l, initial := newList(cfg)
			rec := &recorder{}
			var bodies []func()
			for i, th := range cfg.Threads {
				i, th := i, th
				bodies = append(bodies, func() { execThread(l, i, th, rec) })
			}
			return bodies, func(res conc.Result) error {
				r := &pb.Rec{}
				last = r
				key++
				defer func() {
					r.NonTrivialIf(res.Switches > 0)
					st.CaseKey(key, r, func() []byte {
						b, _ := json.Marshal(map[string]any{"program": cfg, "decisions": res.Trace})
						return b
					})
				}()
				if res.Budget {
					r.Class("INCONCLUSIVE: step budget exhausted")
					return nil
				}
				if res.Err != nil {
					return fmt.Errorf("%v\nhistory so far:\n%s", res.Err, lin.Format(rec.ops))
				}
				if rec.probeOK != nil {
					return fmt.Errorf("%v\nhistory:\n%s", rec.probeOK, lin.Format(rec.ops))
				}
				r.ClassIf(res.SwitchAfterOK > 0, "pusher/popper parked right after a successful CAS")
				return finish(l, cfg, initial, rec.ops, r)
			}
		}, budget, maxSteps, 0)
		_ = last
		if err != nil {
			bad := cfg
			bad.Trace = trace
			js, _ := json.Marshal(bad)
			st.Violation("exhaustive", js, err)
			t.Errorf("program %+v: %v", cfg, err)
			return
		}
		if !complete {
			st.SetExhaustive(false)
		}
		_ = execs
	}
	st.Note("%d programs enumerated completely", len(cfgs))
}

func init() {
	pb.Register("synclist_sched", pb.Options{Base: 6000,
		Required: []string{"pusher/popper parked right after a successful CAS", "probe with in-flight push", "pop overlapping pop", "false Pop without overlap (must be empty)", "pre-emption inside an operation"},
		Rule:     "the real SyncList code rebuilt with sync/atomic and runtime.Gosched redirected to a deterministic scheduler (every atomic operation is a scheduling point before and after); 2-4 threads x 1-4 calls from Push/Pop/PopWait(0)/PopWait(-1, only when guaranteed to finish)/Len, initial content 0..3, optional probe thread (Len then drain, executed atomically); schedule = drawn list of (thread, burst) then non-pre-emptive completion with spinning threads treated fairly; oracles: conservation, porcupine linearizability (failed pops excused only when overlapped), Len >= 0, Len >= poppable at the probe, exact Len at quiescence, no deadlock / no-progress; non-trivial = >= 2 overlapping mutating calls with a pre-emption inside an operation"},
		genSched, runSched)
	pb.RegisterReplay("synclist_exhaustive", func(raw json.RawMessage) error {
		var c listCase
		if err := json.Unmarshal(raw, &c); err != nil {
			return fmt.Errorf("BADREPLAY: %v", err)
		}
		return runSched(c, &pb.Rec{})
	})
}
