//go:build !sched

package c11

import (
	"encoding/json"
	"fmt"
	"os"
	"testing"
	"time"

	"pgregory.net/rapid"

	"verif/harness/internal/conc"
	"verif/harness/internal/lin"
	"verif/harness/internal/pb"
)

// runRaced executes the program on real goroutines (unshimmed code, race detector on).
func runRaced(c listCase, r *pb.Rec) error {
	if !sane(c) {
		return nil
	}
	l, initial := newList(c)
	recs := make([]*recorder, len(c.Threads))
	var bodies []func()
	for i, th := range c.Threads {
		i, th := i, th
		recs[i] = &recorder{}
		bodies = append(bodies, func() { execThread(l, i, th, recs[i]) })
	}
	if p := conc.RunRaced(bodies); len(p) > 0 {
		return fmt.Errorf("panic in a goroutine: %v", p[0])
	}
	var ops []lin.Op
	for _, rc := range recs {
		ops = append(ops, rc.ops...)
	}
	if err := finish(l, c, initial, ops, r); err != nil {
		return err
	}
	mut := func(o lin.Op) bool { return o.Kind == "push" || o.Kind == "pop" }
	r.NonTrivialIf(lin.Overlapping(ops, mut))
	return nil
}

func TestRaced(t *testing.T) {
	st := pb.Stats("synclist_raced")
	st.SetRule("generated programs (2-5 goroutines x 1-4 calls, no probe; the probe needs a frozen schedule) run on real goroutines released from a barrier, unshimmed code under the race detector (GORACE=halt_on_error=1; the program being run is saved before every execution so a report can be attributed); history recorded with an atomic logical clock and checked with the same conservation/linearizability/Len oracles; non-trivial = >= 2 mutating calls actually overlapped")
	gen := rapid.Custom(func(t *rapid.T) listCase { return genProgram(t, 5, 4, false) })
	n := pb.Scaled(1500)
	cur := os.Getenv("VERIF_CURRENT_CASE")
	for i := 0; i < n; i++ {
		c := gen.Example(int(pb.Seed("raced")%1000003) + i)
		js, _ := json.Marshal(c)
		if cur != "" {
			os.WriteFile(cur, wrapReplay("synclist_raced", js), 0o644)
		}
		rec := &pb.Rec{}
		reps := 1
		if i%10 == 0 {
			reps = 20 // the same program repeatedly: different real interleavings
		}
		for k := 0; k < reps; k++ {
			t0 := time.Now()
			err := runRaced(c, rec)
			if d := time.Since(t0); d > 500*time.Millisecond {
				st.Note("slow raced execution (%v): %s", d.Round(time.Millisecond), js)
			}
			if err != nil {
				st.Violation("raced", js, err)
				t.Fatalf("raced program %s: %v", js, err)
			}
		}
		st.Case(js, rec)
	}
}

func wrapReplay(prop string, js []byte) []byte {
	b, _ := json.Marshal(pb.ReplayFile{Property: os.Getenv("VERIF_PROPERTY"), Prop: prop, Kind: "race-detector", Mode: "race", Case: js, Error: "data race reported by the race detector while this program was running (report next to this file)"})
	return b
}

func init() {
	pb.RegisterReplay("synclist_raced", func(raw json.RawMessage) error {
		var c listCase
		if err := json.Unmarshal(raw, &c); err != nil {
			return fmt.Errorf("BADREPLAY: %v", err)
		}
		// schedule-dependent: re-run the program many times
		for i := 0; i < 400; i++ {
			if err := runRaced(c, &pb.Rec{}); err != nil {
				return err
			}
		}
		return nil
	})
}
