//go:build !sched

package c11

import (
	"encoding/json"
	"fmt"
	"os"
	"runtime"
	"sync/atomic"
	"testing"
	"time"

	"github.com/welllog/golib/listz"
	"pgregory.net/rapid"

	"verif/harness/internal/conc"
	"verif/harness/internal/lin"
	"verif/harness/internal/pb"
)

// runRaced executes the program on real goroutines (unshimmed code, race detector on).
func runRaced(c listCase, r *pb.Rec) error {
	if !sane(c) {
		return nil
	}
	l, initial := newList(c)
	recs := make([]*recorder, len(c.Threads))
	var bodies []func()
	for i, th := range c.Threads {
		i, th := i, th
		recs[i] = &recorder{}
		bodies = append(bodies, func() { execThread(l, i, th, recs[i]) })
	}
	if p := conc.RunRaced(bodies); len(p) > 0 {
		return fmt.Errorf("panic in a goroutine: %v", p[0])
	}
	var ops []lin.Op
	for _, rc := range recs {
		ops = append(ops, rc.ops...)
	}
	if err := finish(l, c, initial, ops, r); err != nil {
		return err
	}
	mut := func(o lin.Op) bool { return o.Kind == "push" || o.Kind == "pop" }
	r.NonTrivialIf(lin.Overlapping(ops, mut))
	return nil
}

func TestRaced(t *testing.T) {
	st := pb.Stats("synclist_raced")
	st.SetRule("generated programs (2-5 goroutines x 1-4 calls, no probe; the probe needs a frozen schedule; one program in twelve also uses PopWait(25ms) and delays of 1-34 ms that move pushes around its deadline) run on real goroutines released from a barrier, unshimmed code under the race detector (GORACE=halt_on_error=1; the program being run is saved before every execution so a report can be attributed); history recorded with an atomic logical clock and checked with the same conservation/linearizability/Len oracles; non-trivial = >= 2 mutating calls actually overlapped")
	gen := rapid.Custom(func(t *rapid.T) listCase {
		return genProgram(t, 5, 4, false, rapid.IntRange(0, 11).Draw(t, "timed") == 0)
	})
	n := pb.Scaled(1500)
	cur := os.Getenv("VERIF_CURRENT_CASE")
	for i := 0; i < n; i++ {
		c := gen.Example(int(pb.Seed("raced")%1000003) + i)
		js, _ := json.Marshal(c)
		restoreProcs, procsClass := pb.FlipProcs(js)
		if cur != "" {
			os.WriteFile(cur, wrapReplay("synclist_raced", js), 0o644)
		}
		rec := &pb.Rec{}
		reps := 1
		timedProg := false
		for _, th := range c.Threads {
			for _, cl := range th {
				timedProg = timedProg || cl.K == "popwaitT" || cl.K == "sleep"
			}
		}
		if i%10 == 0 && !timedProg {
			reps = 20 // the same program repeatedly: different real interleavings
		}
		rec.ClassIf(timedProg, "timed PopWait / delayed pushes")
		for k := 0; k < reps; k++ {
			t0 := time.Now()
			err := runRaced(c, rec)
			if d := time.Since(t0); d > 500*time.Millisecond {
				st.Note("slow raced execution (%v): %s", d.Round(time.Millisecond), js)
			}
			if err != nil {
				st.Violation("raced", js, err)
				t.Fatalf("raced program %s: %v", js, err)
			}
		}
		restoreProcs()
		rec.ClassIf(procsClass != "", procsClass)
		st.Case(js, rec)
	}
}

func wrapReplay(prop string, js []byte) []byte {
	b, _ := json.Marshal(pb.ReplayFile{Property: os.Getenv("VERIF_PROPERTY"), Prop: prop, Kind: "race-detector", Mode: "race", Case: js, Error: "data race reported by the race detector while this program was running (report next to this file)"})
	return b
}

func init() {
	pb.RegisterReplay("synclist_raced", func(raw json.RawMessage) error {
		var c listCase
		if err := json.Unmarshal(raw, &c); err != nil {
			return fmt.Errorf("BADREPLAY: %v", err)
		}
		// schedule-dependent: re-run the program many times
		for i := 0; i < 400; i++ {
			if err := runRaced(c, &pb.Rec{}); err != nil {
				return err
			}
		}
		return nil
	})
}

// ---- producer/consumer loops on real goroutines (race detector + MPMC conservation/order oracle)

type loopCase struct {
	Producers int
	Consumers int
	PerProd   int
	Waits     bool
	Tokens    bool // element type struct{} (zero size): nothing to tell values apart, the oracle counts
}

type stalled struct{ msg string }

func (e stalled) Error() string { return "INCONCLUSIVE: " + e.msg }

func runLoops(c loopCase) error {
	if c.Producers < 1 || c.Producers > 8 || c.Consumers < 1 || c.Consumers > 8 || c.PerProd < 1 || c.PerProd > 100000 {
		return nil
	}
	l := listz.NewSync[int]()
	total := c.Producers * c.PerProd
	var consumed, produced, abort int64
	got := make([][]int, c.Consumers)
	var lenErr atomic.Value
	stop := make(chan struct{})
	var bodies []func()
	for p := 0; p < c.Producers; p++ {
		p := p
		bodies = append(bodies, func() {
			for i := 0; i < c.PerProd && atomic.LoadInt64(&abort) == 0; i++ {
				l.Push(p*1000000 + i)
				atomic.AddInt64(&produced, 1)
			}
		})
	}
	for k := 0; k < c.Consumers; k++ {
		k := k
		bodies = append(bodies, func() {
			for atomic.LoadInt64(&consumed) < int64(total) && atomic.LoadInt64(&abort) == 0 {
				v, ok := l.Pop()
				if !ok {
					runtime.Gosched()
					continue
				}
				got[k] = append(got[k], v)
				atomic.AddInt64(&consumed, 1)
			}
		})
	}
	obsDone := make(chan struct{})
	go func() {
		defer close(obsDone)
		last, lastChange := int64(-1), time.Now()
		for {
			select {
			case <-stop:
				return
			default:
			}
			if n := l.Len(); n < 0 {
				lenErr.CompareAndSwap(nil, fmt.Sprintf("Len() = %d during the run", n))
			}
			if now := atomic.LoadInt64(&consumed) + atomic.LoadInt64(&produced); now != last {
				last, lastChange = now, time.Now()
			} else if time.Since(lastChange) > 15*time.Second {
				atomic.StoreInt64(&abort, 1) // a pusher spinning inside Push cannot be stopped: the test deadline ends the run then
			}
			runtime.Gosched()
		}
	}()
	panics := conc.RunRaced(bodies)
	close(stop)
	<-obsDone
	if len(panics) > 0 {
		return fmt.Errorf("panic in a goroutine: %v", panics[0])
	}
	if e := lenErr.Load(); e != nil {
		return fmt.Errorf("%s", e)
	}
	seen := map[int]bool{}
	for k, vs := range got {
		last := map[int]int{}
		for _, v := range vs {
			if seen[v] {
				return fmt.Errorf("value %d popped twice", v)
			}
			seen[v] = true
			p, i := v/1000000, v%1000000
			if p < 0 || p >= c.Producers || i >= c.PerProd {
				return fmt.Errorf("invented value %d", v)
			}
			if prev, ok := last[p]; ok && i < prev {
				return fmt.Errorf("consumer %d received value %d of producer %d after value %d: FIFO order violated", k, i, p, prev)
			}
			last[p] = i
		}
	}
	if atomic.LoadInt64(&abort) != 0 {
		for n := 0; ; n++ {
			v, ok := l.Pop()
			if !ok {
				break
			}
			if seen[v] {
				return fmt.Errorf("value %d popped twice", v)
			}
			seen[v] = true
			if n > total {
				return fmt.Errorf("the quiescent list yields more values than were ever pushed")
			}
		}
		if int64(len(seen)) < atomic.LoadInt64(&produced) {
			return fmt.Errorf("no progress: %d values were pushed but only %d ever came out and the quiescent list is empty (lost values)", produced, len(seen))
		}
		return stalled{fmt.Sprintf("no progress for 15s with %d of %d consumed, but the quiescent list is consistent", consumed, total)}
	}
	if len(seen) != total {
		return fmt.Errorf("%d of %d values came out (lost values)", len(seen), total)
	}
	if l.Len() != 0 {
		return fmt.Errorf("after the run: Len=%d", l.Len())
	}
	if _, ok := l.Pop(); ok {
		return fmt.Errorf("after the run: Pop succeeded on an empty list")
	}
	return nil
}

// runTokens: a SyncList of zero-size elements. One producer hands out tokens (in bursts of 1..3, waiting until
// they are consumed, so that the consumers keep contending for the last element); the oracle counts: never more
// successful pops than pushes, Len never negative, and at the end pops == pushes, Len == 0 and Pop fails.
func runTokens(c loopCase) error {
	if c.Consumers < 1 || c.Consumers > 8 || c.PerProd < 1 || c.PerProd > 100000 {
		return nil
	}
	l := listz.NewSync[struct{}]()
	var pushed, popped, abort int64
	var bad atomic.Value
	var bodies []func()
	bodies = append(bodies, func() {
		start := time.Now()
		for i := 0; i < c.PerProd; {
			burst := 1 + i%3
			for b := 0; b < burst && i < c.PerProd; b++ {
				l.Push(struct{}{})
				atomic.AddInt64(&pushed, 1)
				i++
			}
			for atomic.LoadInt64(&popped) < atomic.LoadInt64(&pushed) {
				if time.Since(start) > 60*time.Second {
					atomic.StoreInt64(&abort, 1)
					return
				}
				runtime.Gosched()
			}
		}
		atomic.StoreInt64(&abort, 2) // done
	})
	for k := 0; k < c.Consumers; k++ {
		bodies = append(bodies, func() {
			for atomic.LoadInt64(&abort) == 0 {
				if _, ok := l.Pop(); ok {
					// the push is counted after Push returned: a pop can overtake that count by the burst size at most
					if n := atomic.AddInt64(&popped, 1); n > atomic.LoadInt64(&pushed)+3 {
						bad.CompareAndSwap(nil, fmt.Sprintf("%d pops succeeded although at most %d tokens had been pushed", n, atomic.LoadInt64(&pushed)+3))
					}
				} else {
					runtime.Gosched()
				}
				if n := l.Len(); n < 0 {
					bad.CompareAndSwap(nil, fmt.Sprintf("Len() = %d during the run", n))
				}
			}
		})
	}
	if panics := conc.RunRaced(bodies); len(panics) > 0 {
		return fmt.Errorf("panic in a goroutine: %v", panics[0])
	}
	if e := bad.Load(); e != nil {
		return fmt.Errorf("SyncList[struct{}]: %s", e)
	}
	if atomic.LoadInt64(&abort) == 1 {
		return stalled{fmt.Sprintf("token hand-over made no progress for 60s (%d pushed, %d popped)", pushed, popped)}
	}
	if pushed != popped || l.Len() != 0 {
		return fmt.Errorf("SyncList[struct{}]: %d tokens pushed, %d popped, Len() = %d at the end", pushed, popped, l.Len())
	}
	if _, ok := l.Pop(); ok {
		return fmt.Errorf("SyncList[struct{}]: Pop succeeds on the drained list")
	}
	return nil
}

func TestRacedLoops(t *testing.T) {
	st := pb.Stats("synclist_raced_loops")
	st.SetRule("1-4 producers x 200-3000 values and 1-4 consumers spinning on a SyncList on real goroutines under the race detector, with an observer calling Len; oracle: every value comes out exactly once, per consumer the values of one producer arrive in increasing order, Len never negative, list empty afterwards; a quarter of the cases use the zero-size element type struct{} with one producer handing tokens over in bursts of 1..3 and a counting oracle (pops never ahead of pushes, Len never negative, balanced at the end); every drawn configuration is a case, non-trivial = >= 2 producers and >= 2 consumers")
	gen := rapid.Custom(func(t *rapid.T) loopCase {
		return loopCase{Producers: rapid.IntRange(1, 4).Draw(t, "p"), Consumers: rapid.IntRange(1, 4).Draw(t, "c"), PerProd: rapid.IntRange(200, 3000).Draw(t, "n"),
			Tokens: rapid.IntRange(0, 3).Draw(t, "tokens") == 0}
	})
	n := pb.Scaled(40)
	for i := 0; i < n; i++ {
		c := gen.Example(int(pb.Seed("loops")%1000003) + i)
		js, _ := json.Marshal(c)
		restoreProcs, procsClass := pb.FlipProcs(js)
		if cur := os.Getenv("VERIF_CURRENT_CASE"); cur != "" {
			os.WriteFile(cur, wrapReplay("synclist_raced_loops", js), 0o644)
		}
		run := runLoops
		if c.Tokens {
			run = runTokens
		}
		if err := run(c); err != nil {
			if _, inc := err.(stalled); inc {
				st.Note("%v: %s", err, js)
				t.Fatalf("NO-VERDICT %v", err)
			}
			st.Violation("raced-loops", js, err)
			t.Fatalf("loops %s: %v", js, err)
		}
		rec := &pb.Rec{}
		rec.NonTrivialIf(c.Producers >= 2 && c.Consumers >= 2)
		rec.ClassIf(c.Producers >= 2 && c.Consumers >= 2, "MPMC")
		rec.ClassIf(c.Tokens, "zero-size element type (struct{}), counted tokens")
		restoreProcs()
		rec.ClassIf(procsClass != "", procsClass)
		st.Case(js, rec)
	}
}

func init() {
	pb.RegisterReplay("synclist_raced_loops", func(raw json.RawMessage) error {
		var c loopCase
		if err := json.Unmarshal(raw, &c); err != nil {
			return fmt.Errorf("BADREPLAY: %v", err)
		}
		for i := 0; i < 20; i++ {
			run := runLoops
			if c.Tokens {
				run = runTokens
			}
			if err := run(c); err != nil {
				return err
			}
		}
		return nil
	})
}
