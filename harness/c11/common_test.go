// C11 — SyncList is a linearizable unbounded FIFO queue with a sane length.
package c11

import (
	"fmt"
	"testing"
	"time"

	"github.com/welllog/golib/listz"
	"pgregory.net/rapid"

	"verif/harness/internal/conc"
	"verif/harness/internal/lin"
	"verif/harness/internal/pb"
)

func TestMain(m *testing.M)   { pb.Main(m) }
func TestReplay(t *testing.T) { pb.RunReplay(t) }

type call struct {
	K string // push pop popwait0 popwaitinf len probe
	V int
}

type listCase struct {
	Initial int
	Threads [][]call
	Slots   []conc.Slot `json:",omitempty"`
	Trace   []int       `json:",omitempty"` // explicit decision list (exhaustive tier / replay)
}

func genProgram(t *rapid.T, maxThreads, maxCalls int, probeOK bool, timed ...bool) listCase {
	c := listCase{Initial: rapid.IntRange(0, 3).Draw(t, "initial")}
	nt := rapid.IntRange(2, maxThreads).Draw(t, "threads")
	probe := probeOK && rapid.Bool().Draw(t, "probe")
	for i := 0; i < nt; i++ {
		n := rapid.IntRange(1, maxCalls).Draw(t, "ncalls")
		var th []call
		for j := 0; j < n; j++ {
			kinds := []string{"push", "push", "pop", "pop", "popwait0", "len", "popwaitinf"}
			if len(timed) > 0 && timed[0] {
				// real-time variants (raced tier only): a timed PopWait and a delay that moves pushes towards its deadline
				kinds = append(kinds, "popwaitT", "popwaitT", "sleep", "sleep")
			}
			k := rapid.SampledFrom(kinds).Draw(t, "k")
			if k == "popwaitinf" && probe {
				k = "pop"
			}
			switch k {
			case "push":
				th = append(th, call{K: k, V: 100*(i+1) + j})
			case "sleep":
				th = append(th, call{K: k, V: rapid.IntRange(1, 34).Draw(t, "ms")})
			default:
				th = append(th, call{K: k})
			}
		}
		c.Threads = append(c.Threads, th)
	}
	// PopWait(-1) only when it is guaranteed to finish under every fair schedule: the values that are
	// certain to arrive (initial content + pushes of threads that never block) cover every pop-type call
	if !waitsGuaranteed(c) {
		for i := range c.Threads {
			for j := range c.Threads[i] {
				if c.Threads[i][j].K == "popwaitinf" {
					c.Threads[i][j].K = "popwait0"
				}
			}
		}
	}
	if probe {
		c.Threads = append(c.Threads, []call{{K: "probe"}})
	}
	return c
}

func sane(c listCase) bool {
	if c.Initial < 0 || c.Initial > 8 || len(c.Threads) == 0 || len(c.Threads) > 6 {
		return false
	}
	pushes, pops, inf, probe := 0, 0, 0, false
	seen := map[int]bool{}
	for _, th := range c.Threads {
		if len(th) > 8 {
			return false
		}
		for _, cl := range th {
			switch cl.K {
			case "push":
				if cl.V <= c.Initial || seen[cl.V] {
					return false
				}
				seen[cl.V] = true
				pushes++
			case "pop", "popwait0", "popwaitT":
				pops++
			case "sleep":
				if cl.V < 0 || cl.V > 100 {
					return false
				}
			case "popwaitinf":
				pops++
				inf++
			case "probe":
				probe = true
			case "len":
			default:
				return false
			}
		}
	}
	if inf > 0 && (probe || !waitsGuaranteed(c)) {
		return false
	}
	_ = pushes
	return true
}

// waitsGuaranteed: every PopWait(-1) of the program terminates under every fair schedule.
func waitsGuaranteed(c listCase) bool {
	sure, pops := c.Initial, 0
	for _, th := range c.Threads {
		blocking, pushes := false, 0
		for _, cl := range th {
			switch cl.K {
			case "push":
				pushes++
			case "pop", "popwait0", "popwaitT":
				pops++
			case "popwaitinf":
				pops++
				blocking = true
			case "probe":
				return false // the probe drains an unknown number of values
			}
		}
		if !blocking {
			sure += pushes
		}
	}
	return sure >= pops
}

type recorder struct {
	ops     []lin.Op
	probeOK error
}

// execThread runs one thread's calls against the list and records the history.
// In controlled runs only one thread runs at a time, so the shared slice needs no lock;
// raced runs give every thread its own recorder.
func execThread(l *listz.SyncList[int], th int, calls []call, rec *recorder) {
	for _, cl := range calls {
		switch cl.K {
		case "push":
			o := lin.Op{Thread: th, Kind: "push", Arg: cl.V, OK: true, Call: conc.Tick()}
			l.Push(cl.V)
			o.Return = conc.Tick()
			rec.ops = append(rec.ops, o)
		case "sleep":
			time.Sleep(time.Duration(cl.V) * time.Millisecond)
		case "pop", "popwait0", "popwaitinf", "popwaitT":
			o := lin.Op{Thread: th, Kind: "pop", Call: conc.Tick()}
			switch cl.K {
			case "pop":
				o.Ret, o.OK = l.Pop()
			case "popwait0":
				o.Ret, o.OK = l.PopWait(0)
			case "popwaitT":
				o.Ret, o.OK = l.PopWait(25 * time.Millisecond)
			default:
				o.Ret, o.OK = l.PopWait(-1)
			}
			o.Return = conc.Tick()
			rec.ops = append(rec.ops, o)
		case "len":
			o := lin.Op{Thread: th, Kind: "len", Call: conc.Tick()}
			o.Ret = l.Len()
			o.Return = conc.Tick()
			rec.ops = append(rec.ops, o)
		case "probe":
			// executed without interleaving: every other thread is frozen mid-operation, so the number of
			// successful pops is exactly the number of values poppable at this instant
			conc.Atomic(func() {
				o := lin.Op{Thread: th, Kind: "len", Call: conc.Tick()}
				L := l.Len()
				o.Ret = L
				o.Return = conc.Tick()
				rec.ops = append(rec.ops, o)
				n := 0
				for {
					p := lin.Op{Thread: th, Kind: "pop", Call: conc.Tick()}
					p.Ret, p.OK = l.Pop()
					p.Return = conc.Tick()
					rec.ops = append(rec.ops, p)
					if !p.OK {
						break
					}
					n++
				}
				if L < n && rec.probeOK == nil {
					rec.probeOK = fmt.Errorf("probe: Len() = %d but %d values could be popped at that instant", L, n)
				}
			})
		}
	}
}

func newList(c listCase) (*listz.SyncList[int], []int) {
	conc.Reset()
	l := listz.NewSync[int]()
	var initial []int
	for i := 1; i <= c.Initial; i++ {
		l.Push(i)
		initial = append(initial, i)
	}
	return l, initial
}

// finish records the quiescent observers and the sequential drain, then checks the history.
func finish(l *listz.SyncList[int], c listCase, initial []int, ops []lin.Op, r *pb.Rec) error {
	th := len(c.Threads)
	o := lin.Op{Thread: th, Kind: "len", Call: conc.Tick()}
	o.Ret = l.Len()
	o.Return = conc.Tick()
	ops = append(ops, o)
	for i := 0; ; i++ {
		p := lin.Op{Thread: th, Kind: "pop", Call: conc.Tick()}
		p.Ret, p.OK = l.Pop()
		p.Return = conc.Tick()
		ops = append(ops, p)
		if !p.OK {
			break
		}
		if i > 100 {
			return fmt.Errorf("final drain does not terminate")
		}
	}
	o = lin.Op{Thread: th, Kind: "len", Call: conc.Tick()}
	o.Ret = l.Len()
	o.Return = conc.Tick()
	ops = append(ops, o)
	st, err := lin.CheckQueue(ops, initial, -1)
	if err != nil {
		return fmt.Errorf("%v\nhistory:\n%s", err, lin.Format(ops))
	}
	mut := func(o lin.Op) bool { return o.Kind == "push" || o.Kind == "pop" }
	r.ClassIf(st.Inconclusive, "INCONCLUSIVE: linearizability search hit its time limit")
	r.ClassIf(st.FalseNoOverlap > 0, "false Pop without overlap (must be empty)")
	r.ClassIf(st.FalseExcused > 0, "false Pop excused by overlap")
	popOverlap := false
	for i := range ops {
		for j := range ops {
			if i != j && ops[i].Kind == "pop" && ops[j].Kind == "pop" && ops[i].Thread != ops[j].Thread && ops[j].Call < ops[i].Return && ops[i].Call < ops[j].Return {
				popOverlap = true
			}
		}
	}
	r.ClassIf(popOverlap, "pop overlapping pop")
	r.ClassIf(lin.Overlapping(ops, mut), "overlapping mutating calls")
	return nil
}

func probeInFlight(ops []lin.Op, probeThread int) bool {
	for _, p := range ops {
		if p.Thread == probeThread && p.Kind == "len" {
			for _, o := range ops {
				if o.Kind == "push" && o.Thread != probeThread && o.Call < p.Call && p.Return < o.Return {
					return true
				}
			}
		}
	}
	return false
}
