//go:build !sched

package c11

// Long sequential run on ONE SyncList: counters inside the list must not drift over tens of thousands of cheap
// calls of every entry point. Run with the raced jobs (one goroutine, so every result has one right answer).

import (
	"encoding/json"
	"fmt"
	"testing"

	"github.com/welllog/golib/listz"
	"pgregory.net/rapid"

	"verif/harness/internal/pb"
)

type listLong struct {
	Seed  uint64
	Steps int
	Mix   int // which pop entry points are used: bit 0 Pop, bit 1 PopWait(0), bit 2 PopWait(1ms) on a non-empty list, bit 3 PopWait(-1) on a non-empty list
}

func runListLong(c listLong) error {
	if c.Steps < 1 || c.Steps > 1000000 || c.Mix&15 == 0 {
		return nil
	}
	st := c.Seed | 1
	rnd := func(n int) int {
		st ^= st << 13
		st ^= st >> 7
		st ^= st << 17
		return int(st % uint64(n))
	}
	l := listz.NewSync[int]()
	var model []int
	next := 0
	var kinds []int
	for b := 0; b < 4; b++ {
		if c.Mix>>b&1 == 1 {
			kinds = append(kinds, b)
		}
	}
	for step := 0; step < c.Steps; step++ {
		where := fmt.Sprintf("SyncList long run (seed %d, pop entry points %04b), step %d", c.Seed, c.Mix, step)
		if len(model) == 0 || (len(model) < 3 && rnd(2) == 0) {
			next++
			l.Push(next)
			model = append(model, next)
		} else {
			var v int
			var ok bool
			switch kinds[rnd(len(kinds))] {
			case 0:
				v, ok = l.Pop()
			case 1:
				v, ok = l.PopWait(0)
			case 2:
				v, ok = l.PopWait(1000000) // 1ms; a value is there: returns at once
			default:
				v, ok = l.PopWait(-1)
			}
			if !ok || v != model[0] {
				return fmt.Errorf("%s: pop = %d,%v want %d,true", where, v, ok, model[0])
			}
			model = model[1:]
		}
		if n := l.Len(); n != len(model) {
			return fmt.Errorf("%s: Len = %d with %d values stored (single goroutine, nothing in flight)", where, n, len(model))
		}
	}
	return nil
}

func TestLongRun(t *testing.T) {
	st := pb.Stats("synclist_long_run")
	st.SetRule("20000 or 150000 Push / Pop / PopWait(0) / PopWait(1ms) / PopWait(-1) calls (pops only when a value is stored) on one SyncList from one goroutine; oracle: slice model, Len after every call; non-trivial = 150000 calls")
	st.Require(">= 65536 immediately successful PopWait calls on one list")
	gen := rapid.Custom(func(t *rapid.T) listLong {
		return listLong{Seed: rapid.Uint64().Draw(t, "seed"), Steps: rapid.SampledFrom([]int{20000, 150000, 150000}).Draw(t, "steps"), Mix: rapid.SampledFrom([]int{1, 2, 4, 8, 15, 6, 2}).Draw(t, "mix")}
	})
	n := pb.Scaled(8)
	for i := 0; i < n; i++ {
		c := gen.Example(int(pb.Seed("long")%1000003) + i)
		js, _ := json.Marshal(c)
		if err := runListLong(c); err != nil {
			st.Violation("long-run", js, err)
			t.Fatalf("%s: %v", js, err)
		}
		rec := &pb.Rec{}
		rec.ClassIf(c.Steps >= 150000 && c.Mix&^6 == 0, ">= 65536 immediately successful PopWait calls on one list")
		rec.NonTrivialIf(c.Steps >= 150000)
		st.Case(js, rec)
	}
}

func init() {
	pb.RegisterReplay("synclist_long_run", func(raw json.RawMessage) error {
		var c listLong
		if err := json.Unmarshal(raw, &c); err != nil {
			return fmt.Errorf("BADREPLAY: %v", err)
		}
		return runListLong(c)
	})
}
