package c11

import (
	"encoding/json"
	"fmt"
	"testing"

	"github.com/welllog/golib/listz"

	"verif/harness/internal/g"
	"verif/harness/internal/pb"
)

// TestElementsAcrossGC: a SyncList of pointer-carrying elements that only the list references, across forced
// garbage collections (sequential use; runs in the job of the element-type sub-checks).
func TestElementsAcrossGC(t *testing.T) {
	st := pb.Stats("synclist_elements_across_gc")
	st.SetExhaustive(true)
	st.SetRule("SyncList of struct{int, string, *int}: 1, 2, 3, 7, 64, 500, 2000 freshly allocated elements that only the list references are pushed, two garbage collections are forced, the allocator is churned, then every element is popped and verified; three rounds per list; the list of sizes is enumerated completely; every case is non-trivial")
	for _, n := range []int{1, 2, 3, 7, 64, 500, 2000} {
		l := listz.NewSync[g.PtrRec]()
		js, _ := json.Marshal(map[string]int{"n": n})
		err := pb.Catch(func() {
			if e := g.AcrossGC(fmt.Sprintf("SyncList with %d elements", n), n, 3, func(v g.PtrRec) bool { l.Push(v); return true }, l.Pop); e != nil {
				panic(e)
			}
		})
		rec := &pb.Rec{}
		rec.NonTrivial()
		st.Case(js, rec)
		if err != nil {
			st.Violation("elements-across-gc", js, err)
			t.Fatalf("%s: %v", js, err)
		}
	}
}
