package c20

// Long run on ONE IdGenerator: tens of thousands of ids from the same generator, each bracketed by two clock
// reads (state kept between calls - pooled entropy, counters - must not leak into the time field).

import (
	crand "crypto/rand"
	"fmt"
	"time"

	"github.com/welllog/golib/randz"
	"pgregory.net/rapid"

	"verif/harness/internal/pb"
)

type idLong struct {
	RandBit  int
	AgoMs    int64
	N        int
	Package  bool // the package-level Id() instead of an own generator
	FailRand int  // > 0: the entropy source fails from this call on
}

func genIDLong(t *rapid.T) idLong {
	return idLong{RandBit: rapid.SampledFrom([]int{2, 8, 16, 17, 18, 19, 21, 22}).Draw(t, "randBit"), AgoMs: rapid.Int64Range(0, 1<<40).Draw(t, "ago"),
		N: rapid.SampledFrom([]int{3000, 20000}).Draw(t, "n"), Package: rapid.IntRange(0, 5).Draw(t, "pkg") == 0, FailRand: rapid.SampledFrom([]int{0, 0, 0, 1500}).Draw(t, "failFrom")}
}

type countingFail struct {
	calls, failFrom int
}

func (c *countingFail) Read(p []byte) (int, error) {
	c.calls++
	if c.calls >= c.failFrom {
		return 0, fmt.Errorf("injected entropy failure")
	}
	return origReader.Read(p)
}

var origReader = crand.Reader

func runIDLong(c idLong, r *pb.Rec) error {
	if c.N < 1 || c.N > 200000 || c.RandBit < 2 || c.RandBit > 22 || c.AgoMs < 0 || c.AgoMs > 1<<40 {
		return nil
	}
	if c.FailRand > 0 {
		crand.Reader = &countingFail{failFrom: c.FailRand}
		defer func() { crand.Reader = origReader }()
	}
	start := time.Now().Add(-time.Duration(c.AgoMs) * time.Millisecond)
	gen := randz.NewIdGenerator(start, c.RandBit)
	eff := uint(c.RandBit)
	next := func() randz.ID { return gen.Generate() }
	if c.Package {
		// the package-level generator: start time and random bits are its documented defaults; only what can be
		// checked without knowing them: non-negative and non-decreasing time part across a long run
		var prev randz.ID = -1
		for i := 0; i < c.N; i++ {
			id := randz.Id()
			if id < 0 {
				return fmt.Errorf("package-level Id() call %d: negative id %d", i, id)
			}
			if prev >= 0 && id>>22 < prev>>22 {
				return fmt.Errorf("package-level Id() call %d: id %d after %d goes back in time", i, id, prev)
			}
			prev = id
		}
		r.Class("package-level generator")
		r.NonTrivial()
		return nil
	}
	for i := 0; i < c.N; i++ {
		before := time.Since(start).Milliseconds()
		id := next()
		after := time.Since(start).Milliseconds()
		if id < 0 {
			return fmt.Errorf("call %d on one generator (randBit %d): negative id %d", i, c.RandBit, id)
		}
		if ts := int64(id) >> eff; ts < before || ts > after {
			return fmt.Errorf("call %d on one generator (randBit %d, start %d ms ago): the id carries %d ms, the call happened within [%d, %d] ms", i, c.RandBit, c.AgoMs, ts, before, after)
		}
	}
	r.ClassIf(c.N >= 20000, ">= 20000 ids from one generator")
	r.ClassIf(c.FailRand > 0, "entropy source fails in the middle of the run")
	r.NonTrivialIf(c.N >= 20000)
	return nil
}

func init() {
	pb.Register("idgen_long_run", pb.Options{Base: 6, Required: []string{">= 20000 ids from one generator", "entropy source fails in the middle of the run"},
		Rule: "3000 or 20000 consecutive Generate calls on one IdGenerator (randBit 2..22, start up to 2^40 ms back, optionally with crypto/rand failing from the 1500th read on), every id bracketed by two clock reads: non-negative, time part within the bracket (so the random part stays below 2^randBit); one case in six drives the package-level Id() instead (non-negative, time never goes back); non-trivial = 20000 ids"},
		genIDLong, runIDLong)
}
