// C20 — randz identifiers and random strings have the documented shape.
package c20

import (
	"bytes"
	crand "crypto/rand"
	"encoding/json"
	"errors"
	"fmt"
	"math"
	"math/rand"
	"strconv"
	"strings"
	"testing"
	"time"
	"unicode/utf8"

	"github.com/welllog/golib/randz"
	"pgregory.net/rapid"

	"verif/harness/internal/g"
	"verif/harness/internal/pb"
)

const alphabet = "0123456789abcdefghjkmnprstuvwxyz"

func TestMain(m *testing.M)   { pb.Main(m) }
func TestProps(t *testing.T)  { pb.RunProps(t) }
func TestReplay(t *testing.T) { pb.RunReplay(t) }

// ---------------------------------------------------------------- ID numerals

type idCase struct{ ID int64 }

func genID(t *rapid.T) idCase {
	var id int64
	switch rapid.IntRange(0, 3).Draw(t, "kind") {
	case 0:
		id = rapid.SampledFrom([]int64{0, 1, 31, 32, 33, 1023, 1024, 1025, 1<<62 - 1, 1 << 62, 1<<63 - 1, 1<<63 - 2}).Draw(t, "special")
	case 1:
		k := rapid.IntRange(1, 12).Draw(t, "pow")
		id = int64(1)<<(5*uint(k)) + int64(rapid.IntRange(-1, 1).Draw(t, "d"))
	case 2:
		bits := rapid.IntRange(0, 63).Draw(t, "bits")
		id = rapid.Int64Range(0, int64(uint64(1)<<uint(bits)-1)).Draw(t, "v")
	default:
		id = rapid.Int64Range(0, 1<<63-1).Draw(t, "u")
	}
	return idCase{id}
}

func runID(c idCase, r *pb.Rec) error {
	id := randz.ID(c.ID)
	s := id.Base32()
	got, err := randz.ParseBase32([]byte(s))
	if err != nil || got != id {
		return fmt.Errorf("ParseBase32(%q) = %d, %v; want %d", s, got, err, c.ID)
	}
	// standard numeral in base 32 with the library's alphabet
	ref := strconv.FormatInt(c.ID, 32)
	tr := make([]byte, len(ref))
	for i := range ref {
		v, _ := strconv.ParseInt(ref[i:i+1], 32, 8)
		tr[i] = alphabet[v]
	}
	if s != string(tr) {
		return fmt.Errorf("Base32(%d) = %q want %q", c.ID, s, tr)
	}
	if id.Base2() != strconv.FormatInt(c.ID, 2) || id.Base36() != strconv.FormatInt(c.ID, 36) || id.String() != strconv.FormatInt(c.ID, 10) || id.Int64() != c.ID {
		return fmt.Errorf("numerals of %d: %q %q %q", c.ID, id.Base2(), id.Base36(), id.String())
	}
	r.NonTrivialIf(c.ID >= 32)
	r.ClassIf(len(s) == 13, "13 digits")
	r.ClassIf(c.ID < 32, "single digit")
	return nil
}

// ---------------------------------------------------------------- ParseBase32 on arbitrary bytes

type parseCase struct{ B g.B }

func genParse(t *rapid.T) parseCase {
	n := rapid.IntRange(0, 14).Draw(t, "n")
	b := make([]byte, n)
	for i := range b {
		switch rapid.IntRange(0, 5).Draw(t, "k") {
		case 0:
			b[i] = rapid.Byte().Draw(t, "any")
		case 1:
			b[i] = rapid.SampledFrom([]byte("ilouILOU ABCXYZ~\x7f\x80\xff\x00\x1f\x20")).Draw(t, "near")
		default:
			b[i] = alphabet[rapid.IntRange(0, 31).Draw(t, "d")]
		}
	}
	return parseCase{b}
}

func refParse(b []byte) (int64, bool) {
	var id int64
	for _, c := range b {
		i := strings.IndexByte(alphabet, c)
		if i < 0 {
			return -1, false
		}
		id = id*32 + int64(i)
	}
	return id, true
}

func runParse(c parseCase, r *pb.Rec) error {
	in, intact := g.WindowBytes(c.B, len(c.B))
	got, err := randz.ParseBase32(in)
	want, ok := refParse(c.B)
	if !bytes.Equal(in, c.B) {
		return fmt.Errorf("input modified")
	}
	if e := intact(); e != nil {
		return fmt.Errorf("ParseBase32(%q): %v", c.B, e)
	}
	// the caller's buffer is reused in place for the next texts (a read buffer): same memory, other content
	for k := 0; k < 3 && len(in) > 0; k++ {
		pos := (len(in)*7 + k) % len(in)
		switch k {
		case 0, 2:
			in[pos] = alphabet[(int(in[pos])+k+1)%32] // another digit of the alphabet
		case 1:
			in[pos] = "!Il ~\x80\x00O"[len(in)%8] // a byte outside the alphabet
		}
		g2, e2 := randz.ParseBase32(in)
		w2, ok2 := refParse(in)
		if ok2 != (e2 == nil) || (!ok2 && !errors.Is(e2, randz.ErrInvalidBase32)) || (ok2 && len(in) <= 12 && int64(g2) != w2) {
			return fmt.Errorf("ParseBase32(%q) = %d, %v (reference: %d, valid %v); the same buffer held %q at the previous call", in, g2, e2, w2, ok2, c.B)
		}
	}
	in = append([]byte(nil), c.B...)
	if !ok {
		if !errors.Is(err, randz.ErrInvalidBase32) {
			return fmt.Errorf("ParseBase32(%q) = %d, %v; want ErrInvalidBase32", c.B, got, err)
		}
		bad := 0
		hi := false
		for _, ch := range c.B {
			if strings.IndexByte(alphabet, ch) < 0 {
				bad++
				hi = hi || ch >= 32
			}
		}
		r.NonTrivialIf(bad == 1 && hi)
		r.ClassIf(bad == 1 && hi, "one illegal byte >= 32")
		return nil
	}
	if err != nil {
		return fmt.Errorf("ParseBase32(%q) error %v on a valid string", c.B, err)
	}
	// the value is only specified while it fits (the property claims the round trip)
	if len(c.B) <= 12 && int64(got) != want {
		return fmt.Errorf("ParseBase32(%q) = %d want %d", c.B, got, want)
	}
	r.Class("valid string")
	return nil
}

// every one of the 256 byte values at every position of valid strings of length 1..13
func TestExhaustive(t *testing.T) {
	st := pb.Stats("parse_base32_substitution")
	st.SetRule("exhaustive single-byte substitution: each of the 256 byte values at each position of a valid Base32 string of every length 1..13 (several base strings per length, derived from VERIF_SEED); non-trivial = substituted byte is outside the alphabet")
	st.SetExhaustive(true)
	rng := rand.New(rand.NewSource(int64(pb.Seed("exh"))))
	for n := 1; n <= 13; n++ {
		for rep := 0; rep < pb.Scaled(8); rep++ {
			base := make([]byte, n)
			for i := range base {
				base[i] = alphabet[rng.Intn(32)]
			}
			if n == 13 {
				base[0] = alphabet[rng.Intn(8)] // keep it < 2^63
			}
			for pos := 0; pos < n; pos++ {
				for v := 0; v < 256; v++ {
					b := append([]byte(nil), base...)
					b[pos] = byte(v)
					c := parseCase{b}
					rec := &pb.Rec{}
					err := pb.Catch(func() {
						if e := runParse(c, rec); e != nil {
							panic(e)
						}
					})
					rec.NonTrivialIf(strings.IndexByte(alphabet, byte(v)) < 0)
					st.Case(b, rec)
					if err != nil {
						js, _ := json.Marshal(c)
						st.Violation("exhaustive", js, err)
						t.Fatalf("ParseBase32 substitution violated: %v", err)
					}
				}
			}
		}
	}
}

// ---------------------------------------------------------------- IdGenerator

type idgenCase struct {
	RandBit  int
	AgoMs    int64
	N        int
	FailRand bool // crypto/rand.Reader fails: the generator must fall back and still produce well-formed ids
}

type failingReader struct{}

func (failingReader) Read([]byte) (int, error) { return 0, errors.New("injected entropy failure") }

func genIdgen(t *rapid.T) idgenCase {
	var ago int64
	switch rapid.IntRange(0, 2).Draw(t, "k") {
	case 0:
		ago = rapid.Int64Range(0, 5000).Draw(t, "ago")
	case 1:
		ago = rapid.Int64Range(0, 60*365*24*3600*1000).Draw(t, "ago")
	default:
		// 2^41 ms (69.7 years) is where the 41-bit time field is full: just below it everything must still hold,
		// beyond it the time field wraps (nothing is claimed about it) but the id must stay non-negative
		ago = rapid.SampledFrom([]int64{0, 1, 1 << 31, 1<<32 - 1, 1 << 32, 1 << 40, 60 * 365 * 24 * 3600 * 1000, 1<<41 - 100000, 1<<41 + 5, 1 << 42, 3 << 41, 1<<43 - 7, 9000000000000}).Draw(t, "ago")
	}
	return idgenCase{RandBit: rapid.IntRange(-3, 40).Draw(t, "randBit"), AgoMs: ago, N: rapid.IntRange(1, 4).Draw(t, "n"), FailRand: rapid.IntRange(0, 3).Draw(t, "failRand") == 0}
}

func runIdgen(c idgenCase, r *pb.Rec) error {
	eff := c.RandBit
	if eff <= 1 {
		eff = 16
	}
	if eff > 22 {
		eff = 22
	}
	if c.FailRand {
		old := crand.Reader
		crand.Reader = failingReader{}
		defer func() { crand.Reader = old }()
	}
	start := time.Now().Add(-time.Duration(c.AgoMs) * time.Millisecond)
	gen := randz.NewIdGenerator(start, c.RandBit)
	var prevAfter int64 = -1
	var prevID randz.ID
	for i := 0; i < c.N; i++ {
		before := time.Since(start).Milliseconds()
		id := gen.Generate()
		after := time.Since(start).Milliseconds()
		if id < 0 {
			return fmt.Errorf("negative id %d", id)
		}
		if after >= 1<<41 {
			r.Class("elapsed beyond the 41-bit time field: non-negativity only")
			continue
		}
		ts := int64(id) >> uint(eff)
		if ts < before || ts > after {
			return fmt.Errorf("timestamp part %d not in [%d,%d] (randBit %d eff %d)", ts, before, after, c.RandBit, eff)
		}
		if prevAfter >= 0 && before > prevAfter && id <= prevID {
			return fmt.Errorf("ids taken >= 1ms apart not increasing: %d then %d", prevID, id)
		}
		prevAfter, prevID = after, id
		if i+1 < c.N {
			// bracket gap of at least a millisecond, decided by reading the clock, not by sleeping a fixed time
			for time.Since(start).Milliseconds() <= after {
				time.Sleep(200 * time.Microsecond)
			}
		}
	}
	r.NonTrivialIf(c.RandBit != 16 && c.AgoMs > 0)
	r.ClassIf(c.FailRand, "entropy source fails (fallback path)")
	r.ClassIf(c.RandBit <= 1, "randBit<=1")
	r.ClassIf(c.RandBit > 22, "randBit>22")
	r.ClassIf(c.AgoMs >= 1<<32, "elapsed>=2^32ms")
	return nil
}

// ---------------------------------------------------------------- StrGenerator

type strgenCase struct {
	Charset string
	N       int
	Seed    int64
	Prefix  []int64 // adversarial words returned before the PRNG takes over
}

type src struct {
	prefix []int64
	r      rand.Source
}

func (s *src) Int63() int64 {
	if len(s.prefix) > 0 {
		v := s.prefix[0]
		s.prefix = s.prefix[1:]
		return v & (1<<63 - 1)
	}
	return s.r.Int63()
}
func (s *src) Seed(int64) {}

func genStrgen(t *rapid.T) strgenCase {
	size := rapid.SampledFrom([]int{1, 2, 3, 4, 5, 7, 8, 9, 15, 16, 17, 31, 32, 33, 63, 64, 65, 70, 1, 2, 3, 4, 5, 7, 8, 9, 15, 16, 17, 31, 32, 33, 63, 64, 65, 70,
		85, 86, 94, 127, 128, 129, 255, 256, 257, 300, 1000, 4096, 65535, 65536, 65537, 70000}).Draw(t, "size")
	seen := map[rune]bool{}
	var rs []rune
	// width of the members: 0 ASCII (as far as it goes), 1 two-byte, 2 three-byte, 3 four-byte, 4 and 5 drawn runes of any width
	mode := rapid.IntRange(0, 5).Draw(t, "width")
	bases := []rune{33, 0xa1, 0x4e00, 0x1f300}
	if size > 300 {
		// large sets are laid out without drawing every member: a run of consecutive code points from a drawn start
		start := bases[mode%4] + rune(rapid.IntRange(0, 50).Draw(t, "start"))
		for r := start; len(rs) < size; r++ {
			if r >= 0xd800 && r <= 0xdfff || r == utf8.RuneError {
				continue
			}
			rs = append(rs, r)
		}
	}
	for len(rs) < size {
		var r rune
		switch {
		case mode >= 4:
			r = g.Rune().Draw(t, "r")
		case mode == 0:
			r = rune(rapid.IntRange(33, 126).Draw(t, "a"))
		default:
			r = bases[mode] + rune(rapid.IntRange(0, 2*size+20).Draw(t, "o"))
		}
		if r == utf8.RuneError || seen[r] || (r >= 0xd800 && r <= 0xdfff) {
			r = rune(0x4e00 + len(rs)) // keep the set duplicate free by construction
			if mode == 0 && size > 94 {
				r = rune(0xa1 + len(rs))
			}
			if seen[r] {
				r = rune(0x20000 + len(rs))
			}
		}
		seen[r] = true
		rs = append(rs, r)
	}
	n := rapid.OneOf(rapid.IntRange(0, 40), rapid.IntRange(0, 200), rapid.SampledFrom([]int{255, 256, 257, 1000, 5000})).Draw(t, "n")
	pre := rapid.SliceOfN(rapid.SampledFrom([]int64{0, 1<<63 - 1, 1 << 62, 0x5555555555555555, 0x2aaaaaaaaaaaaaaa}), 0, 3).Draw(t, "prefix")
	return strgenCase{Charset: string(rs), N: n, Seed: rapid.Int64().Draw(t, "seed"), Prefix: pre}
}

func runStrgen(c strgenCase, r *pb.Rec) error {
	if c.N < 0 || c.N > 100000 || len(c.Charset) == 0 || len(c.Charset) > 1<<20 {
		return nil
	}
	members := map[rune]bool{}
	for _, ch := range c.Charset {
		members[ch] = true
	}
	show := c.Charset
	if len(show) > 120 {
		show = fmt.Sprintf("%s... (%d runes, %d bytes)", show[:strings.LastIndexFunc(show[:120], func(rune) bool { return true })], utf8.RuneCountInString(c.Charset), len(c.Charset))
	}
	gen := randz.NewStrGenerator(c.Charset, &src{prefix: append([]int64(nil), c.Prefix...), r: rand.NewSource(c.Seed)})
	out := gen.Generate(c.N)
	if !utf8.ValidString(out) {
		return fmt.Errorf("output not valid UTF-8: %q", out)
	}
	if n := utf8.RuneCountInString(out); n != c.N {
		return fmt.Errorf("Generate(%d) with charset %q returned %d runes: %.200q", c.N, show, n, out)
	}
	for _, ch := range out {
		if !members[ch] {
			return fmt.Errorf("Generate(%d): rune %q is not in the charset %q", c.N, ch, show)
		}
	}
	// the same generator again with another length
	n2 := (c.N*7 + 3) % 97
	outKeep := strings.Clone(out)
	out2 := gen.Generate(n2)
	if out != outKeep {
		return fmt.Errorf("the string returned by Generate(%d) changed after the next Generate call", c.N)
	}
	if k := utf8.RuneCountInString(out2); k != n2 || !utf8.ValidString(out2) {
		return fmt.Errorf("second Generate(%d) on the same generator returned %d runes: %q", n2, k, out2)
	}
	for _, ch := range out2 {
		if !members[ch] {
			return fmt.Errorf("second Generate: rune %q not in charset %q", ch, show)
		}
	}
	sz := utf8.RuneCountInString(c.Charset)
	r.NonTrivialIf(c.N > 0 && sz&(sz-1) != 0)
	r.ClassIf(sz&(sz-1) != 0, "charset size not a power of two")
	r.ClassIf(sz&(sz-1) == 0, "charset size power of two")
	r.ClassIf(len(c.Charset) != sz, "multi-byte charset")
	r.ClassIf(len(c.Charset) >= 256 && sz < 256, "charset of fewer than 256 runes whose encoding is >= 256 bytes")
	r.ClassIf(sz >= 256, "charset of >= 256 runes")
	r.ClassIf(sz >= 65536, "charset of >= 65536 runes")
	r.ClassIf(c.N == 0, "n=0")
	return nil
}

// ---------------------------------------------------------------- CountGenerator

type countCase struct {
	Rules [][4]int
	ID    string
	Diffs []int
}

func genCount(t *rapid.T) countCase {
	n := rapid.IntRange(1, 5).Draw(t, "nrules")
	var c countCase
	for i := 0; i < n; i++ {
		period := rapid.OneOf(rapid.IntRange(1, 50), rapid.IntRange(1, 1000000)).Draw(t, "period")
		c.Rules = append(c.Rules, [4]int{
			period,
			rapid.OneOf(rapid.IntRange(1, 5), rapid.IntRange(1, 10000)).Draw(t, "periodEndMaxIncr"),
			rapid.OneOf(rapid.IntRange(1, 12), rapid.IntRange(1, 1000000)).Draw(t, "interval"),
			rapid.OneOf(rapid.IntRange(1, 5), rapid.IntRange(1, 10000)).Draw(t, "intervalMaxIncr"),
		})
	}
	c.ID = rapid.String().Draw(t, "id")
	for _, ru := range c.Rules {
		for d := -2; d <= 2; d++ {
			c.Diffs = append(c.Diffs, ru[0]+d)
		}
	}
	c.Diffs = append(c.Diffs, rapid.SliceOfN(rapid.IntRange(-1, 1100000), 0, 8).Draw(t, "diffs")...)
	return c
}

func runCount(c countCase, r *pb.Rec) error {
	if math.MaxInt == math.MaxInt32 {
		// 32-bit int: counts are elapsed time x increment; rule sets whose counts would not fit are outside the domain there
		for _, ru := range c.Rules {
			if int64(max(ru[0], 1100002))*int64(max(ru[1], ru[3])) > 1<<27 {
				return nil
			}
		}
	}
	var gen randz.CountGenerator
	for _, ru := range c.Rules {
		gen.AddRule(ru[0], ru[1], ru[2], ru[3])
	}
	boundary := false
	// the same id value held in different memory: as a prefix / an infix of larger strings with other bytes around it
	// (Generate is a function of the id's value and the elapsed time, not of where the string happens to live)
	idIn1 := (c.ID + "\xff\xfe\xfd\xfc\xfb")[:len(c.ID)]
	idIn2 := ("ABCDEFG" + c.ID + "\x01\x02\x03\x04\x05\x06\x07")[7 : 7+len(c.ID)]
	for _, d := range c.Diffs {
		a, b := gen.Generate(c.ID, d), gen.Generate(c.ID, d+1)
		if a1, a2 := gen.Generate(idIn1, d), gen.Generate(idIn2, d); a1 != a || a2 != a {
			return fmt.Errorf("Generate(%q,%d) = %d, but %d and %d for the same id value held inside larger strings", c.ID, d, a, a1, a2)
		}
		if b2 := gen.Generate(idIn2, d+1); a > b2 {
			return fmt.Errorf("Generate(%q,%d)=%d > Generate(the same id in other memory,%d)=%d", c.ID, d, a, d+1, b2)
		}
		if a > b {
			return fmt.Errorf("Generate(%q,%d)=%d > Generate(..,%d)=%d", c.ID, d, a, d+1, b)
		}
		for _, dd := range []int{d, d + 1} {
			v, lo, hi := gen.Generate(c.ID, dd), gen.Min(dd), gen.Max(dd)
			if v < lo || v > hi {
				return fmt.Errorf("Generate(%q,%d)=%d outside [Min %d, Max %d]", c.ID, dd, v, lo, hi)
			}
		}
		for _, ru := range c.Rules {
			if d+1 == ru[0] || d == ru[0] {
				boundary = true
			}
		}
	}
	r.NonTrivialIf(boundary && len(c.Rules) >= 2)
	r.ClassIf(boundary, "elapsed on a rule boundary")
	return nil
}

// ---------------------------------------------------------------- package-level defaults (Id, String)

type defCase struct {
	N       int
	Charset string // "" keeps the current default set
}

func genDef(t *rapid.T) defCase {
	c := defCase{N: rapid.IntRange(0, 120).Draw(t, "n")}
	if rapid.IntRange(0, 3).Draw(t, "setCharset") == 0 {
		c.Charset = rapid.SampledFrom([]string{randz.CHAR_SET, randz.CHAR_LOWER_SET, "ab", "x", "日本語かな", "0123456789abcdefghijklmnopqrstuvwxyzABCDEFGHIJKLMNOPQRSTUVWXYZ_-+"}).Draw(t, "charset")
	}
	return c
}

var currentDefault = randz.CHAR_SET

func runDef(c defCase, r *pb.Rec) error {
	if c.N < 0 || c.N > 10000 {
		return nil
	}
	if c.Charset != "" {
		randz.SetStrGeneratorCharSet(c.Charset)
		currentDefault = c.Charset
	}
	s := randz.String(c.N)
	if n := utf8.RuneCountInString(s); n != c.N {
		return fmt.Errorf("randz.String(%d) returned %d runes (%q) with charset %q", c.N, n, s, currentDefault)
	}
	for _, ch := range s {
		if !strings.ContainsRune(currentDefault, ch) {
			return fmt.Errorf("randz.String(%d) produced %q which is not in the configured charset %q", c.N, ch, currentDefault)
		}
	}
	// default id generator: start time 2023-02-27 00:30 UTC, 18 random bits
	start := time.Date(2023, 2, 27, 0, 30, 0, 0, time.UTC)
	before := time.Since(start).Milliseconds()
	id := randz.Id()
	after := time.Since(start).Milliseconds()
	if id < 0 {
		return fmt.Errorf("randz.Id() = %d is negative", id)
	}
	if ts := int64(id) >> 18; ts < before || ts > after {
		return fmt.Errorf("randz.Id() carries timestamp %d, elapsed milliseconds were in [%d,%d]", ts, before, after)
	}
	back, err := randz.ParseBase32([]byte(id.Base32()))
	if err != nil || back != id {
		return fmt.Errorf("ParseBase32(Id().Base32()) = %d,%v want %d", back, err, id)
	}
	r.NonTrivialIf(c.N > 0)
	r.ClassIf(c.Charset != "", "default charset replaced")
	return nil
}

func init() {
	pb.Register("id_numerals", pb.Options{Twins: 3, Base: 10000, Rule: "IDs from boundaries (32^k±1, 2^63-1) and uniform over bit-lengths; non-trivial = id >= 32 (multi-digit)"}, genID, runID)
	pb.Register("parse_base32", pb.Options{Twins: 3, Base: 15000, Required: []string{"one illegal byte >= 32", "valid string"}, Rule: "byte strings of length 0..14 mixing alphabet digits, look-alike and arbitrary bytes; non-trivial = exactly one illegal byte and it is >= 32"}, genParse, runParse)
	pb.RegisterReplay("parse_base32_substitution", func(raw json.RawMessage) error {
		var c parseCase
		if err := json.Unmarshal(raw, &c); err != nil {
			return err
		}
		return runParse(c, &pb.Rec{})
	})
	pb.Register("idgen", pb.Options{Base: 150, Required: []string{"randBit<=1", "randBit>22", "entropy source fails (fallback path)", "elapsed beyond the 41-bit time field: non-negativity only"}, Rule: "randBit -3..40, start time up to 60 years ago and at 2^41 ms -100 s (all clauses) / beyond 2^41 ms up to 285 years (non-negativity only), 1-4 ids with clock-bracketed >=1ms gaps; non-trivial = non-default randBit and non-zero elapsed time"}, genIdgen, runIdgen)
	pb.Register("strgen", pb.Options{Twins: 3, Base: 8000, Required: []string{"charset size not a power of two", "multi-byte charset", "n=0", "charset of fewer than 256 runes whose encoding is >= 256 bytes", "charset of >= 256 runes", "charset of >= 65536 runes"}, Rule: "duplicate-free charsets of sizes around powers of two (1..70 runes, and 85..70000 runes in a quarter of the cases; ASCII, two-, three-, four-byte members or mixed width), n 0..200 and 255..5000, PRNG source optionally preceded by adversarial words; non-trivial = n>0 and charset size not a power of two"}, genStrgen, runStrgen)
	pb.Register("package_defaults", pb.Options{Base: 3000, Required: []string{"default charset replaced"}, Rule: "randz.String(n) with the default and replaced default charsets (SetStrGeneratorCharSet), randz.Id() bracketed by clock reads against the default start time, Base32 round trip of generated ids; non-trivial = n > 0"}, genDef, runDef)
	pb.Register("countgen", pb.Options{Twins: 3, Base: 8000, Required: []string{"elapsed on a rule boundary"}, Rule: "1-5 rules with positive parameters, elapsed times on every rule boundary ±2 and drawn in between; non-trivial = >= 2 rules and a boundary probed"}, genCount, runCount)
}
