package c20

// The package-level conveniences of randz (String, SetStrGeneratorCharSet, Id) keep their generators in package
// variables. Each call order below is executed as the first use of the package in a fresh process (see pb.FirstOps).

import (
	"fmt"
	"math/rand"
	"strings"
	"testing"
	"unicode/utf8"

	"github.com/welllog/golib/randz"

	"verif/harness/internal/pb"
)

func allFrom(s, set string) bool {
	for _, r := range s {
		if !strings.ContainsRune(set, r) {
			return false
		}
	}
	return true
}

func TestFirstOps(t *testing.T) {
	ops := map[string]func() error{
		"SetStrGeneratorCharSet before the first String": func() error {
			set := "αβγ01"
			randz.SetStrGeneratorCharSet(set)
			for i := 0; i < 20; i++ {
				if s := randz.String(7); utf8.RuneCountInString(s) != 7 || !allFrom(s, set) {
					return fmt.Errorf("after SetStrGeneratorCharSet(%q) as the first call, String(7) = %q", set, s)
				}
			}
			return nil
		},
		"String with the default set, then SetStrGeneratorCharSet": func() error {
			if s := randz.String(9); utf8.RuneCountInString(s) != 9 || !allFrom(s, randz.CHAR_SET) {
				return fmt.Errorf("String(9) with the default set = %q", s)
			}
			randz.SetStrGeneratorCharSet("xy")
			for i := 0; i < 20; i++ {
				if s := randz.String(5); utf8.RuneCountInString(s) != 5 || !allFrom(s, "xy") {
					return fmt.Errorf("after SetStrGeneratorCharSet(\"xy\"), String(5) = %q", s)
				}
			}
			return nil
		},
		"Id": func() error {
			prev := randz.ID(-1)
			for i := 0; i < 50; i++ {
				id := randz.Id()
				if id < 0 {
					return fmt.Errorf("Id() = %d", id)
				}
				if p, err := randz.ParseBase32([]byte(id.Base32())); err != nil || p != id {
					return fmt.Errorf("ParseBase32(Id().Base32()) = %d, %v want %d", p, err, id)
				}
				prev = id
			}
			_ = prev
			return nil
		},
		"NewStrGenerator": func() error {
			g := randz.NewStrGenerator("ab好", rand.NewSource(7))
			if s := g.Generate(11); utf8.RuneCountInString(s) != 11 || !allFrom(s, "ab好") {
				return fmt.Errorf("NewStrGenerator(\"ab好\").Generate(11) = %q", s)
			}
			return nil
		},
	}
	names := []string{"SetStrGeneratorCharSet before the first String", "String with the default set, then SetStrGeneratorCharSet", "Id", "NewStrGenerator"}
	pb.Stats("first_operation_in_a_process").SetRule("call orders of the package-level conveniences (SetStrGeneratorCharSet before / after the first String, Id, an own StrGenerator), each as the first use of the package in a freshly started process (the test binary re-executes itself once per order); oracle: rune count and character-set membership, ids non-negative and Base32 round trip; the list is enumerated completely")
	pb.FirstOps(t, "first_operation_in_a_process", "TestFirstOps", names, ops)
}
