// C07 — Backslash escape codecs round-trip and parse any input safely.
package c07

import (
	"bytes"
	"encoding/json"
	"fmt"
	"regexp"
	"strings"
	"testing"
	"unicode/utf16"
	"unicode/utf8"

	"github.com/welllog/golib/strz"
	"pgregory.net/rapid"

	"verif/harness/internal/g"
	"verif/harness/internal/pb"
)

func TestMain(m *testing.M)   { pb.Main(m) }
func TestProps(t *testing.T)  { pb.RunProps(t) }
func TestReplay(t *testing.T) { pb.RunReplay(t) }

type codec struct {
	name       string
	format     func([]byte) []byte
	formatS    func(string) []byte
	formatStr  func([]byte) string
	formatStrS func(string) string
	parse      func(dst, src []byte) int
	parseStr   func(string) string
	parseStrB  func([]byte) string
	// the same entry points instantiated with defined types (the constraints are ~string | ~[]byte)
	parseStrN  func(nstr) string
	parseStrNB func(nbytes) string
	formatN    func(nstr) []byte
	formatStrN func(nbytes) string
	shape      *regexp.Regexp
	unicode    bool
	tokens     []string
}

type nstr string
type nbytes []byte

var codecs = []codec{
	{name: "octal", format: strz.OctalFormat[[]byte], formatS: strz.OctalFormat[string], formatStr: strz.OctalFormatToString[[]byte], formatStrS: strz.OctalFormatToString[string], parse: strz.OctalParse, parseStr: strz.OctalParseToString[string], parseStrB: strz.OctalParseToString[[]byte], parseStrN: strz.OctalParseToString[nstr], parseStrNB: strz.OctalParseToString[nbytes], formatN: strz.OctalFormat[nstr], formatStrN: strz.OctalFormatToString[nbytes],
		shape:  regexp.MustCompile(`^(\\[0-7]{3})*$`),
		tokens: []string{`\`, `\\`, `\1`, `\10`, `\101`, `\377`, `\400`, `\777`, `\000`, `\18`, `\1a1`, `\8`, `1`, `01`, `7`, `8`, `a`, `x`, ` `, "\xff", `\12\`, `\141`, `\0`, `\00`},
	},
	{name: "hex", format: strz.HexFormat[[]byte], formatS: strz.HexFormat[string], formatStr: strz.HexFormatToString[[]byte], formatStrS: strz.HexFormatToString[string], parse: strz.HexParse, parseStr: strz.HexParseToString[string], parseStrB: strz.HexParseToString[[]byte], parseStrN: strz.HexParseToString[nstr], parseStrNB: strz.HexParseToString[nbytes], formatN: strz.HexFormat[nstr], formatStrN: strz.HexFormatToString[nbytes],
		shape:  regexp.MustCompile(`^(\\x[0-9A-F]{2})*$`),
		tokens: []string{`\`, `\\`, `\x`, `\x4`, `\x41`, `\xff`, `\xFF`, `\x00`, `\xG1`, `\x4G`, `\X41`, `x`, `x41`, `4`, `41`, `f`, `g`, ` `, "\xff", `\x\`, `\x4\`, `\x7a`, `\x_1`, `\x+1`},
	},
	{name: "unicode", unicode: true, format: strz.UnicodeFormat[[]byte], formatS: strz.UnicodeFormat[string], formatStr: strz.UnicodeFormatToString[[]byte], formatStrS: strz.UnicodeFormatToString[string], parse: strz.UnicodeParse, parseStr: strz.UnicodeParseToString[string], parseStrB: strz.UnicodeParseToString[[]byte], parseStrN: strz.UnicodeParseToString[nstr], parseStrNB: strz.UnicodeParseToString[nbytes], formatN: strz.UnicodeFormat[nstr], formatStrN: strz.UnicodeFormatToString[nbytes],
		shape:  regexp.MustCompile(`^(\\U[0-9A-F]{8})*$`),
		tokens: []string{`\`, `\\`, `\U`, `\U0011`, `\U0000004`, `\U00000041`, `\U0001F600`, `\U0010FFFF`, `\U00110000`, `\UFFFFFFFF`, `\U0000D800`, `\U0000FFFD`, `\U000000e9`, `\U0000G041`, `\U0000004G`, `\u00000041`, `U`, `0`, `00000041`, `F`, "\xff", `\U0000\`, `\U1F600`, `日`},
	},
	{name: "utf16", unicode: true, format: strz.Utf16Format[[]byte], formatS: strz.Utf16Format[string], formatStr: strz.Utf16FormatToString[[]byte], formatStrS: strz.Utf16FormatToString[string], parse: strz.Utf16Parse, parseStr: strz.Utf16ParseToString[string], parseStrB: strz.Utf16ParseToString[[]byte], parseStrN: strz.Utf16ParseToString[nstr], parseStrNB: strz.Utf16ParseToString[nbytes], formatN: strz.Utf16Format[nstr], formatStrN: strz.Utf16FormatToString[nbytes],
		shape:  regexp.MustCompile(`^(\\u[0-9A-F]{4})*$`),
		tokens: []string{`\`, `\\`, `\u`, `\u00`, `\u004`, `\` + `u0041`, `\uD83D`, `\uDE00`, `\uD800`, `\uDBFF`, `\uDC00`, `\uDFFF`, `\` + `uFFFD`, `\` + `uFFFF`, `\ud83d`, `\ude00`, `\uG041`, `\u004G`, `\U0041`, `u`, `0041`, `D`, "\xff", `\uD8\`, `\uD83D\`, `\` + `u00E9`, `\` + `u65E5`, `e`},
	},
}

// ---------------------------------------------------------------- (i)+(ii) round trip and shape

type rtCase struct {
	Codec int
	S     g.B
}

func genRT(t *rapid.T) rtCase {
	c := rapid.IntRange(0, 3).Draw(t, "codec")
	var s string
	if codecs[c].unicode {
		if rapid.IntRange(0, 3).Draw(t, "invalid") == 0 {
			s = g.Bytes(12).Draw(t, "bytes")
		} else {
			s = g.UTF8(16).Draw(t, "utf8")
		}
	} else {
		s = string(rapid.SliceOfN(rapid.Byte(), 0, 24).Draw(t, "raw"))
	}
	return rtCase{c, []byte(s)}
}

func runRT(c rtCase, r *pb.Rec) error {
	cd := codecs[c.Codec]
	in := append([]byte(nil), c.S...)
	enc := cd.format(in)
	if !bytes.Equal(in, c.S) {
		return fmt.Errorf("%s Format modified its input", cd.name)
	}
	if e2 := cd.formatS(string(c.S)); !bytes.Equal(enc, e2) {
		return fmt.Errorf("%s Format differs for string and []byte: %q vs %q", cd.name, enc, e2)
	}
	e3 := cd.formatStr(c.S)
	e3keep, encKeep := strings.Clone(e3), append([]byte(nil), enc...)
	_ = cd.formatStr(append([]byte("\x01other"), c.S...))
	_ = cd.format(append([]byte("\x02other"), c.S...))
	if e3 != e3keep || !bytes.Equal(enc, encKeep) {
		return fmt.Errorf("%s Format(%q): a result handed out earlier changed after a later call", cd.name, c.S)
	}
	if e3 != string(enc) {
		return fmt.Errorf("%s FormatToString differs: %q vs %q", cd.name, e3, enc)
	}
	if e9 := cd.formatStrS(g.Window(string(c.S), len(c.S))); e9 != string(enc) {
		return fmt.Errorf("%s FormatToString differs for a string argument (a window into a larger string): %q vs %q", cd.name, e9, enc)
	}
	{
		// the caller's buffer is a window into a larger array and is reused after the call: neighbours untouched,
		// results unaffected by what the caller does with its own memory afterwards
		win, intact := g.WindowBytes(c.S, len(c.S)+1)
		e10, e11 := cd.formatStr(win), cd.format(win)
		if err := intact(); err != nil {
			return fmt.Errorf("%s Format(%q): %v", cd.name, c.S, err)
		}
		for i := range win {
			win[i] = '\\' + byte(i)
		}
		if e10 != string(enc) || string(e11) != string(enc) {
			return fmt.Errorf("%s Format of a []byte argument: results %q / %q (want %q) after the caller reused its buffer", cd.name, e10, e11, enc)
		}
	}
	// the same bytes in a slice with spare capacity (also: length 0 with capacity > 0, the shape of buf[:0])
	roomy := append(make([]byte, 0, len(c.S)+5), c.S...)
	if e6, e7 := cd.format(roomy), cd.formatStr(roomy); string(e6) != string(enc) || e7 != string(enc) {
		return fmt.Errorf("%s Format differs for a slice with spare capacity (len %d cap %d) holding %q: %q / %q vs %q", cd.name, len(roomy), cap(roomy), c.S, e6, e7, enc)
	}
	if e4, e5 := cd.formatN(nstr(c.S)), cd.formatStrN(nbytes(c.S)); string(e4) != string(enc) || e5 != string(enc) {
		return fmt.Errorf("%s Format differs for defined string/[]byte types on %q: %q / %q vs %q", cd.name, c.S, e4, e5, enc)
	}
	if !cd.shape.Match(enc) {
		return fmt.Errorf("%s Format(%q) = %q: not a sequence of fixed-width upper-case escapes", cd.name, c.S, enc)
	}
	want := c.S
	units := len(c.S)
	if cd.unicode {
		rs := []rune(string(c.S)) // every invalid byte becomes U+FFFD
		want = []byte(string(rs))
		units = len(rs)
		if cd.name == "utf16" {
			units = len(utf16.Encode(rs))
			// surrogate pairing: decode the units and compare
			var u []uint16
			for i := 0; i+6 <= len(enc); i += 6 {
				var v uint16
				fmt.Sscanf(string(enc[i+2:i+6]), "%04X", &v)
				u = append(u, v)
			}
			if string(utf16.Decode(u)) != string(rs) {
				return fmt.Errorf("utf16 Format(%q) = %q: wrong code units", c.S, enc)
			}
			for i := 0; i < len(u); i++ {
				if utf16.IsSurrogate(rune(u[i])) {
					if u[i] >= 0xdc00 || i+1 >= len(u) || u[i+1] < 0xdc00 || u[i+1] > 0xdfff {
						return fmt.Errorf("utf16 Format(%q) = %q: unpaired surrogate", c.S, enc)
					}
					i++
				}
			}
		}
	}
	width := map[string]int{"octal": 4, "hex": 4, "unicode": 10, "utf16": 6}[cd.name]
	if len(enc) != units*width {
		return fmt.Errorf("%s Format(%q): %d bytes, want %d escapes of width %d", cd.name, c.S, len(enc), units, width)
	}
	dst := make([]byte, len(enc))
	n := cd.parse(dst, enc)
	if n > len(enc) || !bytes.Equal(dst[:n], want) {
		return fmt.Errorf("%s Parse(Format(%q)) = %q want %q", cd.name, c.S, dst[:n], want)
	}
	if got := cd.parseStr(string(enc)); got != string(want) {
		return fmt.Errorf("%s ParseToString(Format(%q)) = %q want %q", cd.name, c.S, got, want)
	}
	if len(c.S) > 0 && (len(c.S)*7+c.Codec)%37 == 0 {
		// texts of one length (>= 64 bytes) and different content, each allocated, formatted, parsed back and dropped,
		// with a garbage collection before the next one is allocated at (usually) the same address
		unit := []rune(string(want))
		if len(unit) > 0 {
			r.Class("same-length texts in recycled memory, a collection between calls")
			if err := g.Recycle(4, func(i int) error {
				k := (i + 1) % len(unit)
				rot := string(append(append(make([]rune, 0, len(unit)), unit[k:]...), unit[:k]...))
				v := strings.Repeat(rot, 64/len(rot)+1)
				back := cd.parseStr(cd.formatStrS(v))
				if back != v {
					return fmt.Errorf("%s ParseToString(FormatToString(text %d of a series of same-length texts in recycled memory, %d bytes: %.40q...)) = %.40q...", cd.name, i, len(v), v, back)
				}
				if b2 := cd.parseStr(string(cd.formatS(v))); b2 != v {
					return fmt.Errorf("%s ParseToString(Format(text %d of a series of same-length texts in recycled memory)) differs from the text", cd.name, i)
				}
				return nil
			}); err != nil {
				return err
			}
		}
	}
	valid := utf8.Valid(c.S)
	r.ClassIf(!valid && cd.unicode, "invalid byte -> U+FFFD")
	astral := false
	for _, x := range string(want) {
		astral = astral || x > 0xffff
	}
	r.ClassIf(cd.name == "utf16" && astral, "surrogate pair")
	r.NonTrivialIf(len(c.S) >= 2)
	return nil
}

// ---------------------------------------------------------------- (iii) totality on hostile token sequences

type tokCase struct {
	Codec int
	Toks  []int
	Extra g.B // raw bytes appended (arbitrary)
}

func genTok(t *rapid.T) tokCase {
	c := rapid.IntRange(0, 3).Draw(t, "codec")
	n := len(codecs[c].tokens)
	return tokCase{Codec: c, Toks: rapid.SliceOfN(rapid.IntRange(0, n-1), 0, 12).Draw(t, "toks"),
		Extra: rapid.SliceOfN(rapid.Byte(), 0, 4).Draw(t, "extra")}
}

func (c tokCase) input() []byte {
	var b []byte
	for _, i := range c.Toks {
		b = append(b, codecs[c.Codec].tokens[i]...)
	}
	return append(b, c.Extra...)
}

func checkTotal(cd codec, in []byte) error {
	src := append([]byte(nil), in...)
	dst := make([]byte, len(src))
	n := cd.parse(dst, src)
	if n < 0 || n > len(in) {
		return fmt.Errorf("%s Parse(%q) returned n=%d > len %d", cd.name, in, n, len(in))
	}
	if !bytes.Equal(src, in) {
		return fmt.Errorf("%s Parse(%q) modified src", cd.name, in)
	}
	s := cd.parseStr(string(in))
	if s != string(dst[:n]) {
		return fmt.Errorf("%s Parse(dst,%q)=%q but ParseToString=%q", cd.name, in, dst[:n], s)
	}
	// a result handed out earlier must not change when the library is called again (no shared or pooled buffers)
	keep := strings.Clone(s)
	other := append([]byte("zz"), in...)
	for i, j := 0, len(other)-1; i < j; i, j = i+1, j-1 {
		other[i], other[j] = other[j], other[i]
	}
	_ = cd.parseStr(string(other))
	_ = cd.parseStrB(other)
	// ... also by calls whose input is not longer than this one (a recycled buffer of this call would fit them)
	_ = cd.parseStr(strings.Repeat("#", len(in)))
	_ = cd.parseStrB(bytes.Repeat([]byte("%"), len(in)/2))
	_ = cd.parseStr(string(other[:len(other)/2]))
	if s != keep {
		return fmt.Errorf("%s ParseToString(%q): the returned string changed from %q to %q after a later call", cd.name, in, keep, s)
	}
	{
		win, intact := g.WindowBytes(in, len(in))
		s6 := cd.parseStrB(win)
		if err := intact(); err != nil {
			return fmt.Errorf("%s ParseToString(%q): %v", cd.name, in, err)
		}
		for i := range win {
			win[i] = 'z' - byte(i%7)
		}
		if s6 != s {
			return fmt.Errorf("%s ParseToString of a []byte argument %q: result %q (want %q) after the caller reused its buffer", cd.name, in, s6, s)
		}
		if s7 := cd.parseStr(g.Window(string(in), len(in)+3)); s7 != s {
			return fmt.Errorf("%s ParseToString(%q) = %q for the text as a window into a larger string, %q otherwise", cd.name, in, s7, s)
		}
		dwin, dintact := g.WindowBytes(make([]byte, len(in)), len(in)+2)
		if n2 := cd.parse(dwin, in); n2 != n || string(dwin[:n2]) != string(dst[:n]) {
			return fmt.Errorf("%s Parse into a destination that is a window into a larger array: n=%d %q, want n=%d %q", cd.name, n2, dwin[:max(0, min(n2, len(dwin)))], n, dst[:n])
		}
		if err := dintact(); err != nil {
			return fmt.Errorf("%s Parse(dst, %q): destination: %v", cd.name, in, err)
		}
	}
	if s2 := cd.parseStrB(in); s2 != s {
		return fmt.Errorf("%s ParseToString differs for string and []byte input %q: %q vs %q", cd.name, in, s, s2)
	}
	if s5 := cd.parseStrB(append(make([]byte, 0, len(in)+5), in...)); s5 != s {
		return fmt.Errorf("%s ParseToString differs for a slice with spare capacity holding %q: %q vs %q", cd.name, in, s5, s)
	}
	if s3, s4 := cd.parseStrN(nstr(in)), cd.parseStrNB(nbytes(in)); s3 != s || s4 != s {
		return fmt.Errorf("%s ParseToString differs for defined string/[]byte types on input %q: %q / %q vs %q", cd.name, in, s3, s4, s)
	}
	if bytes.IndexByte(in, '\\') < 0 && s != string(in) {
		return fmt.Errorf("%s Parse(%q) = %q: backslash-free input changed", cd.name, in, s)
	}
	return nil
}

func runTok(c tokCase, r *pb.Rec) error {
	cd := codecs[c.Codec]
	in := c.input()
	if err := checkTotal(cd, in); err != nil {
		return err
	}
	esc := 0
	for _, i := range c.Toks {
		if strings.HasPrefix(cd.tokens[i], `\`) {
			esc++
		}
	}
	r.NonTrivialIf(esc >= 2)
	if len(c.Toks) > 0 {
		last := cd.tokens[c.Toks[len(c.Toks)-1]]
		r.ClassIf(len(c.Extra) == 0 && strings.HasPrefix(last, `\`), "escape at end of input")
	}
	r.ClassIf(bytes.IndexByte(in, '\\') < 0, "backslash-free")
	return nil
}

// all sequences of <= K tokens, exhaustively
func TestExhaustive(t *testing.T) {
	K := 3
	if pb.Thorough() {
		K = 4
	}
	for ci, cd := range codecs {
		st := pb.Stats("tokens_exhaustive_" + cd.name)
		st.SetExhaustive(true)
		st.SetRule(fmt.Sprintf("all sequences of <= %d tokens from the %d-token hostile set of the %s parser (truncated escapes, wrong digits, out-of-range values, lone/reversed surrogates, escapes at end of input); oracle: no panic, n <= len(input), Parse == ParseToString, backslash-free => identity; non-trivial = >= 2 tokens starting with a backslash", K, len(cd.tokens), cd.name))
		idx := make([]int, 0, K)
		var rec func(depth int) bool
		rec = func(depth int) bool {
			c := tokCase{Codec: ci, Toks: idx}
			in := c.input()
			err := pb.Catch(func() {
				if e := checkTotal(cd, in); e != nil {
					panic(e)
				}
			})
			rc := &pb.Rec{}
			esc := 0
			for _, i := range idx {
				if cd.tokens[i][0] == '\\' {
					esc++
				}
			}
			rc.NonTrivialIf(esc >= 2)
			var key uint64 = uint64(ci) + 1
			for _, i := range idx {
				key = key*131 + uint64(i) + 1
			}
			st.CaseKey(key, rc, func() []byte { b, _ := json.Marshal(map[string]any{"codec": cd.name, "input": string(in)}); return b })
			if err != nil {
				js, _ := json.Marshal(tokCase{Codec: ci, Toks: append([]int(nil), idx...)})
				st.Violation("exhaustive", js, err)
				t.Errorf("%s: %v", cd.name, err)
				return false
			}
			if depth == K {
				return true
			}
			for i := range cd.tokens {
				idx = append(idx, i)
				ok := rec(depth + 1)
				idx = idx[:len(idx)-1]
				if !ok {
					return false
				}
			}
			return true
		}
		rec(0)
	}
}

// ---------------------------------------------------------------- (iv) well-formed escapes embedded between backslash-free text

type embCase struct {
	Codec int
	Lits  []g.B // len = len(Vals)+1, backslash-free
	Vals  []int // byte value / scalar value
}

func genEmb(t *rapid.T) embCase {
	c := rapid.IntRange(0, 3).Draw(t, "codec")
	n := rapid.IntRange(1, 5).Draw(t, "n")
	e := embCase{Codec: c}
	lit := rapid.Custom(func(t *rapid.T) []byte {
		k := rapid.IntRange(0, 4).Draw(t, "len")
		b := make([]byte, 0, k)
		for i := 0; i < k; i++ {
			var ch byte
			if rapid.Bool().Draw(t, "lookalike") {
				ch = rapid.SampledFrom([]byte("uUx0123456789abcdefABCDEFgG _/")).Draw(t, "c")
			} else {
				ch = rapid.Byte().Draw(t, "b")
			}
			if ch == '\\' {
				ch = '/'
			}
			b = append(b, ch)
		}
		return b
	})
	for i := 0; i <= n; i++ {
		e.Lits = append(e.Lits, lit.Draw(t, "lit"))
	}
	for i := 0; i < n; i++ {
		if codecs[c].unicode {
			e.Vals = append(e.Vals, int(g.Rune().Draw(t, "rune")))
		} else {
			e.Vals = append(e.Vals, rapid.IntRange(0, 255).Draw(t, "byte"))
		}
	}
	return e
}

func runEmb(c embCase, r *pb.Rec) error {
	cd := codecs[c.Codec]
	if len(c.Lits) != len(c.Vals)+1 {
		return nil
	}
	var in, want []byte
	pair := false
	for i, v := range c.Vals {
		if bytes.IndexByte(c.Lits[i], '\\') >= 0 {
			return nil
		}
		in = append(in, c.Lits[i]...)
		want = append(want, c.Lits[i]...)
		switch cd.name {
		case "octal":
			in = append(in, fmt.Sprintf(`\%03o`, v&255)...)
			want = append(want, byte(v))
		case "hex":
			in = append(in, fmt.Sprintf(`\x%02X`, v&255)...)
			want = append(want, byte(v))
		case "unicode":
			if !utf8.ValidRune(rune(v)) {
				return nil
			}
			in = append(in, fmt.Sprintf(`\U%08X`, v)...)
			want = utf8.AppendRune(want, rune(v))
		case "utf16":
			if !utf8.ValidRune(rune(v)) {
				return nil
			}
			if v > 0xffff {
				r1, r2 := utf16.EncodeRune(rune(v))
				in = append(in, fmt.Sprintf(`\u%04X\u%04X`, r1, r2)...)
				pair = true
			} else {
				in = append(in, fmt.Sprintf(`\u%04X`, v)...)
			}
			want = utf8.AppendRune(want, rune(v))
		}
	}
	last := c.Lits[len(c.Lits)-1]
	if bytes.IndexByte(last, '\\') >= 0 {
		return nil
	}
	in = append(in, last...)
	want = append(want, last...)
	if err := checkTotal(cd, in); err != nil {
		return err
	}
	if got := cd.parseStr(string(in)); got != string(want) {
		return fmt.Errorf("%s Parse(%q) = %q want %q", cd.name, in, got, want)
	}
	r.NonTrivialIf(len(c.Vals) >= 2)
	r.ClassIf(pair, "surrogate pair embedded")
	r.ClassIf(len(last) == 0, "escape at end of input")
	adj := false
	for i := 1; i < len(c.Lits)-1; i++ {
		adj = adj || len(c.Lits[i]) == 0
	}
	r.ClassIf(adj, "adjacent escapes")
	return nil
}

func init() {
	pb.Register("roundtrip_shape", pb.Options{Twins: 3, Base: 12000, Required: []string{"invalid byte -> U+FFFD", "surrogate pair"},
		Rule: "arbitrary byte strings (octal/hex), valid UTF-8 biased to width boundaries and strings with invalid bytes (\\U, \\u); oracle Parse(Format(s)) = s (invalid bytes -> U+FFFD), shape regexp, escape count, surrogate pairing; non-trivial = >= 2 input bytes"},
		genRT, runRT)
	pb.Register("tokens_random", pb.Options{Twins: 3, Base: 15000, Required: []string{"escape at end of input", "backslash-free"},
		Rule: "random sequences of up to 12 hostile tokens + up to 4 raw bytes; oracle no panic, n <= len, Parse == ParseToString (string and []byte), backslash-free => identity; non-trivial = >= 2 backslash tokens"},
		genTok, runTok)
	pb.Register("embedded", pb.Options{Twins: 3, Base: 12000, Required: []string{"surrogate pair embedded", "adjacent escapes", "escape at end of input"},
		Rule: "L0 E1 L1 ... En Ln with backslash-free literals (may look like digits / u / x / U, may be empty) and well-formed upper-case escapes (\\u: non-surrogate unit or high+low pair; \\U: scalar value); oracle: output = L0 dec(E1) L1 ...; non-trivial = >= 2 escapes"},
		genEmb, runEmb)
	pb.RegisterReplay("tokens_exhaustive_octal", replayTok)
	pb.RegisterReplay("tokens_exhaustive_hex", replayTok)
	pb.RegisterReplay("tokens_exhaustive_unicode", replayTok)
	pb.RegisterReplay("tokens_exhaustive_utf16", replayTok)
}

func replayTok(raw json.RawMessage) error {
	var c tokCase
	if err := json.Unmarshal(raw, &c); err != nil {
		return fmt.Errorf("BADREPLAY: %v", err)
	}
	return runTok(c, &pb.Rec{})
}

// native fuzz (thorough): totality of the four parsers and the round trip on arbitrary bytes
func FuzzEscapes(f *testing.F) {
	for _, cd := range codecs {
		for _, tk := range cd.tokens {
			f.Add([]byte(tk))
			f.Add([]byte("ab" + tk + "cd" + tk))
		}
	}
	f.Fuzz(func(t *testing.T, data []byte) {
		if len(data) > 300 {
			return
		}
		for ci, cd := range codecs {
			if err := checkTotal(cd, data); err != nil {
				t.Fatal(err)
			}
			if err := runRT(rtCase{Codec: ci, S: data}, nil); err != nil {
				t.Fatal(err)
			}
		}
	})
}
