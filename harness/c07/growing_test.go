package c07

// ParseToString called many times in one process with strictly growing inputs: whatever the functions keep
// between calls (a scratch buffer, a counter, a size estimate), every call whose input is longer than all
// inputs before it must still return the decoded text. A case makes 4200..9000 consecutive calls of one
// codec; input i is a backslash-free literal of i bytes followed by Format(S), so the expected result is
// known without the parser.

import (
	"fmt"
	"strings"

	"pgregory.net/rapid"

	"verif/harness/internal/g"
	"verif/harness/internal/pb"
)

type growCase struct {
	Codec int
	S     g.B
	Lit   byte
	Calls int
	Bytes bool // use the []byte instantiation
}

func genGrow(t *rapid.T) growCase {
	return growCase{Codec: rapid.IntRange(0, 3).Draw(t, "codec"), S: []byte(g.UTF8(4).Draw(t, "s")),
		Lit:   rapid.SampledFrom([]byte{'a', '0', '7', 'x', 'u', 'U', ' ', 'F'}).Draw(t, "lit"),
		Calls: rapid.SampledFrom([]int{4200, 4200, 6000, 9000}).Draw(t, "calls"), Bytes: rapid.Bool().Draw(t, "bytes")}
}

func runGrow(c growCase, r *pb.Rec) error {
	if c.Codec < 0 || c.Codec > 3 || c.Calls < 1 || c.Calls > 20000 || c.Lit == '\\' || len(c.S) > 64 {
		return nil
	}
	cd := codecs[c.Codec]
	tail := string(cd.format([]byte(c.S)))
	wantTail := string(c.S)
	if cd.unicode {
		wantTail = string([]rune(string(c.S)))
	}
	var held, heldWant string
	for i := 1; i <= c.Calls; i++ {
		lit := strings.Repeat(string(rune(c.Lit)), i)
		in, want := lit+tail, lit+wantTail
		var got string
		if c.Bytes {
			got = cd.parseStrB([]byte(in))
		} else {
			got = cd.parseStr(in)
		}
		if got != want {
			return fmt.Errorf("%s ParseToString, call %d of a run with strictly growing inputs (input of %d bytes: %d x %q + %q): got %d bytes %q..., want %d bytes ending %q",
				cd.name, i, len(in), i, c.Lit, tail, len(got), head(got, 24), len(want), wantTail)
		}
		if i == 7 || i == c.Calls/2 {
			held, heldWant = got, strings.Clone(want)
		}
		if held != heldWant {
			return fmt.Errorf("%s ParseToString: a result handed out at an earlier call changed after call %d", cd.name, i)
		}
	}
	r.NonTrivial()
	r.ClassIf(c.Calls > 4096, "more than 4096 consecutive calls with strictly growing inputs")
	r.ClassIf(c.Calls > 8192, "more than 8192 consecutive calls with strictly growing inputs")
	return nil
}

func head(s string, n int) string {
	if len(s) > n {
		return s[:n]
	}
	return s
}

func init() {
	pb.Register("parse_growing_inputs", pb.Options{Base: 40, Required: []string{"more than 4096 consecutive calls with strictly growing inputs"},
		Rule: "4200..9000 consecutive ParseToString calls of one codec in one process, input i = i literal bytes + Format(S): every input is longer than all before it; oracle: literal + S (invalid bytes -> U+FFFD), results handed out earlier stay unchanged; every case is non-trivial"},
		genGrow, runGrow)
}
