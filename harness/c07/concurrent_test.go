package c07

// Format/Parse are pure functions: a result must not depend on other goroutines using them at the same time.

import (
	"pgregory.net/rapid"

	"verif/harness/internal/g"
	"verif/harness/internal/pb"
)

type concCase struct{ Inputs []g.B } // bytes: JSON would not preserve invalid UTF-8 in strings

func genConc(t *rapid.T) concCase {
	c := concCase{}
	for _, s := range append(rapid.SliceOfN(g.Bytes(24), 2, 4).Draw(t, "inputs"), "", `\x41\101A\U00000041`, `abc\uD83Dxyz`, "plain text without escapes") {
		c.Inputs = append(c.Inputs, g.B(s))
	}
	return c
}

func runConc(c concCase, r *pb.Rec) error {
	if len(c.Inputs) > 16 {
		return nil
	}
	var names []string
	var fns []func(string) string
	for _, cd := range codecs {
		cd := cd
		names = append(names, cd.name+" FormatToString", cd.name+" ParseToString", cd.name+" ParseToString(Format)")
		fns = append(fns,
			func(s string) string { return cd.formatStr([]byte(s)) },
			func(s string) string { return cd.parseStr(s) },
			func(s string) string { return cd.parseStrB(cd.format([]byte(s))) })
	}
	var inputs []string
	for _, b := range c.Inputs {
		inputs = append(inputs, string(b))
	}
	if err := pb.SameConcurrently(names, fns, inputs, 8, 25); err != nil {
		return err
	}
	r.NonTrivial()
	return nil
}

func init() {
	pb.Register("concurrent_callers", pb.Options{Base: 100,
		Rule: "5..8 byte strings (random bytes, escapes of all four kinds, an unpaired surrogate escape, plain text); FormatToString, ParseToString and ParseToString(Format(s)) of the four codecs are first evaluated one call at a time, then 8 goroutines repeat all calls 25 times concurrently; oracle: every concurrent result equals the result of the same call made alone; every case is non-trivial"},
		genConc, runConc)
}
