// C18 — Knapsack, subset-sum solvers and maximal-clique enumeration are exact.
package c18

import (
	"fmt"
	"math"
	"math/bits"
	"sort"
	"testing"

	"github.com/welllog/golib/algz"
	"pgregory.net/rapid"

	"verif/harness/internal/g"
	"verif/harness/internal/pb"
)

func TestMain(m *testing.M)   { pb.Main(m) }
func TestProps(t *testing.T)  { pb.RunProps(t) }
func TestReplay(t *testing.T) { pb.RunReplay(t) }

type item struct{ ID, W, V int }

// the code under test iterates Go maps: every case is executed several times
func reps() int {
	if pb.Thorough() {
		return 5
	}
	return 5
}

var replayReps = 0 // set by TestReplay through env in runX when > 0

type knapCase struct {
	Items   []item
	Limit   int
	Breaker int // 0 none, 1..3 deterministic tie-breakers
	Salt    int
	VMul    int // every value is multiplied by this (0 and 1: as drawn); totals stay below 2^62
}

var valueScales = func() []int {
	small := []int{1, 1, 1, 1, 1, 1000, 1 << 15, 1<<16 + 1, 1 << 24}
	if math.MaxInt == math.MaxInt32 { // 32-bit int: totals (at most 96 times the scale) stay below 2^31
		return small
	}
	return append(small, g.FitInt([]int64{1 << 28, 1<<31 - 1, 1 << 31, 1<<32 + 1, 1 << 40, 1 << 55})...)
}()

func genItems(t *rapid.T, maxN int, zeroW bool) []item {
	n := rapid.OneOf(rapid.IntRange(0, 6), rapid.IntRange(0, maxN)).Draw(t, "n")
	its := make([]item, n)
	lo := 1
	if zeroW {
		lo = 0
	}
	for i := range its {
		its[i] = item{ID: i + 1, W: rapid.IntRange(lo, 6).Draw(t, "w"), V: rapid.OneOf(rapid.IntRange(1, 3), rapid.IntRange(1, 6)).Draw(t, "v")}
	}
	return its
}

func maxN() int {
	if pb.Thorough() {
		return 14
	}
	return 12
}

func genKnap(t *rapid.T) knapCase {
	its := genItems(t, maxN(), true)
	sum := 0
	for _, it := range its {
		sum += it.W
	}
	return knapCase{Items: its, Limit: rapid.IntRange(0, sum+2).Draw(t, "limit"), Breaker: rapid.IntRange(0, 4).Draw(t, "breaker"), Salt: rapid.IntRange(0, 1000).Draw(t, "salt"), VMul: rapid.SampledFrom(valueScales).Draw(t, "vmul")}
}

// deterministic tie-breakers: functions of the two candidate lists and a salt only
func breaker(kind, salt int, replaced *bool) func(old, new []item) bool {
	h := func(s []item) int {
		x := salt
		for _, it := range s {
			x = x*31 + it.ID
		}
		return x & 0xffff
	}
	switch kind {
	case 1:
		return func(old, new []item) bool { r := len(new) < len(old); *replaced = *replaced || r; return r }
	case 2:
		return func(old, new []item) bool { r := h(new) < h(old); *replaced = *replaced || r; return r }
	case 3:
		return func(old, new []item) bool { r := (h(new)+h(old))%2 == 0; *replaced = *replaced || r; return r }
	case 4:
		// a tie-breaker that puts both candidates into a canonical order before comparing them (it reorders the
		// slices it is given; nothing in the documentation forbids that)
		return func(old, new []item) bool {
			sort.Slice(old, func(i, j int) bool { return old[i].ID > old[j].ID })
			sort.Slice(new, func(i, j int) bool { return new[i].ID > new[j].ID })
			r := h(new) < h(old)
			*replaced = *replaced || r
			return r
		}
	}
	return nil
}

func checkSelection(sel []item, all []item) (w, v int, err error) {
	byID := map[int]item{}
	for _, it := range all {
		byID[it.ID] = it
	}
	seen := map[int]bool{}
	for _, it := range sel {
		orig, ok := byID[it.ID]
		if !ok || orig != it {
			return 0, 0, fmt.Errorf("selection contains %+v which is not an input item", it)
		}
		if seen[it.ID] {
			return 0, 0, fmt.Errorf("item %d used twice", it.ID)
		}
		seen[it.ID] = true
		w += it.W
		v += it.V
	}
	return
}

func runKnap(c knapCase, r *pb.Rec) error {
	if len(c.Items) > 16 || c.Limit < 0 || c.Limit > 200 {
		return nil
	}
	mul := max(c.VMul, 1)
	for _, it := range c.Items {
		if it.W < 0 || it.V < 1 || it.V > 8 || int64(mul) > 1<<55 {
			return nil
		}
	}
	// brute force optimum
	best := 0
	n := len(c.Items)
	for m := 0; m < 1<<n; m++ {
		w, v := 0, 0
		for i := 0; i < n; i++ {
			if m>>i&1 == 1 {
				w += c.Items[i].W
				v += c.Items[i].V
			}
		}
		if w <= c.Limit && v > best {
			best = v
		}
	}
	replaced := false
	for rep := 0; rep < reps(); rep++ {
		items := append([]item(nil), c.Items...)
		var sel []item
		wf, vf := func(it item) int { return it.W }, func(it item) int { return it.V * mul }
		if c.Breaker == 0 {
			sel = algz.Knapsack(c.Limit, items, wf, vf)
		} else {
			sel = algz.Knapsack(c.Limit, items, wf, vf, breaker(c.Breaker, c.Salt, &replaced))
		}
		w, v, err := checkSelection(sel, c.Items)
		if err != nil {
			return fmt.Errorf("Knapsack(limit %d, %+v, breaker %d): %v (selection %+v)", c.Limit, c.Items, c.Breaker, err, sel)
		}
		if w > c.Limit {
			return fmt.Errorf("Knapsack(limit %d, %+v): selection %+v weighs %d", c.Limit, c.Items, sel, w)
		}
		if v != best {
			return fmt.Errorf("Knapsack(limit %d, %+v with every value multiplied by %d, breaker %d): value %d x %d, optimum %d x %d (selection %+v)", c.Limit, c.Items, mul, c.Breaker, v, mul, best, mul, sel)
		}
		for i := range items {
			if items[i] != c.Items[i] {
				return fmt.Errorf("Knapsack modified its input")
			}
		}
	}
	ties := false
	for i := range c.Items {
		for j := i + 1; j < n; j++ {
			ties = ties || c.Items[i].V == c.Items[j].V || c.Items[i].W == c.Items[j].W
		}
	}
	heavy := false
	for _, it := range c.Items {
		heavy = heavy || it.W > c.Limit
	}
	r.ClassIf(replaced, "tie-breaker replaced")
	r.ClassIf(heavy, "item heavier than the limit")
	r.ClassIf(n == 0, "empty input")
	r.ClassIf(int64(best)*int64(mul) >= 1<<31, "optimum total value >= 2^31")
	r.ClassIf(best > 0 && int64(mul) >= 1<<40, "item values >= 2^40")
	r.NonTrivialIf(n >= 4 && ties && (replaced || c.Breaker == 0))
	return nil
}

// ---------------------------------------------------------------- FindDpSolvers / Best / BestAllowMinOverflow

type dpCase struct {
	Items    []item // V is the "value" summed by the solver
	Max      int
	Overflow bool
	Breaker  int
	Salt     int
	Queries  []int
}

func genDp(t *rapid.T) dpCase {
	its := genItems(t, maxN(), false)
	sum := 0
	for _, it := range its {
		sum += it.V
	}
	c := dpCase{Items: its, Max: rapid.IntRange(0, sum+2).Draw(t, "max"), Overflow: rapid.Bool().Draw(t, "overflow"), Breaker: rapid.IntRange(0, 4).Draw(t, "breaker"), Salt: rapid.IntRange(0, 1000).Draw(t, "salt")}
	c.Queries = rapid.SliceOfN(rapid.IntRange(0, c.Max), 0, 4).Draw(t, "queries")
	return c
}

func runDp(c dpCase, r *pb.Rec) error {
	n := len(c.Items)
	if n > 16 || c.Max < 0 || c.Max > 500 {
		return nil
	}
	for _, it := range c.Items {
		if it.V < 1 {
			return nil
		}
	}
	attain := map[int]bool{}
	minOver := -1
	for m := 0; m < 1<<n; m++ {
		s := 0
		for i := 0; i < n; i++ {
			if m>>i&1 == 1 {
				s += c.Items[i].V
			}
		}
		if s <= c.Max {
			attain[s] = true
		} else if minOver < 0 || s < minOver {
			minOver = s
		}
	}
	replaced := false
	for rep := 0; rep < reps(); rep++ {
		items := append([]item(nil), c.Items...)
		vf := func(it item) int { return it.V }
		var solvers algz.DpSolvers[item]
		if c.Breaker == 0 {
			solvers = algz.FindDpSolvers(c.Max, items, vf, c.Overflow)
		} else {
			solvers = algz.FindDpSolvers(c.Max, items, vf, c.Overflow, breaker(c.Breaker, c.Salt, &replaced))
		}
		where := fmt.Sprintf("FindDpSolvers(max %d, %+v, overflow %v, breaker %d)", c.Max, c.Items, c.Overflow, c.Breaker)
		for key, sel := range solvers {
			_, v, err := checkSelection(sel, c.Items)
			if err != nil {
				return fmt.Errorf("%s: key %d: %v (selection %+v)", where, key, err, sel)
			}
			if v != key {
				return fmt.Errorf("%s: key %d holds a selection summing to %d: %+v", where, key, v, sel)
			}
			if key > c.Max && !c.Overflow {
				return fmt.Errorf("%s: key %d above max without overflow", where, key)
			}
		}
		for s := range attain {
			if _, ok := solvers[s]; !ok {
				return fmt.Errorf("%s: attainable total %d is not a key (keys %v)", where, s, keys(solvers))
			}
		}
		if c.Overflow && minOver >= 0 {
			if _, ok := solvers[minOver]; !ok {
				return fmt.Errorf("%s: smallest attainable total above max, %d, is not a key (keys %v)", where, minOver, keys(solvers))
			}
		}
		// Best / BestAllowMinOverflow
		for _, m := range append(append([]int(nil), c.Queries...), c.Max) {
			if m > c.Max || m < 0 {
				continue
			}
			want := 0
			for s := range attain {
				if s <= m && s > want {
					want = s
				}
			}
			_, got, err := checkSelection(solvers.Best(m), c.Items)
			if err != nil || got != want {
				return fmt.Errorf("%s: Best(%d) sums to %d (%v), largest attainable <= %d is %d", where, m, got, err, m, want)
			}
		}
		sel := solvers.BestAllowMinOverflow(c.Max)
		_, got, err := checkSelection(sel, c.Items)
		if err != nil {
			return fmt.Errorf("%s: BestAllowMinOverflow: %v", where, err)
		}
		switch {
		case attain[c.Max]:
			if got != c.Max {
				return fmt.Errorf("%s: BestAllowMinOverflow(%d) sums to %d although %d is attainable", where, c.Max, got, c.Max)
			}
		case c.Overflow && minOver >= 0:
			if got != minOver {
				return fmt.Errorf("%s: BestAllowMinOverflow(%d) sums to %d, smallest overshoot is %d", where, c.Max, got, minOver)
			}
			r.Class("smallest overshoot returned")
		}
		// queries are reads: afterwards the table is what it was (every key an exact total, no key for an
		// unattainable total), and Best still answers from it
		for key, sel := range solvers {
			if _, v, err := checkSelection(sel, c.Items); err != nil || v != key {
				return fmt.Errorf("%s: after the Best/BestAllowMinOverflow queries key %d holds a selection summing to %d (%v)", where, key, v, err)
			}
			if key <= c.Max && !attain[key] {
				return fmt.Errorf("%s: after the queries the table has a key %d that is not attainable", where, key)
			}
		}
		{
			want := 0
			for s := range attain {
				if s > want {
					want = s
				}
			}
			if _, got, err := checkSelection(solvers.Best(c.Max), c.Items); err != nil || got != want {
				return fmt.Errorf("%s: Best(%d) after BestAllowMinOverflow(%d) sums to %d (%v), largest attainable is %d", where, c.Max, c.Max, got, err, want)
			}
		}
		for i := range items {
			if items[i] != c.Items[i] {
				return fmt.Errorf("FindDpSolvers modified its input")
			}
		}
	}
	ties := false
	for i := range c.Items {
		for j := i + 1; j < n; j++ {
			ties = ties || c.Items[i].V == c.Items[j].V
		}
	}
	r.ClassIf(replaced, "tie-breaker replaced")
	r.ClassIf(c.Overflow && minOver >= 0, "overflow possible")
	r.ClassIf(n == 0, "empty input")
	r.NonTrivialIf(n >= 4 && ties && (replaced || c.Breaker == 0))
	return nil
}

func keys(m algz.DpSolvers[item]) []int {
	var ks []int
	for k := range m {
		ks = append(ks, k)
	}
	sort.Ints(ks)
	return ks
}

// ---------------------------------------------------------------- larger instances: independent table-DP oracles instead of brute force

type bigCase struct {
	Items    []item
	Limit    int
	Overflow bool
	Breaker  int
	Salt     int
}

func genBig(t *rapid.T) bigCase {
	if rapid.IntRange(0, 23).Draw(t, "manyItems") == 0 {
		// thousands of small items against a small limit: a single call recycles tens of thousands of candidate
		// selections (internal pools and counters wrap inside one call)
		n := rapid.SampledFrom([]int{700, 1800, 2600, 4000}).Draw(t, "nMany")
		its := make([]item, n)
		for i := range its {
			its[i] = item{ID: i + 1, W: rapid.IntRange(0, 6).Draw(t, "w"), V: rapid.IntRange(1, 7).Draw(t, "v")}
		}
		return bigCase{Items: its, Limit: rapid.SampledFrom([]int{25, 39, 60}).Draw(t, "limitMany"), Overflow: rapid.Bool().Draw(t, "overflow"), Breaker: rapid.SampledFrom([]int{2, 3, 3, 4}).Draw(t, "breaker"), Salt: rapid.IntRange(0, 1000).Draw(t, "salt")}
	}
	scale := rapid.SampledFrom([]int{8, 40, 300, 1000}).Draw(t, "scale")
	n := rapid.IntRange(8, 48).Draw(t, "n")
	its := make([]item, n)
	sumW, sumV := 0, 0
	for i := range its {
		its[i] = item{ID: i + 1, W: rapid.OneOf(rapid.IntRange(0, scale), rapid.IntRange(1, 4), rapid.SampledFrom([]int{255, 256, 257})).Draw(t, "w"),
			V: rapid.OneOf(rapid.IntRange(1, scale), rapid.IntRange(1, 3), rapid.SampledFrom([]int{127, 128, 255, 256, 65535, 65536})).Draw(t, "v")}
		sumW += its[i].W
		sumV += its[i].V
	}
	c := bigCase{Items: its, Overflow: rapid.Bool().Draw(t, "overflow"), Breaker: rapid.IntRange(0, 4).Draw(t, "breaker"), Salt: rapid.IntRange(0, 1000).Draw(t, "salt")}
	c.Limit = rapid.OneOf(rapid.IntRange(0, sumW+2), rapid.IntRange(0, sumW/4+1), rapid.SampledFrom([]int{255, 256, 257, 1023, 1024, 4095, 4096})).Draw(t, "limit")
	return c
}

func runBigKnap(c bigCase, r *pb.Rec) error {
	if len(c.Items) > 5000 || c.Limit < 0 || c.Limit > 60000 {
		return nil
	}
	for _, it := range c.Items {
		if it.W < 0 || it.V < 1 || it.W > 2000 {
			return nil
		}
	}
	// reference: classic table DP over (item prefix, weight), values only
	best := make([]int, c.Limit+1)
	for _, it := range c.Items {
		for w := c.Limit; w >= it.W; w-- {
			if v := best[w-it.W] + it.V; v > best[w] {
				best[w] = v
			}
		}
	}
	replaced := false
	items := append([]item(nil), c.Items...)
	wf, vf := func(it item) int { return it.W }, func(it item) int { return it.V }
	var sel []item
	if c.Breaker == 0 {
		sel = algz.Knapsack(c.Limit, items, wf, vf)
	} else {
		sel = algz.Knapsack(c.Limit, items, wf, vf, breaker(c.Breaker, c.Salt, &replaced))
	}
	w, v, err := checkSelection(sel, c.Items)
	if err != nil {
		return fmt.Errorf("Knapsack(limit %d, %d items, breaker %d): %v", c.Limit, len(c.Items), c.Breaker, err)
	}
	if w > c.Limit {
		return fmt.Errorf("Knapsack(limit %d, %d items): selection weighs %d", c.Limit, len(c.Items), w)
	}
	if v != best[c.Limit] {
		return fmt.Errorf("Knapsack(limit %d, %+v, breaker %d): value %d, optimum by table DP %d (selection %+v)", c.Limit, c.Items, c.Breaker, v, best[c.Limit], sel)
	}
	for i := range items {
		if items[i] != c.Items[i] {
			return fmt.Errorf("Knapsack modified its input")
		}
	}
	r.ClassIf(c.Limit >= 256, "limit >= 256")
	r.ClassIf(len(sel) >= 16, "selection of >= 16 items")
	r.ClassIf(replaced, "tie-breaker replaced")
	r.NonTrivialIf(len(sel) >= 4)
	return nil
}

func runBigDp(c bigCase, r *pb.Rec) error {
	if len(c.Items) > 5000 || c.Limit < 0 || c.Limit > 60000 {
		return nil
	}
	sum := 0
	for _, it := range c.Items {
		if it.V < 1 {
			return nil
		}
		sum += it.V
	}
	if sum > 4000000 {
		return nil
	}
	// here Limit plays the role of maxValue; the values are the item weights W+1 (smaller totals, denser sums)
	its := make([]item, len(c.Items))
	total := 0
	for i, it := range c.Items {
		its[i] = item{ID: it.ID, W: it.W, V: it.W + 1}
		total += it.W + 1
	}
	// reference: reachable subset sums (all of them, up to the grand total)
	reach := make([]bool, total+1)
	reach[0] = true
	for _, it := range its {
		for s := total; s >= it.V; s-- {
			if reach[s-it.V] {
				reach[s] = true
			}
		}
	}
	minOver := -1
	for s := c.Limit + 1; s <= total; s++ {
		if reach[s] {
			minOver = s
			break
		}
	}
	replaced := false
	items := append([]item(nil), its...)
	vf := func(it item) int { return it.V }
	var solvers algz.DpSolvers[item]
	if c.Breaker == 0 {
		solvers = algz.FindDpSolvers(c.Limit, items, vf, c.Overflow)
	} else {
		solvers = algz.FindDpSolvers(c.Limit, items, vf, c.Overflow, breaker(c.Breaker, c.Salt, &replaced))
	}
	where := fmt.Sprintf("FindDpSolvers(max %d, %d items (values = weights+1 of the case), overflow %v, breaker %d)", c.Limit, len(its), c.Overflow, c.Breaker)
	if len(its) <= 48 {
		where = fmt.Sprintf("FindDpSolvers(max %d, %+v, overflow %v, breaker %d)", c.Limit, its, c.Overflow, c.Breaker)
	}
	for key, sel := range solvers {
		_, v, err := checkSelection(sel, its)
		if err != nil {
			return fmt.Errorf("%s: key %d: %v", where, key, err)
		}
		if v != key {
			return fmt.Errorf("%s: key %d holds a selection summing to %d", where, key, v)
		}
		// C18 requires the smallest overshoot to be present, not that it is the only key above max: the
		// implementation keeps the earlier, larger overshoots it met on the way, and every such key is an exact total
		if key > c.Limit && !c.Overflow {
			return fmt.Errorf("%s: key %d above max without overflow", where, key)
		}
		if key > c.Limit {
			r.ClassIf(key != minOver, "further overshoot keys kept")
		}
	}
	want, attainable := 0, 0
	for s := 0; s <= c.Limit && s <= total; s++ {
		if reach[s] {
			want = s
			attainable++
			if _, ok := solvers[s]; !ok {
				return fmt.Errorf("%s: attainable total %d is not a key", where, s)
			}
		}
	}
	if c.Overflow && minOver >= 0 {
		if _, ok := solvers[minOver]; !ok {
			return fmt.Errorf("%s: smallest attainable total above max, %d, is not a key", where, minOver)
		}
	}
	if _, got, err := checkSelection(solvers.Best(c.Limit), its); err != nil || got != want {
		return fmt.Errorf("%s: Best(%d) sums to %d (%v), largest attainable is %d", where, c.Limit, got, err, want)
	}
	_, got, err := checkSelection(solvers.BestAllowMinOverflow(c.Limit), its)
	if err != nil {
		return fmt.Errorf("%s: BestAllowMinOverflow: %v", where, err)
	}
	switch {
	case c.Limit <= total && reach[c.Limit]:
		if got != c.Limit {
			return fmt.Errorf("%s: BestAllowMinOverflow sums to %d although %d is attainable", where, got, c.Limit)
		}
	case c.Overflow && minOver >= 0:
		if got != minOver {
			return fmt.Errorf("%s: BestAllowMinOverflow sums to %d, smallest overshoot is %d", where, got, minOver)
		}
		r.Class("smallest overshoot returned")
	}
	r.ClassIf(attainable >= 256, ">= 256 attainable totals")
	r.ClassIf(len(c.Items) >= 1800, ">= 1800 items in one call")
	r.ClassIf(replaced, "tie-breaker replaced")
	r.NonTrivialIf(attainable >= 32)
	return nil
}

// ---------------------------------------------------------------- maximal cliques

type graphCase struct {
	N       int
	Edges   [][2]int
	Order   []int // permutation applied to the construction steps
	QueryAt []int // GetMaximalCliques is also called after this many construction steps (incremental use)
	Mix     int   // shifts which entry point (AddUndirectedEdge, AddEdge twice, AddEdge then AddUndirectedEdge, ...) adds each edge
}

func genGraph(t *rapid.T) graphCase {
	n := rapid.IntRange(1, 10).Draw(t, "n")
	p := rapid.SampledFrom([]int{1, 3, 5, 7, 9}).Draw(t, "density")
	c := graphCase{N: n}
	for i := 0; i < n; i++ {
		for j := i + 1; j < n; j++ {
			if rapid.IntRange(0, 9).Draw(t, "e") < p {
				c.Edges = append(c.Edges, [2]int{i, j})
			}
		}
	}
	steps := n + len(c.Edges)
	c.Order = rapid.Permutation(seq(steps)).Draw(t, "order")
	c.Mix = rapid.IntRange(0, 4).Draw(t, "mix")
	if rapid.Bool().Draw(t, "incremental") {
		c.QueryAt = rapid.SliceOfN(rapid.IntRange(1, steps), 1, 3).Draw(t, "queryAt")
	}
	return c
}

func seq(n int) []int {
	s := make([]int, n)
	for i := range s {
		s[i] = i
	}
	return s
}

// maximalCliques is the brute force over the vertices present so far.
func maximalCliques(n int, adj [][]bool, present int) map[int]bool {
	isClique := func(m int) bool {
		for i := 0; i < n; i++ {
			for j := i + 1; j < n; j++ {
				if m>>i&1 == 1 && m>>j&1 == 1 && !adj[i][j] {
					return false
				}
			}
		}
		return true
	}
	want := map[int]bool{}
	for m := 1; m < 1<<n; m++ {
		if m&^present != 0 || !isClique(m) {
			continue
		}
		maximal := true
		for v := 0; v < n && maximal; v++ {
			if present>>v&1 == 1 && m>>v&1 == 0 && isClique(m|1<<v) {
				maximal = false
			}
		}
		if maximal {
			want[m] = true
		}
	}
	return want
}

func compareCliques(cl [][]int, want map[int]bool, where string) error {
	got := map[int]int{}
	for _, q := range cl {
		m := 0
		for _, v := range q {
			if m>>v&1 == 1 {
				return fmt.Errorf("%s: clique %v repeats a vertex", where, q)
			}
			m |= 1 << v
		}
		got[m]++
	}
	for m, k := range got {
		if !want[m] {
			return fmt.Errorf("%s: returned vertex set %b which is not a maximal clique of the current graph; all returned: %v", where, m, cl)
		}
		if k != 1 {
			return fmt.Errorf("%s: maximal clique %b returned %d times", where, m, k)
		}
	}
	for m := range want {
		if got[m] == 0 {
			return fmt.Errorf("%s: maximal clique %b missing; returned %v", where, m, cl)
		}
	}
	return nil
}

func runGraph(c graphCase, r *pb.Rec) error {
	if c.N < 1 || c.N > 12 || len(c.Order) != c.N+len(c.Edges) {
		return nil
	}
	for _, e := range c.Edges {
		if e[0] < 0 || e[1] < 0 || e[0] >= c.N || e[1] >= c.N || e[0] == e[1] {
			return nil
		}
	}
	queryAt := map[int]bool{}
	for _, q := range c.QueryAt {
		queryAt[q] = true
	}
	var final map[int]bool
	var reused algz.Graph[int]
	for rep := 0; rep < reps(); rep++ {
		var fresh algz.Graph[int]
		g := &fresh
		if c.Mix%2 == 1 {
			// one Graph object for all repetitions, brought back to empty with Init before each: nothing of the
			// previous graph (here: the same vertices with other edge entry points) may survive
			g = &reused
			if rep > 0 {
				g.AddUndirectedEdge(100+rep, 200+rep) // something the next graph does not have
			}
			g.Init(c.N)
			r.Class("Graph object re-initialised and built again")
		}
		adj := make([][]bool, c.N)
		for i := range adj {
			adj[i] = make([]bool, c.N)
		}
		present := 0
		seen := map[int]bool{}
		for k, s := range c.Order {
			if s < 0 || s >= len(c.Order) || seen[s] {
				return nil
			}
			seen[s] = true
			if s < c.N {
				g.AddNode(s)
				present |= 1 << s
			} else {
				e := c.Edges[s-c.N]
				// the same undirected edge through different entry points and repeated insertions
				switch (s + rep + c.Mix) % 5 {
				case 0:
					g.AddUndirectedEdge(e[0], e[1])
				case 1:
					g.AddUndirectedEdge(e[1], e[0])
				case 2: // one direction first, then the undirected call
					g.AddEdge(e[0], e[1])
					g.AddUndirectedEdge(e[0], e[1])
				case 3: // both directions as two directed edges
					g.AddEdge(e[1], e[0])
					g.AddEdge(e[0], e[1])
				default: // inserted twice
					g.AddUndirectedEdge(e[0], e[1])
					g.AddUndirectedEdge(e[1], e[0])
				}
				adj[e[0]][e[1]], adj[e[1]][e[0]] = true, true
				present |= 1<<e[0] | 1<<e[1]
			}
			if queryAt[k+1] && k+1 < len(c.Order) {
				// the graph is queried while it is still being built: later queries must see later edges
				where := fmt.Sprintf("edges %v on %d vertices, query after %d of %d construction steps (order %v)", c.Edges, c.N, k+1, len(c.Order), c.Order)
				if err := compareCliques(g.GetMaximalCliques(), maximalCliques(c.N, adj, present), where); err != nil {
					return err
				}
				r.Class("queried while being built")
			}
		}
		if g.Len() != c.N {
			return fmt.Errorf("graph has %d nodes, want %d", g.Len(), c.N)
		}
		final = maximalCliques(c.N, adj, present)
		if err := compareCliques(g.GetMaximalCliques(), final, fmt.Sprintf("edges %v on %d vertices (order %v, earlier queries at %v)", c.Edges, c.N, c.Order, c.QueryAt)); err != nil {
			return err
		}
	}
	overlap := false
	for a := range final {
		for b := range final {
			if a != b && a&b != 0 {
				overlap = true
			}
		}
	}
	r.ClassIf(len(c.Edges) == 0, "edgeless graph")
	r.ClassIf(len(final) == 1, "complete graph / single clique")
	r.NonTrivialIf(overlap)
	return nil
}

// ---------------------------------------------------------------- larger graphs (up to 64 vertices): bitset reference + validity predicate

type bigGraphCase struct {
	N       int
	Seed    uint64
	Density int   // per mille for the random background edges
	Planted []int // sizes of planted cliques (vertex sets drawn from the seed)
	Mix     int
}

func genBigGraph(t *rapid.T) bigGraphCase {
	// the library's Bron-Kerbosch has no pivoting: a clique of k vertices costs 2^k steps, so planted cliques stay
	// below 13 vertices except for at most one of 17 or 18 (the size classes above a 16-slot buffer)
	c := bigGraphCase{N: rapid.OneOf(rapid.IntRange(11, 64), rapid.SampledFrom([]int{31, 32, 33, 34, 63, 64})).Draw(t, "n"), Seed: rapid.Uint64().Draw(t, "seed"),
		Density: rapid.SampledFrom([]int{0, 20, 60, 120, 200}).Draw(t, "density"),
		Planted: rapid.SliceOfN(rapid.OneOf(rapid.IntRange(2, 6), rapid.IntRange(2, 12)), 0, 5).Draw(t, "planted"), Mix: rapid.IntRange(0, 4).Draw(t, "mix")}
	if rapid.IntRange(0, 39).Draw(t, "bigClique") == 0 && c.Density <= 60 {
		c.Planted = append(c.Planted, rapid.SampledFrom([]int{16, 17}).Draw(t, "bigSize"))
	}
	return c
}

// refCliques: Bron-Kerbosch with pivoting on 64-bit sets (independent of the library's map-based code);
// it stops counting beyond limit.
func refCliques(adj []uint64, all uint64, limit int) (out []uint64) {
	var rec func(r, p, x uint64)
	rec = func(r, p, x uint64) {
		if len(out) > limit {
			return
		}
		if p == 0 {
			if x == 0 {
				out = append(out, r)
			}
			return
		}
		pivot := uint(bits.TrailingZeros64(p | x))
		for q := p &^ adj[pivot]; q != 0; {
			v := uint(bits.TrailingZeros64(q))
			q &^= 1 << v
			rec(r|1<<v, p&adj[v], x&adj[v])
			p &^= 1 << v
			x |= 1 << v
		}
	}
	rec(0, all, 0)
	return
}

func runBigGraph(c bigGraphCase, r *pb.Rec) error {
	if c.N < 1 || c.N > 64 || c.Density < 0 || c.Density > 200 || len(c.Planted) > 8 {
		return nil
	}
	for _, k := range c.Planted {
		if k > 18 {
			return nil
		}
	}
	st := c.Seed | 1
	rnd := func(n int) int {
		st ^= st << 13
		st ^= st >> 7
		st ^= st << 17
		return int(st % uint64(n))
	}
	adj := make([]uint64, c.N)
	link := func(a, b int) {
		if a != b {
			adj[a] |= 1 << uint(b)
			adj[b] |= 1 << uint(a)
		}
	}
	for i := 0; i < c.N; i++ {
		for j := i + 1; j < c.N; j++ {
			if rnd(1000) < c.Density {
				link(i, j)
			}
		}
	}
	for _, k := range c.Planted {
		if k < 2 || k > c.N {
			continue
		}
		members := map[int]bool{}
		for len(members) < k {
			members[rnd(c.N)] = true
		}
		for a := 0; a < c.N; a++ {
			for b := a + 1; b < c.N; b++ {
				if members[a] && members[b] {
					link(a, b)
				}
			}
		}
	}
	all := ^uint64(0)
	if c.N < 64 {
		all = 1<<uint(c.N) - 1
	}
	const limit = 20000
	want := refCliques(adj, all, limit)
	if len(want) > limit {
		r.Class("SKIPPED: more than 20000 maximal cliques")
		return nil
	}
	var g algz.Graph[int]
	for v := 0; v < c.N; v++ {
		g.AddNode(v)
	}
	k := 0
	for a := 0; a < c.N; a++ {
		for b := a + 1; b < c.N; b++ {
			if adj[a]>>uint(b)&1 == 0 {
				continue
			}
			switch k++; (k + c.Mix) % 3 {
			case 0:
				g.AddUndirectedEdge(a, b)
			case 1:
				g.AddUndirectedEdge(b, a)
			default:
				g.AddEdge(b, a)
				g.AddEdge(a, b)
			}
		}
	}
	where := fmt.Sprintf("graph on %d vertices (seed %d, density %d/1000, planted cliques %v)", c.N, c.Seed, c.Density, c.Planted)
	got := g.GetMaximalCliques()
	seen := map[uint64]bool{}
	for _, q := range got {
		var m uint64
		for _, v := range q {
			if v < 0 || v >= c.N || m>>uint(v)&1 == 1 {
				return fmt.Errorf("%s: returned set %v has a foreign or repeated vertex", where, q)
			}
			m |= 1 << uint(v)
		}
		// validity predicate: a clique, and no vertex outside is adjacent to all of it
		common := all
		for _, v := range q {
			if (adj[v]|1<<uint(v))&m != m {
				return fmt.Errorf("%s: returned set %v is not a clique (vertex %d is not adjacent to all others)", where, q, v)
			}
			common &= adj[v]
		}
		if common&^m != 0 {
			return fmt.Errorf("%s: returned clique %v is not maximal (vertex %d extends it)", where, q, bits.TrailingZeros64(common&^m))
		}
		if seen[m] {
			return fmt.Errorf("%s: maximal clique %v returned more than once", where, q)
		}
		seen[m] = true
	}
	for _, m := range want {
		if !seen[m] {
			var vs []int
			for v := 0; v < c.N; v++ {
				if m>>uint(v)&1 == 1 {
					vs = append(vs, v)
				}
			}
			return fmt.Errorf("%s: maximal clique %v is missing (%d returned, %d exist)", where, vs, len(got), len(want))
		}
	}
	if len(got) != len(want) {
		return fmt.Errorf("%s: %d cliques returned, %d exist", where, len(got), len(want))
	}
	big := 0
	for _, m := range want {
		if bits.OnesCount64(m) > big {
			big = bits.OnesCount64(m)
		}
	}
	r.ClassIf(c.N > 32, "more than 32 vertices")
	r.ClassIf(big >= 17, "a maximal clique of >= 17 vertices")
	r.ClassIf(len(want) >= 200, ">= 200 maximal cliques")
	r.NonTrivialIf(c.N > 16 && len(want) > c.N/2)
	return nil
}

func init() {
	pb.Register("knapsack", pb.Options{Twins: 3, Base: 3000, Required: []string{"tie-breaker replaced", "item heavier than the limit", "empty input", "optimum total value >= 2^31", "item values >= 2^40"},
		Rule: "items with unique ids, n <= 12 (thorough 14), weights 0..6, values 1..6 with many ties, in more than half of the cases all multiplied by one of 1000, 2^15, 2^16+1, 2^28, 2^31-1, 2^31, 2^32+1, 2^40, 2^55 (totals below 2^62), limits 0..sum+2, optional deterministic tie-breakers; every case executed 5 times (the code iterates Go maps); oracle: brute force over all 2^n subsets (each id at most once, weight <= limit, value == optimum); non-trivial = n >= 4 with equal values/weights"},
		genKnap, runKnap)
	pb.Register("dp_solvers", pb.Options{Twins: 3, Base: 3000, Required: []string{"tie-breaker replaced", "overflow possible", "smallest overshoot returned", "empty input"},
		Rule: "FindDpSolvers over items with values 1..6, max 0..sum+2, with/without overflow and tie-breakers, 5 executions per case; oracle: brute force subset sums (every key sums exactly with distinct ids, every attainable total <= max is a key, smallest overshoot is a key when allowed, no key > max otherwise), Best(m) = largest attainable <= m, BestAllowMinOverflow = exact or smallest overshoot; non-trivial = n >= 4 with equal values"},
		genDp, runDp)
	pb.Register("knapsack_large", pb.Options{Base: 600, Required: []string{"limit >= 256", "selection of >= 16 items", "tie-breaker replaced"},
		Rule: "8..48 items, weights 0..1000 and values 1..65536 at four scales with boundary values (255/256/257, 65535/65536), limits up to the total weight and at 255/256/1023/1024/4095/4096; oracle: independent table DP for the optimum value plus the validity predicate (input items, each id once, weight within the limit, value = optimum); non-trivial = at least 4 items selected"},
		genBig, runBigKnap)
	pb.Register("dp_solvers_large", pb.Options{Base: 400, Required: []string{">= 256 attainable totals", "smallest overshoot returned", ">= 1800 items in one call"},
		Rule: "the same generator read as FindDpSolvers instances (value of an item = its weight + 1, max = limit): oracle: independent subset-sum reachability table (every key sums exactly with distinct ids, every attainable total <= max is a key, no key above max unless overflow is allowed, the smallest overshoot present, Best, BestAllowMinOverflow); non-trivial = at least 32 attainable totals"},
		genBig, runBigDp)
	pb.Register("maximal_cliques_large", pb.Options{Base: 400, Required: []string{"more than 32 vertices", "a maximal clique of >= 17 vertices", ">= 200 maximal cliques"},
		Rule: "undirected graphs on 11..64 vertices (31..34 and 63/64 sampled): random background edges of density 0..0.2 plus up to 5 planted cliques of 2..12 vertices and occasionally one of 16..18, edges added through three entry-point mixes; oracle: validity predicate on every returned set (vertices of the graph, a clique, not extendable, returned once) and completeness against an independent bitset Bron-Kerbosch (cases with more than 20000 maximal cliques are skipped and counted); non-trivial = more than 16 vertices and more than n/2 maximal cliques"},
		genBigGraph, runBigGraph)
	pb.Register("maximal_cliques", pb.Options{Twins: 3, Base: 3000, Required: []string{"edgeless graph", "complete graph / single clique", "queried while being built", "Graph object re-initialised and built again"},
		Rule: "undirected simple graphs with 1..10 vertices, each edge drawn with density 0.1..0.9, built with AddNode/AddUndirectedEdge in a drawn order, half of the cases also query GetMaximalCliques at drawn points while the graph is still being built, 5 executions per case; oracle: brute-force set of maximal cliques, each returned exactly once and nothing else; non-trivial = >= 2 overlapping maximal cliques"},
		genGraph, runGraph)
}
