package c10

// Long runs on ONE ring: tens of thousands of Push/Pop/PushWithExpand/Recap calls with the fill level wandering,
// values checked against a slice model after every call.

import (
	"fmt"

	"github.com/welllog/golib/ringz"
	"pgregory.net/rapid"

	"verif/harness/internal/pb"
)

type ringLong struct {
	Sync  bool
	Req   int
	Seed  uint64
	Steps int
}

func genRingLong(t *rapid.T) ringLong {
	return ringLong{Sync: rapid.Bool().Draw(t, "sync"), Req: rapid.SampledFrom([]int{1, 2, 3, 8, 33, 500}).Draw(t, "req"), Seed: rapid.Uint64().Draw(t, "seed"),
		Steps: rapid.SampledFrom([]int{5000, 60000, 160000}).Draw(t, "steps")}
}

func runRingLong(c ringLong, r *pb.Rec) error {
	if c.Req < 1 || c.Req > 100000 || c.Steps < 1 || c.Steps > 500000 {
		return nil
	}
	st := c.Seed | 1
	rnd := func(n int) int {
		st ^= st << 13
		st ^= st >> 7
		st ^= st << 17
		return int(st % uint64(n))
	}
	var model []int
	next := 0
	where := func(step int) string {
		return fmt.Sprintf("ring long run (SyncRing %v, requested capacity %d, seed %d), step %d", c.Sync, c.Req, c.Seed, step)
	}
	if c.Sync {
		q := ringz.NewSync[int](c.Req)
		capv := q.Cap()
		bias := 5
		for step := 0; step < c.Steps; step++ {
			if step%997 == 0 {
				bias = 2 + rnd(7) // the fill level drifts up and down
			}
			if rnd(10) < bias {
				next++
				ok := q.Push(next)
				if ok != (len(model) < capv) {
					return fmt.Errorf("%s: Push = %v with %d of %d held", where(step), ok, len(model), capv)
				}
				if ok {
					model = append(model, next)
				}
			} else {
				v, ok := q.Pop()
				if ok != (len(model) > 0) || (ok && v != model[0]) {
					return fmt.Errorf("%s: Pop = %d,%v with %d held", where(step), v, ok, len(model))
				}
				if ok {
					model = model[1:]
				}
			}
			if q.Len() != len(model) || q.IsEmpty() != (len(model) == 0) || q.IsFull() != (len(model) == capv) {
				return fmt.Errorf("%s: Len=%d IsEmpty=%v IsFull=%v with %d of %d held", where(step), q.Len(), q.IsEmpty(), q.IsFull(), len(model), capv)
			}
		}
	} else {
		q := ringz.New[int](c.Req)
		bias := 5
		for step := 0; step < c.Steps; step++ {
			if step%997 == 0 {
				bias = 2 + rnd(7)
			}
			switch op := rnd(40); {
			case op == 0:
				nc := 1 + rnd(2*q.Cap()+2)
				ok := q.Recap(nc)
				if want := nc != q.Cap() && nc >= len(model); ok != want && !(ok && q.Cap() == nc) {
					return fmt.Errorf("%s: Recap(%d) = %v with Len %d", where(step), nc, ok, len(model))
				}
			case op == 1:
				next++
				q.PushWithExpand(next)
				model = append(model, next)
			case op%10 < bias:
				next++
				ok := q.Push(next)
				if ok != (len(model) < q.Cap()) {
					return fmt.Errorf("%s: Push = %v with %d of %d held", where(step), ok, len(model), q.Cap())
				}
				if ok {
					model = append(model, next)
				}
			default:
				v, ok := q.Pop()
				if ok != (len(model) > 0) || (ok && v != model[0]) {
					return fmt.Errorf("%s: Pop = %d,%v with %d held", where(step), v, ok, len(model))
				}
				if ok {
					model = model[1:]
				}
			}
			if q.Len() != len(model) || q.IsEmpty() != (len(model) == 0) || q.IsFull() != (len(model) == q.Cap()) {
				return fmt.Errorf("%s: Len=%d IsEmpty=%v IsFull=%v with %d of %d held", where(step), q.Len(), q.IsEmpty(), q.IsFull(), len(model), q.Cap())
			}
			if v, ok := q.Peek(); ok != (len(model) > 0) || (ok && v != model[0]) {
				return fmt.Errorf("%s: Peek = %d,%v", where(step), v, ok)
			}
			if q.Cap() > 1<<16 {
				q.Recap(len(model) + 1) // keep the run small
			}
		}
	}
	r.ClassIf(c.Steps >= 60000, ">= 60000 operations on one ring")
	r.ClassIf(c.Sync && next > 65536, "more than 65536 pushes on one SyncRing")
	r.NonTrivialIf(c.Steps >= 60000)
	return nil
}

func init() {
	pb.Register("ring_long_run", pb.Options{Base: 12, Required: []string{">= 60000 operations on one ring", "more than 65536 pushes on one SyncRing"},
		Rule: "5000, 60000 or 160000 PRNG-driven Push/Pop calls (Ring also PushWithExpand, Recap, Peek) on one ring of requested capacity 1..500 with a drifting push/pop bias; oracle: slice model (every result, Len/IsEmpty/IsFull after every call); non-trivial = 60000 operations"},
		genRingLong, runRingLong)
}
