// C10 — Ring/SyncRing are bounded FIFOs sequentially, across growth and counter wrap.
package c10

import (
	"encoding/json"
	"fmt"
	"os"
	"reflect"
	"strconv"
	"testing"

	"github.com/welllog/golib/ringz"
	"pgregory.net/rapid"

	"verif/harness/internal/pb"
	"verif/harness/internal/ringff"
)

func TestMain(m *testing.M)   { pb.Main(m) }
func TestProps(t *testing.T)  { pb.RunProps(t) }
func TestReplay(t *testing.T) { pb.RunReplay(t) }

type rop struct {
	K int
	A int
}

const (
	rPush = iota
	rPop
	rPeek
	rPushExpand
	rRecap
	rObserve
	rRotate
	rInit
	rPushWait
	rPopWait
)

// ---------------------------------------------------------------- Ring

type ringCase struct {
	Cap int
	Ops []rop
}

func genRing(t *rapid.T) ringCase {
	c := ringCase{Cap: rapid.IntRange(1, 8).Draw(t, "cap")}
	kinds := []int{rPush, rPush, rPush, rPop, rPop, rPeek, rPushExpand, rRecap, rRecap, rObserve, rRotate, rInit}
	n := rapid.IntRange(1, 60).Draw(t, "nops")
	for i := 0; i < n; i++ {
		k := rapid.SampledFrom(kinds).Draw(t, "op")
		if k == rInit && rapid.IntRange(0, 4).Draw(t, "rare") != 0 {
			k = rPush
		}
		c.Ops = append(c.Ops, rop{K: k, A: rapid.IntRange(-1, 20).Draw(t, "a")})
	}
	return c
}

func ringInternals(r *ringz.Ring[int]) (head, tail int, ok bool) {
	v := reflect.ValueOf(r).Elem()
	h, t := v.FieldByName("head"), v.FieldByName("tail")
	if !h.IsValid() || !t.IsValid() || h.Kind() != reflect.Int || t.Kind() != reflect.Int {
		return 0, 0, false
	}
	return int(h.Int()), int(t.Int()), true
}

func runRing(c ringCase, rec *pb.Rec) error {
	if c.Cap < 1 || c.Cap > 64 {
		return nil
	}
	r := ringz.New[int](c.Cap)
	capNow := c.Cap
	var model []int
	next := 0
	interesting := false
	for step, o := range c.Ops {
		where := fmt.Sprintf("step %d op %d a=%d (cap %d, model %v)", step, o.K, o.A, capNow, model)
		h, tl, okInt := ringInternals(&r)
		wrapped := okInt && h > tl && len(model) > 0
		switch o.K {
		case rPush:
			next++
			if got, want := r.Push(next), len(model) < capNow; got != want {
				return fmt.Errorf("%s: Push = %v want %v", where, got, want)
			} else if got {
				model = append(model, next)
			}
		case rPop:
			v, ok := r.Pop()
			if ok != (len(model) > 0) || (ok && v != model[0]) {
				return fmt.Errorf("%s: Pop = %d,%v", where, v, ok)
			}
			if ok {
				model = model[1:]
			}
		case rPeek:
			v, ok := r.Peek()
			if ok != (len(model) > 0) || (ok && v != model[0]) {
				return fmt.Errorf("%s: Peek = %d,%v", where, v, ok)
			}
		case rPushExpand:
			next++
			full := len(model) == capNow
			r.PushWithExpand(next)
			model = append(model, next)
			if full { // by how much a full ring grows is not part of the property: the new capacity is taken from Cap()
				rec.ClassIf(wrapped, "expand wrapped")
				interesting = interesting || wrapped
				if capNow = r.Cap(); capNow < len(model) {
					return fmt.Errorf("%s: PushWithExpand on a full ring: Cap() = %d with %d elements held", where, capNow, len(model))
				}
			}
		case rRecap:
			want := o.A > 0 && o.A != capNow && o.A >= len(model)
			got := r.Recap(o.A)
			if got != want {
				return fmt.Errorf("%s: Recap(%d) = %v want %v", where, o.A, got, want)
			}
			if got {
				rec.ClassIf(wrapped, "recap wrapped")
				rec.ClassIf(o.A == len(model) && o.A < capNow, "recap shrink to exactly Len")
				interesting = interesting || wrapped
				capNow = o.A
			}
		case rRotate: // move head around the buffer without changing the length much
			k := o.A
			for i := 0; i < k && len(model) > 0; i++ {
				v, ok := r.Pop()
				if !ok || v != model[0] {
					return fmt.Errorf("%s: rotate Pop = %d,%v", where, v, ok)
				}
				model = model[1:]
				next++
				if !r.Push(next) {
					return fmt.Errorf("%s: rotate Push failed with %d of %d", where, len(model), capNow)
				}
				model = append(model, next)
			}
		case rInit:
			if o.A >= 1 {
				r.Init(o.A)
				capNow, model = o.A, nil
			}
		}
		if r.Len() != len(model) || r.Cap() != capNow || r.IsEmpty() != (len(model) == 0) || r.IsFull() != (len(model) == capNow) {
			return fmt.Errorf("%s: Len=%d Cap=%d IsEmpty=%v IsFull=%v; model len %d cap %d", where, r.Len(), r.Cap(), r.IsEmpty(), r.IsFull(), len(model), capNow)
		}
		if v, ok := r.Peek(); ok != (len(model) > 0) || (ok && v != model[0]) {
			return fmt.Errorf("%s: Peek after step = %d,%v", where, v, ok)
		}
	}
	// drain: content and order
	for i, want := range model {
		v, ok := r.Pop()
		if !ok || v != want {
			return fmt.Errorf("final drain: element %d = %d,%v want %d", i, v, ok, want)
		}
	}
	if _, ok := r.Pop(); ok {
		return fmt.Errorf("final drain: extra element")
	}
	rec.NonTrivialIf(interesting)
	return nil
}

// ---------------------------------------------------------------- SyncRing, sequential, incl. fast-forwarded counters

type syncCase struct {
	Req  int    // requested capacity
	FF   uint32 // fast-forward by this many push/pop pairs first (0: none)
	Ops  []rop
	Fill int
}

func genSync(t *rapid.T) syncCase {
	c := syncCase{Req: rapid.OneOf(rapid.IntRange(1, 9), rapid.IntRange(1, 40), rapid.SampledFrom([]int{1, 2, 3, 4, 5, 8, 16, 17, 32, 33})).Draw(t, "req")}
	capv := 2
	for capv < c.Req {
		capv *= 2
	}
	switch rapid.IntRange(0, 3).Draw(t, "ff") {
	case 1: // around 2^32
		c.FF = uint32(int64(1<<32) + int64(rapid.IntRange(-capv-3, 3).Draw(t, "d")))
	case 2: // around 2^31
		c.FF = uint32(int64(1<<31) + int64(rapid.IntRange(-capv-3, 3).Draw(t, "d")))
	case 3:
		c.FF = rapid.Uint32().Draw(t, "k")
	}
	c.Fill = rapid.IntRange(0, capv).Draw(t, "fill")
	kinds := []int{rPush, rPush, rPush, rPop, rPop, rObserve, rPushWait, rPopWait, rRotate}
	n := rapid.IntRange(1, 60).Draw(t, "nops")
	for i := 0; i < n; i++ {
		c.Ops = append(c.Ops, rop{K: rapid.SampledFrom(kinds).Draw(t, "op"), A: rapid.IntRange(0, 2*capv+1).Draw(t, "a")})
	}
	return c
}

var ffUnsupported bool

func runSync(c syncCase, rec *pb.Rec) error {
	if c.Req < 1 || c.Req > 1024 {
		return nil
	}
	wantCap := 2
	for wantCap < c.Req {
		wantCap *= 2
	}
	r := ringz.NewSync[int](c.Req)
	if r.Cap() != wantCap {
		return fmt.Errorf("NewSync(%d).Cap() = %d want %d", c.Req, r.Cap(), wantCap)
	}
	pos := uint64(0) // absolute number of pushes so far (for the wrap classes)
	if c.FF != 0 {
		if !ringff.FastForward(&r, c.FF) {
			ffUnsupported = true
			rec.Class("SKIPPED: SyncRing layout not recognised, fast-forward not applied")
		} else {
			pos = uint64(c.FF)
			if c.FF > 1<<31 {
				pos = uint64(c.FF)
			}
		}
	}
	var model []int
	next := 0
	nearWrap := false
	crossed := false
	push := func(where string, wait bool) error {
		next++
		var got bool
		if wait {
			got = r.PushWait(next, 0)
		} else {
			got = r.Push(next)
		}
		want := len(model) < wantCap
		if got != want {
			return fmt.Errorf("%s: Push = %v want %v (len %d cap %d)", where, got, want, len(model), wantCap)
		}
		if got {
			model = append(model, next)
			p32 := uint32(pos)
			if uint32(p32+uint32(wantCap)) < p32 || p32 > ^uint32(0)-uint32(wantCap) {
				nearWrap = true
			}
			if p32 == ^uint32(0) {
				crossed = true
			}
			pos++
		}
		return nil
	}
	pop := func(where string, wait bool) error {
		var v int
		var ok bool
		if wait {
			v, ok = r.PopWait(0)
		} else {
			v, ok = r.Pop()
		}
		if ok != (len(model) > 0) || (ok && v != model[0]) {
			return fmt.Errorf("%s: Pop = %d,%v (model %v)", where, v, ok, model)
		}
		if ok {
			model = model[1:]
		}
		return nil
	}
	observe := func(where string) error {
		if r.Len() != len(model) || r.IsEmpty() != (len(model) == 0) || r.IsFull() != (len(model) == wantCap) || r.Cap() != wantCap {
			return fmt.Errorf("%s: Len=%d IsEmpty=%v IsFull=%v Cap=%d; model len %d cap %d", where, r.Len(), r.IsEmpty(), r.IsFull(), r.Cap(), len(model), wantCap)
		}
		return nil
	}
	for i := 0; i < c.Fill && i < wantCap; i++ {
		if err := push("fill", false); err != nil {
			return err
		}
	}
	for step, o := range c.Ops {
		where := fmt.Sprintf("step %d op %d a=%d (ff %d)", step, o.K, o.A, c.FF)
		var err error
		switch o.K {
		case rPush:
			err = push(where, false)
		case rPushWait:
			err = push(where, true)
		case rPop:
			err = pop(where, false)
		case rPopWait:
			err = pop(where, true)
		case rRotate:
			for i := 0; i < o.A && err == nil; i++ {
				if len(model) == wantCap {
					err = pop(where, false)
				}
				if err == nil {
					err = push(where, false)
				}
				if err == nil && len(model) > 1 {
					err = pop(where, false)
				}
			}
		}
		if err != nil {
			return err
		}
		if err := observe(where); err != nil {
			return err
		}
	}
	for len(model) > 0 {
		if err := pop("final drain", false); err != nil {
			return err
		}
	}
	if err := pop("after drain", false); err != nil {
		return err
	}
	rec.ClassIf(nearWrap, "counter within Cap of 2^32")
	rec.ClassIf(crossed, "wrap crossed")
	rec.ClassIf(c.Req&(c.Req-1) == 0 && c.Req >= 2, "exact power of two requested")
	rec.ClassIf(c.Req == 1, "capacity 1 requested")
	rec.NonTrivialIf(nearWrap)
	return nil
}

// self-validation of the fast-forward helper: for small k its result equals honest stepping, field by field
type ffCase struct {
	Req int
	K   int
}

func genFF(t *rapid.T) ffCase {
	return ffCase{Req: rapid.IntRange(1, 40).Draw(t, "req"), K: rapid.IntRange(0, 300).Draw(t, "k")}
}

func runFF(c ffCase, rec *pb.Rec) error {
	if c.Req < 1 || c.Req > 64 || c.K < 0 || c.K > 5000 {
		return nil
	}
	a, b := ringz.NewSync[int](c.Req), ringz.NewSync[int](c.Req)
	for i := 0; i < c.K; i++ {
		if !a.Push(i) {
			return fmt.Errorf("honest stepping: push %d failed", i)
		}
		if v, ok := a.Pop(); !ok || v != i {
			return fmt.Errorf("honest stepping: pop %d = %d,%v", i, v, ok)
		}
	}
	if !ringff.FastForward(&b, uint32(c.K)) {
		ffUnsupported = true
		rec.Class("SKIPPED: SyncRing layout not recognised")
		return nil
	}
	sa, sb := ringff.Snapshot(&a), ringff.Snapshot(&b)
	if fmt.Sprint(sa) != fmt.Sprint(sb) {
		return fmt.Errorf("HARNESS: fastForward(%d) on cap %d = %v but honest stepping gives %v", c.K, a.Cap(), sb, sa)
	}
	rec.NonTrivialIf(c.K > a.Cap())
	return nil
}

// requested capacities of every magnitude: Cap() and the behaviour at the boundary "exactly Cap held"
type capCase struct {
	Req  int
	Sync bool
}

func genCap(t *rapid.T) capCase {
	k := rapid.IntRange(0, 22).Draw(t, "log2")
	var req int
	switch rapid.IntRange(0, 2).Draw(t, "shape") {
	case 0:
		req = 1<<k + rapid.IntRange(-2, 2).Draw(t, "d")
	case 1:
		req = 1<<k + rapid.IntRange(0, 1<<k).Draw(t, "off") // uniform within the octave
	default:
		req = 1<<k | rapid.IntRange(0, 3).Draw(t, "low") | rapid.IntRange(0, 1).Draw(t, "mid")<<(k/2) // sparse bit patterns
	}
	if req < 1 {
		req = 1
	}
	if req > 1<<22 {
		req = 1 << 22
	}
	return capCase{Req: req, Sync: rapid.IntRange(0, 3).Draw(t, "sync") != 0}
}

func runCap(c capCase, rec *pb.Rec) error {
	if c.Req < 1 || c.Req > 1<<22 {
		return nil
	}
	type queue interface {
		Push(int) bool
		Pop() (int, bool)
		Len() int
		Cap() int
		IsFull() bool
		IsEmpty() bool
	}
	var q queue
	wantCap := c.Req
	if c.Sync {
		wantCap = 2
		for wantCap < c.Req {
			wantCap <<= 1
		}
		r := ringz.NewSync[int](c.Req)
		q = &r
	} else {
		r := ringz.New[int](c.Req)
		q = &r
	}
	if q.Cap() != wantCap {
		return fmt.Errorf("requested capacity %d (SyncRing=%v): Cap() = %d want %d", c.Req, c.Sync, q.Cap(), wantCap)
	}
	// fill completely, one more push must fail, everything comes back in order
	for i := 0; i < wantCap; i++ {
		if !q.Push(i) {
			return fmt.Errorf("requested capacity %d (SyncRing=%v, Cap %d): Push #%d failed with Len=%d", c.Req, c.Sync, wantCap, i+1, q.Len())
		}
		if i < 4 || i > wantCap-4 {
			if q.Len() != i+1 || q.IsFull() != (i+1 == wantCap) || q.IsEmpty() {
				return fmt.Errorf("requested capacity %d (SyncRing=%v): after %d pushes Len=%d IsFull=%v IsEmpty=%v", c.Req, c.Sync, i+1, q.Len(), q.IsFull(), q.IsEmpty())
			}
		}
	}
	if q.Push(-1) {
		return fmt.Errorf("requested capacity %d (SyncRing=%v): Push succeeded with Cap()=%d elements held", c.Req, c.Sync, wantCap)
	}
	for i := 0; i < wantCap; i++ {
		if v, ok := q.Pop(); !ok || v != i {
			return fmt.Errorf("requested capacity %d (SyncRing=%v): Pop #%d = %d,%v", c.Req, c.Sync, i+1, v, ok)
		}
	}
	if _, ok := q.Pop(); ok || q.Len() != 0 || !q.IsEmpty() || q.IsFull() {
		return fmt.Errorf("requested capacity %d (SyncRing=%v): drained ring: Len=%d IsEmpty=%v IsFull=%v", c.Req, c.Sync, q.Len(), q.IsEmpty(), q.IsFull())
	}
	rec.ClassIf(c.Req > 1<<17, "requested capacity above 2^17")
	rec.ClassIf(c.Sync && c.Req&(c.Req-1) != 0, "SyncRing rounds up")
	rec.NonTrivialIf(c.Req > 64)
	return nil
}

// honest wrap-around: more than 2^32 push/pop pairs (thorough tier); shard = capacity choice
func TestWrapHonest(t *testing.T) {
	shard, _ := strconv.Atoi(os.Getenv("VERIF_SHARD"))
	caps := []int{2, 4, 16, 3}
	req := caps[shard%len(caps)]
	st := pb.Stats("wrap_honest")
	st.SetRule("honest run of 2^32 + 2^20 push/pop steps on one SyncRing (requested capacity by shard: 2, 4, 16, 3) with the fill level oscillating between 0 and Cap, a running FIFO/Len/IsEmpty/IsFull check at every step; evidence counts blocks of 2^20 steps; every block is distinct (different absolute counter range), blocks containing 2^31 or 2^32 are labelled")
	r := ringz.NewSync[int](req)
	capv := r.Cap()
	total := uint64(1<<32) + 1<<20
	if os.Getenv("VERIF_WRAP_STEPS") != "" {
		total, _ = strconv.ParseUint(os.Getenv("VERIF_WRAP_STEPS"), 10, 64)
	}
	var pushed, popped uint64 // values are the push index
	phase := 0
	fail := func(msg string) {
		js, _ := json.Marshal(map[string]any{"req": req, "pushed": pushed, "popped": popped})
		st.Violation("honest", js, fmt.Errorf("%s (pushed %d popped %d cap %d)", msg, pushed, popped, capv))
		t.Fatalf("%s (pushed %d popped %d)", msg, pushed, popped)
	}
	for pushed < total {
		n := int(pushed - popped)
		// oscillate: fill to Cap, drain to 0, with single steps in between
		switch {
		case n == 0:
			phase = 0
		case n == capv:
			phase = 1
		}
		if phase == 0 {
			if !r.Push(int(pushed)) {
				fail("Push failed on a non-full ring")
			}
			pushed++
			if n+1 == capv && r.Push(-1) {
				fail("Push succeeded on a full ring")
			}
		} else {
			v, ok := r.Pop()
			if !ok || uint64(v) != popped {
				fail(fmt.Sprintf("Pop = %d,%v want %d", v, ok, popped))
			}
			popped++
			if n-1 == 0 {
				if _, ok := r.Pop(); ok {
					fail("Pop succeeded on an empty ring")
				}
			}
		}
		n = int(pushed - popped)
		if r.Len() != n || r.IsEmpty() != (n == 0) || r.IsFull() != (n == capv) {
			fail(fmt.Sprintf("Len=%d IsEmpty=%v IsFull=%v with %d elements", r.Len(), r.IsEmpty(), r.IsFull(), n))
		}
		if pushed&(1<<20-1) == 0 && phase == 0 {
			rec := &pb.Rec{}
			rec.NonTrivial()
			lo, hi := pushed-1<<20, pushed
			rec.ClassIf(lo <= 1<<31 && 1<<31 <= hi, "block contains 2^31")
			rec.ClassIf(lo <= 1<<32 && 1<<32 <= hi, "wrap crossed")
			st.CaseKey(uint64(req)<<40|pushed>>20, rec, func() []byte {
				return []byte(fmt.Sprintf(`{"requested_cap":%d,"pushes_completed":%d}`, req, pushed))
			})
		}
	}
	st.Note("shard %d: requested capacity %d (Cap %d): %d pushes and %d pops executed and checked", shard, req, capv, pushed, popped)
	if total > 1<<32 {
		st.Require("wrap crossed")
	}
}

func init() {
	pb.Register("ring_fifo", pb.Options{Twins: 3, Base: 15000, Required: []string{"recap wrapped", "recap shrink to exactly Len", "expand wrapped"},
		Rule: "Ring of capacity 1..8, <= 60 operations Push/Pop/Peek/PushWithExpand/Recap(-1..20)/rotate k/Init; oracle: slice model, every return value and Len/Cap/IsEmpty/IsFull/Peek after every step, final drain; Recap succeeds iff c>0, c!=Cap, c>=Len; non-trivial = Recap or PushWithExpand executed while the live region is wrapped (head > tail, read by reflection for classification only)"},
		genRing, runRing)
	pb.Register("syncring_sequential", pb.Options{Twins: 3, Base: 15000, Required: []string{"counter within Cap of 2^32", "wrap crossed", "exact power of two requested", "capacity 1 requested"},
		Rule: "SyncRing with requested capacity 1..40 (Cap = next power of two >= max(2,c)), optionally fast-forwarded (self-validated reflection helper) to the state k push/pop pairs produce with k near 2^32, near 2^31 or uniform, then filled to a drawn level; <= 60 operations Push/Pop/PushWait(0)/PopWait(0)/rotate; oracle: slice model, Len/IsEmpty/IsFull/Cap after every step, final drain; non-trivial = a push executed with the tail counter within Cap of 2^32"},
		genSync, runSync)
	pb.Register("capacity", pb.Options{Base: 120, Required: []string{"requested capacity above 2^17", "SyncRing rounds up"},
		Rule: "requested capacity 1..2^22 (2^k-2..2^k+2, uniform within an octave, sparse bit patterns) for Ring and SyncRing; oracle: Cap() = requested (Ring) / smallest power of two >= max(2, requested) (SyncRing), exactly Cap() pushes succeed, the next fails, all values come back in FIFO order, Len/IsEmpty/IsFull at both ends; non-trivial = requested capacity > 64"},
		genCap, runCap)
	pb.Register("fastforward_selfcheck", pb.Options{Base: 1500,
		Rule: "harness self-validation: for k in 0..300 the fast-forward helper's result (head, tail, every slot sequence number) equals honest stepping; non-trivial = k > Cap"},
		genFF, runFF)
	pb.RegisterReplay("wrap_honest", func(raw json.RawMessage) error {
		return fmt.Errorf("BADREPLAY: the honest wrap run is replayed by re-running TestWrapHonest (VERIF_WRAP_STEPS)")
	})
}
