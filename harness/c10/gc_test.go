package c10

import (
	"fmt"

	"github.com/welllog/golib/ringz"
	"pgregory.net/rapid"

	"verif/harness/internal/g"
	"verif/harness/internal/pb"
)

type gcCase struct {
	Sync bool
	Req  int
	Fill int // per-mille of the capacity
}

func genGC(t *rapid.T) gcCase {
	return gcCase{Sync: rapid.Bool().Draw(t, "sync"), Req: rapid.OneOf(rapid.IntRange(1, 70), rapid.SampledFrom([]int{100, 1000})).Draw(t, "req"), Fill: rapid.SampledFrom([]int{1000, 1000, 500, 10}).Draw(t, "fill")}
}

func runGC(c gcCase, r *pb.Rec) error {
	if c.Req < 1 || c.Req > 1<<16 || c.Fill < 0 || c.Fill > 1000 {
		return nil
	}
	r.NonTrivial()
	if c.Sync {
		q := ringz.NewSync[g.PtrRec](c.Req)
		return g.AcrossGC(fmt.Sprintf("SyncRing requested with capacity %d", c.Req), max(1, q.Cap()*c.Fill/1000), 3, q.Push, q.Pop)
	}
	q := ringz.New[g.PtrRec](c.Req)
	return g.AcrossGC(fmt.Sprintf("Ring of capacity %d", c.Req), max(1, q.Cap()*c.Fill/1000), 3, q.Push, q.Pop)
}

func init() {
	pb.Register("ring_elements_across_gc", pb.Options{Base: 30,
		Rule: "Ring and SyncRing of struct{int, string, *int}, requested capacity 1..70, 100, 1000, filled to 1%..100% with freshly allocated elements that only the ring references; two forced garbage collections and allocation churn; then every element is popped and verified; three rounds per ring; every case is non-trivial"},
		genGC, runGC)
}
