package c10

// Rings of hundreds to hundreds of thousands of slots: the live region is moved to a chosen offset inside the
// buffer, the ring is filled to a chosen level (usually full), and then a few bulk steps follow -
// PushWithExpand n times, Recap to a capacity chosen relative to Len and Cap, n pops, n pushes. The oracle is
// the slice model; the content is compared element by element in a final drain, so a loss or a reordering
// anywhere in a large buffer is seen, not only near the ends.

import (
	"fmt"

	"github.com/welllog/golib/ringz"
	"pgregory.net/rapid"

	"verif/harness/internal/pb"
)

type bigOp struct {
	K int // 0 PushWithExpand n times, 1 Recap, 2 pop n, 3 push n (as many as fit)
	A int // n as a per-mille of the capacity (0..1500); for Recap the kind of target
	D int // small offset -2..2
}

type bigCase struct {
	Cap  int
	Rot  int // head offset as a per-mille of the capacity
	Fill int // fill level as a per-mille of the capacity (1000 = full)
	Ops  []bigOp
}

var bigCaps = []int{255, 256, 257, 1000, 1023, 1024, 1025, 1536, 2048, 4095, 4096, 4097, 5000, 16384, 40000, 65535, 65536, 65537, 200000}

func genBig(t *rapid.T) bigCase {
	c := bigCase{Cap: rapid.SampledFrom(bigCaps).Draw(t, "cap"), Rot: rapid.OneOf(rapid.IntRange(0, 999), rapid.SampledFrom([]int{0, 1, 249, 250, 251, 499, 500, 501, 749, 750, 751, 998, 999})).Draw(t, "rot"),
		Fill: rapid.SampledFrom([]int{1000, 1000, 1000, 999, 750, 500, 250, 1, 0}).Draw(t, "fill")}
	for i, n := 0, rapid.IntRange(1, 5).Draw(t, "nops"); i < n; i++ {
		c.Ops = append(c.Ops, bigOp{K: rapid.SampledFrom([]int{0, 0, 1, 1, 2, 3}).Draw(t, "k"), A: rapid.OneOf(rapid.IntRange(0, 1500), rapid.SampledFrom([]int{0, 1, 2, 250, 500, 1000})).Draw(t, "a"), D: rapid.IntRange(-2, 2).Draw(t, "d")})
	}
	return c
}

func runBig(c bigCase, rec *pb.Rec) error {
	if c.Cap < 1 || c.Cap > 1<<20 || c.Rot < 0 || c.Rot > 999 || c.Fill < 0 || c.Fill > 1000 || len(c.Ops) > 8 {
		return nil
	}
	r := ringz.New[int](c.Cap)
	capNow, next := c.Cap, 0
	var model []int
	push := func(where string) error {
		next++
		if !r.Push(next) {
			return fmt.Errorf("%s: Push failed with %d of %d held", where, len(model), capNow)
		}
		model = append(model, next)
		return nil
	}
	pop := func(where string) error {
		v, ok := r.Pop()
		if !ok || v != model[0] {
			return fmt.Errorf("%s: Pop = %d,%v want %d (Len %d Cap %d)", where, v, ok, model[0], len(model), capNow)
		}
		model = model[1:]
		return nil
	}
	rot := c.Cap * c.Rot / 1000
	for i := 0; i < rot; i++ { // move the head to offset rot
		if err := push("rotation"); err != nil {
			return err
		}
		if err := pop("rotation"); err != nil {
			return err
		}
	}
	for i, n := 0, (c.Cap*c.Fill+999)/1000; i < n; i++ {
		if err := push("fill"); err != nil {
			return err
		}
	}
	grown := false
	for step, o := range c.Ops {
		where := fmt.Sprintf("ring of capacity %d, head moved to offset %d, filled to %d; step %d (op %d a=%d d=%d) with Len %d Cap %d", c.Cap, rot, (c.Cap*c.Fill+999)/1000, step, o.K, o.A, o.D, len(model), capNow)
		n := min(capNow*o.A/1000+max(o.D, 0), 300000)
		switch o.K {
		case 0:
			for i := 0; i < max(n, 1); i++ {
				full := len(model) == capNow
				next++
				r.PushWithExpand(next)
				model = append(model, next)
				if full {
					rec.ClassIf(capNow >= 1024, "PushWithExpand on a full ring of >= 1024 slots")
					rec.ClassIf(capNow >= 1024 && rot%capNow > capNow/4 && !grown, "PushWithExpand on a full ring of >= 1024 slots with the head beyond a quarter of the buffer")
					grown = true
					if capNow = r.Cap(); capNow < len(model) {
						return fmt.Errorf("%s: PushWithExpand on a full ring: Cap() = %d with %d elements held", where, capNow, len(model))
					}
				} else if r.Cap() != capNow {
					return fmt.Errorf("%s: PushWithExpand on a ring that was not full changed Cap() from %d to %d", where, capNow, r.Cap())
				}
			}
		case 1:
			var target int
			switch o.A % 8 {
			case 0:
				target = len(model) + o.D
			case 1:
				target = capNow + o.D
			case 2:
				target = capNow + capNow/4 + o.D
			case 3:
				target = 2*capNow + o.D
			case 4:
				target = capNow/2 + o.D
			case 5:
				target = len(model) + (capNow-len(model))/2
			case 6:
				target = capNow + 1 + o.A
			default:
				target = 3*capNow/4 + o.D
			}
			want := target > 0 && target != capNow && target >= len(model)
			if got := r.Recap(target); got != want {
				return fmt.Errorf("%s: Recap(%d) = %v want %v", where, target, got, want)
			}
			if want {
				rec.ClassIf(target < capNow, "Recap shrinks a large ring")
				rec.ClassIf(target > capNow, "Recap grows a large ring")
				capNow = target
				grown = true
			}
		case 2:
			for i := 0; i < n && len(model) > 0; i++ {
				if err := pop(where); err != nil {
					return err
				}
			}
		case 3:
			for i := 0; i < n && len(model) < capNow; i++ {
				if err := push(where); err != nil {
					return err
				}
			}
		}
		if r.Len() != len(model) || r.Cap() != capNow || r.IsEmpty() != (len(model) == 0) || r.IsFull() != (len(model) == capNow) {
			return fmt.Errorf("%s: afterwards Len=%d Cap=%d IsEmpty=%v IsFull=%v; model holds %d of %d", where, r.Len(), r.Cap(), r.IsEmpty(), r.IsFull(), len(model), capNow)
		}
		if v, ok := r.Peek(); ok != (len(model) > 0) || (ok && v != model[0]) {
			return fmt.Errorf("%s: Peek afterwards = %d,%v", where, v, ok)
		}
	}
	for i, want := range model {
		if v, ok := r.Pop(); !ok || v != want {
			return fmt.Errorf("ring of capacity %d, head moved to offset %d, filled to %d, ops %v: final drain: element %d of %d = %d,%v want %d", c.Cap, rot, (c.Cap*c.Fill+999)/1000, c.Ops, i, len(model), v, ok, want)
		}
	}
	if _, ok := r.Pop(); ok {
		return fmt.Errorf("final drain: an extra element")
	}
	rec.NonTrivialIf(grown)
	return nil
}

func init() {
	pb.Register("ring_large", pb.Options{Base: 600, Required: []string{"PushWithExpand on a full ring of >= 1024 slots", "PushWithExpand on a full ring of >= 1024 slots with the head beyond a quarter of the buffer", "Recap shrinks a large ring", "Recap grows a large ring"},
		Rule: "Ring of capacity 255..200000 (around 256, 1024, 4096, 65536 and others), head moved to any offset of the buffer, filled to 0..100% (mostly full), then 1..5 bulk steps: PushWithExpand n times, Recap to Len+d / Cap+d / 1.25 Cap / 2 Cap / Cap/2 / 0.75 Cap / beyond, n pops, n pushes; oracle: slice model (Recap result, Len/Cap/IsEmpty/IsFull/Peek after every step, Cap unchanged by PushWithExpand on a ring that is not full, complete final drain); non-trivial = the ring was re-sized"},
		genBig, runBig)
}
