package c10

// Ring, SyncRing (and, from c11, SyncList) are generic over any element type. This file pushes values of
// element types with an "absent-looking" or unusual representation through them: interface types holding nil,
// nil pointers, nil funcs, zero-size values, large structs, strings. A stored nil is a value like any other.

import (
	"errors"
	"fmt"

	"github.com/welllog/golib/ringz"
	"pgregory.net/rapid"

	"verif/harness/internal/pb"
)

type typesCase struct {
	Kind int   // 0 Ring, 1 SyncRing
	Type int   // index into the element types below
	Req  int   // requested capacity
	Seq  []int // value codes 0..3 pushed in this order (pops interleaved: a negative code pops); 4..7: Ring.PushWithExpand of value code-4
}

func genTypes(t *rapid.T) typesCase {
	return typesCase{Kind: rapid.IntRange(0, 1).Draw(t, "kind"), Type: rapid.IntRange(0, 8).Draw(t, "type"), Req: rapid.IntRange(1, 6).Draw(t, "req"),
		Seq: rapid.SliceOfN(rapid.IntRange(-2, 7), 1, 24).Draw(t, "seq")}
}

type queueOf[T any] interface {
	Push(T) bool
	Pop() (T, bool)
	Len() int
}

func fifoOf[T any](c typesCase, name string, vals [4]T, same func(a, b T) bool, r *pb.Rec) error {
	var q queueOf[T]
	var ring *ringz.Ring[T]
	capv := c.Req
	if c.Kind == 0 {
		x := ringz.New[T](c.Req)
		q, ring = &x, &x
	} else {
		x := ringz.NewSync[T](c.Req)
		q, capv = &x, x.Cap()
	}
	var model []int
	for step, code := range c.Seq {
		where := fmt.Sprintf("%s of %s (requested capacity %d), step %d", []string{"Ring", "SyncRing"}[c.Kind], name, c.Req, step)
		if code >= 4 && ring != nil {
			// the ring grows when it is full: content and order are preserved, the new element is the youngest
			ring.PushWithExpand(vals[code-4])
			model = append(model, code-4)
			if ring.Cap() < len(model) {
				return fmt.Errorf("%s: after PushWithExpand Cap = %d with %d elements held", where, ring.Cap(), len(model))
			}
			capv = ring.Cap()
		} else if code >= 0 {
			code %= 4
			ok := q.Push(vals[code])
			if ok != (len(model) < capv) {
				return fmt.Errorf("%s: Push(value #%d) = %v with %d of %d elements held", where, code, ok, len(model), capv)
			}
			if ok {
				model = append(model, code)
			}
		} else {
			v, ok := q.Pop()
			if ok != (len(model) > 0) {
				return fmt.Errorf("%s: Pop = _,%v with %d elements held (a stored nil / zero value is still an element)", where, ok, len(model))
			}
			if ok {
				if !same(v, vals[model[0]]) {
					return fmt.Errorf("%s: Pop returned %v, want value #%d (%v)", where, any(v), model[0], any(vals[model[0]]))
				}
				model = model[1:]
			}
		}
		if q.Len() != len(model) {
			return fmt.Errorf("%s: Len = %d, %d elements held", where, q.Len(), len(model))
		}
	}
	for len(model) > 0 {
		v, ok := q.Pop()
		if !ok || !same(v, vals[model[0]]) {
			return fmt.Errorf("%s of %s: final drain: Pop = %v,%v want value #%d", []string{"Ring", "SyncRing"}[c.Kind], name, any(v), ok, model[0])
		}
		model = model[1:]
	}
	if _, ok := q.Pop(); ok {
		return fmt.Errorf("%s of %s: Pop succeeds on the drained ring", []string{"Ring", "SyncRing"}[c.Kind], name)
	}
	r.NonTrivialIf(len(c.Seq) >= 4)
	return nil
}

type bigElem struct {
	A [40]int
	S string
}

// element types larger than typical chunk sizes (64 KiB)
type hugeElem struct {
	Seq  uint64
	Data [70000]byte
}

func runTypes(c typesCase, r *pb.Rec) error {
	if c.Req < 1 || c.Req > 64 || len(c.Seq) > 200 {
		return nil
	}
	for _, x := range c.Seq {
		if x > 7 || x < -2 {
			return nil
		}
	}
	one, two := 1, 2
	e1 := errors.New("e1")
	switch c.Type {
	case 0:
		r.Class("interface elements holding nil")
		return fifoOf(c, "any", [4]any{nil, 1, "x", nil}, func(a, b any) bool { return a == b }, r)
	case 1:
		r.Class("interface elements holding nil")
		return fifoOf(c, "error", [4]error{nil, e1, nil, errors.New("e2")}, func(a, b error) bool { return a == b }, r)
	case 2:
		return fifoOf(c, "*int", [4]*int{nil, &one, &two, nil}, func(a, b *int) bool { return a == b }, r)
	case 3:
		r.Class("zero-size elements")
		return fifoOf(c, "struct{}", [4]struct{}{}, func(a, b struct{}) bool { return true }, r)
	case 4:
		return fifoOf(c, "a 328-byte struct", [4]bigElem{{}, {A: [40]int{1}, S: "a"}, {A: [40]int{39: 9}}, {S: "zz"}}, func(a, b bigElem) bool { return a == b }, r)
	case 5:
		return fifoOf(c, "string", [4]string{"", "a", "\x00", "aa"}, func(a, b string) bool { return a == b }, r)
	case 7:
		r.Class("element type larger than 64 KiB")
		var v [4]hugeElem
		for i := range v {
			v[i].Seq = uint64(i + 1)
			v[i].Data[69999] = byte(i + 1)
		}
		v[3] = v[0] // equal values are distinct elements all the same
		return fifoOf(c, "a 70 KB struct", v, func(a, b hugeElem) bool { return a == b }, r)
	case 8:
		return fifoOf(c, "[16384]float64", [4][16384]float64{{0: 1}, {16383: 2}, {}, {5: 5}}, func(a, b [16384]float64) bool { return a == b }, r)
	default:
		f := func() {}
		return fifoOf(c, "func()", [4]func(){nil, f, nil, f}, func(a, b func()) bool { return (a == nil) == (b == nil) }, r)
	}
}

func init() {
	pb.Register("element_types", pb.Options{Twins: 3, Base: 4000, Required: []string{"interface elements holding nil", "zero-size elements", "element type larger than 64 KiB"},
		Rule: "Ring and SyncRing instantiated with any, error (both holding nil values), *int, struct{}, a 328-byte struct, a 70 KB struct, [16384]float64, string and func(): <= 24 pushes/pops (for Ring also PushWithExpand) of four fixed values per type against a slice model (Push iff room, Pop the oldest value including stored nils, Len), final drain; non-trivial = at least 4 steps"},
		genTypes, runTypes)
}
