package c10

// Rings that live on a goroutine stack. Ring is a value type: `r := ringz.New[int](n)` in a function keeps the
// ring in the frame, and the runtime moves frames when a stack grows (and shrinks it again during collections).
// The sub-check runs a short push/pop script on a fresh goroutine, with deep recursion between the steps so
// that the stack is re-allocated while the ring holds elements, and compares with the slice model.

import (
	"fmt"
	"runtime"

	"github.com/welllog/golib/ringz"
	"pgregory.net/rapid"

	"verif/harness/internal/g"
	"verif/harness/internal/pb"
)

type stackCase struct {
	Cap   int
	Steps []int // > 0 push that many, < 0 pop that many, 0 PushWithExpand; between steps the stack is grown
	KB    int
}

func genStack(t *rapid.T) stackCase {
	return stackCase{Cap: rapid.IntRange(1, 9).Draw(t, "cap"), Steps: rapid.SliceOfN(rapid.IntRange(-4, 4), 2, 8).Draw(t, "steps"), KB: rapid.SampledFrom([]int{8, 32, 100}).Draw(t, "kb")}
}

func runStack(c stackCase, r *pb.Rec) (err error) {
	if c.Cap < 1 || c.Cap > 64 || len(c.Steps) > 16 || c.KB < 1 || c.KB > 1024 {
		return nil
	}
	g.OnFreshStack(func() { err = stackScript(c) })
	r.NonTrivialIf(len(c.Steps) >= 3)
	return err
}

//go:noinline
func stackScript(c stackCase) error {
	ring := ringz.New[int](c.Cap) // stays in this frame: only method calls take its address
	capNow, next := c.Cap, 0
	var model []int
	for i, s := range c.Steps {
		switch {
		case s > 0:
			for k := 0; k < s; k++ {
				next++
				if ok := ring.Push(next); ok != (len(model) < capNow) {
					return fmt.Errorf("ring on the stack, step %d: Push = %v with %d of %d held", i, ok, len(model), capNow)
				} else if ok {
					model = append(model, next)
				}
			}
		case s < 0:
			for k := 0; k < -s; k++ {
				v, ok := ring.Pop()
				if ok != (len(model) > 0) || (ok && v != model[0]) {
					return fmt.Errorf("ring on the stack, step %d: Pop = %d,%v, model %v", i, v, ok, model)
				}
				if ok {
					model = model[1:]
				}
			}
		default:
			next++
			full := len(model) == capNow
			ring.PushWithExpand(next)
			model = append(model, next)
			if full {
				capNow = ring.Cap()
			}
		}
		g.GrowStack(c.KB*(i+1), func() {}) // the frames of this goroutine, the ring among them, move to a larger stack
		if i%2 == 1 {
			runtime.GC() // stacks that have become too large are shrunk (moved again) during collections
		}
		if ring.Len() != len(model) {
			return fmt.Errorf("ring on the stack, after step %d and a stack move: Len = %d, model %d", i, ring.Len(), len(model))
		}
	}
	for i, w := range model {
		if v, ok := ring.Pop(); !ok || v != w {
			return fmt.Errorf("ring on the stack, final drain: element %d = %d,%v want %d", i, v, ok, w)
		}
	}
	return nil
}

func init() {
	pb.Register("ring_on_a_moving_stack", pb.Options{Base: 100,
		Rule: "a Ring (capacity 1..9) kept in a function's frame on a fresh goroutine: 2..8 steps of pushes / pops / PushWithExpand with a recursion of 8..800 KB depth after every step (the stack is re-allocated while the ring holds elements) and a forced collection after every second one; oracle: slice model (Push/Pop results, Len after every move, final drain); non-trivial = >= 3 steps"},
		genStack, runStack)
}
