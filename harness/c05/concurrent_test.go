package c05

// The usual deployment of the trie: built once, then queried from many goroutines. A query does not modify the
// trie, so what it returns must not depend on other queries running at the same time (pooled scratch buffers,
// lazily initialised state). Expected results are computed one call at a time; then 8 goroutines repeat them.

import (
	"fmt"
	"sort"
	"strings"
	"sync"
	"unicode/utf8"

	"verif/harness/internal/pb"
	"verif/harness/internal/trieg"
)

func runConcurrentQueries(c trieg.Case, r *pb.Rec) error {
	for _, p := range c.Patterns {
		if !utf8.ValidString(p) {
			return nil
		}
	}
	tr := build(c)
	text := string(c.Text)
	texts := []string{text, text + text, "", "x" + text}
	for _, p := range c.Patterns {
		if len(texts) < 8 {
			texts = append(texts, p)
		}
	}
	norm := func(s []string) string {
		s = append([]string(nil), s...)
		sort.Strings(s)
		return strings.Join(s, "\x00|")
	}
	type call struct {
		name string
		f    func(string) string
	}
	calls := []call{
		{"Match", func(s string) string { return fmt.Sprint(tr.Match(s)) }},
		{"FindAll", func(s string) string { return norm(tr.FindAll(s)) }},
		{"Replace", func(s string) string { return tr.Replace(s, c.Repl) }},
		{"ReplaceWithMask", func(s string) string { return tr.ReplaceWithMask(s, c.Mask) }},
	}
	keys := append([]string(nil), c.Keys...)
	want := make([][]string, len(calls))
	for i, cl := range calls {
		for _, in := range texts {
			want[i] = append(want[i], cl.f(in))
		}
	}
	var wantP, wantF []string
	for _, k := range keys {
		wantP = append(wantP, norm(tr.PrefixSearch(k)))
		wantF = append(wantF, norm(tr.FuzzySearch(k)))
	}
	var mu sync.Mutex
	var bad error
	fail := func(f string, a ...any) {
		mu.Lock()
		if bad == nil {
			bad = fmt.Errorf(f, a...)
		}
		mu.Unlock()
	}
	var wg sync.WaitGroup
	for gi := 0; gi < 8; gi++ {
		wg.Add(1)
		go func(gi int) {
			defer wg.Done()
			defer func() {
				if p := recover(); p != nil {
					fail("panic in a concurrent query: %v", p)
				}
			}()
			for round := 0; round < 12; round++ {
				for i := range calls {
					ci := (i + gi) % len(calls)
					for j, in := range texts {
						if got := calls[ci].f(in); got != want[ci][j] {
							fail("%s(%q) with patterns %q returns %q while 8 goroutines query the trie; called alone it returns %q", calls[ci].name, in, c.Patterns, got, want[ci][j])
							return
						}
					}
				}
				for j, k := range keys {
					if got := norm(tr.PrefixSearch(k)); got != wantP[j] {
						fail("PrefixSearch(%q) differs under concurrent queries: %q vs %q", k, got, wantP[j])
						return
					}
					if got := norm(tr.FuzzySearch(k)); got != wantF[j] {
						fail("FuzzySearch(%q) differs under concurrent queries: %q vs %q", k, got, wantF[j])
						return
					}
				}
			}
		}(gi)
	}
	wg.Wait()
	if bad != nil {
		return bad
	}
	r.NonTrivialIf(len(c.Patterns) >= 2)
	return nil
}

func init() {
	pb.Register("concurrent_queries", pb.Options{Base: 250,
		Rule: "generated pattern sets and texts (same generator as trie_queries); Match, FindAll, Replace, ReplaceWithMask on up to 8 texts and PrefixSearch/FuzzySearch on the keys are first evaluated one call at a time on the built trie, then repeated 12 times by 8 goroutines concurrently; oracle: every concurrent result equals the result of the same call made alone (queries do not modify the trie); non-trivial = at least 2 patterns"},
		trieg.Gen, runConcurrentQueries)
}
