// C05 — Trie multi-pattern queries are exact.
package c05

import (
	"fmt"
	"sort"
	"strings"
	"testing"
	"unicode/utf8"

	"github.com/welllog/golib/algz"

	"verif/harness/internal/g"
	"verif/harness/internal/pb"
	"verif/harness/internal/trieg"
)

func TestMain(m *testing.M)   { pb.Main(m) }
func TestProps(t *testing.T)  { pb.RunProps(t) }
func TestReplay(t *testing.T) { pb.RunReplay(t) }

func build(c trieg.Case) *algz.Trie {
	var t algz.Trie
	trieg.BuildStaged(c, t.Insert, t.BuildFailureLinks)
	return &t
}

func runTrie(c trieg.Case, r *pb.Rec) error {
	for _, p := range c.Patterns {
		if !utf8.ValidString(p) {
			return nil // patterns are valid UTF-8 by the property's wording
		}
	}
	tr := build(c)
	text := string(c.Text)
	salt := len(text)*3 + len(c.Patterns)
	if salt%2 == 0 {
		text = g.Window(text, salt/2) // the same text as a window into a larger string
		r.Class("text is a window into a larger string")
	}
	scan := func(text string) ([]trieg.Occ, error) {
		occ, occPats := trieg.Occurrences(c.Patterns, text)
		// Match
		if got := tr.Match(text); got != (len(occ) > 0) {
			return nil, fmt.Errorf("Match(%q) = %v with patterns %q: brute force finds %d occurrences", text, got, c.Patterns, len(occ))
		}
		// FindAll: one entry per (pattern, position)
		got := tr.FindAll(text)
		a, b := append([]string(nil), got...), append([]string(nil), occPats...)
		sort.Strings(a)
		sort.Strings(b)
		if strings.Join(a, "\x00|") != strings.Join(b, "\x00|") || len(a) != len(b) {
			return nil, fmt.Errorf("FindAll(%q) with patterns %q = %q, brute force %q", text, c.Patterns, a, b)
		}
		return occ, nil
	}
	occ, err := scan(text)
	if err != nil {
		return err
	}
	if len(text) >= 8 && salt%23 == 0 {
		// the same trie scans texts of one length and different content, each allocated, scanned and dropped, with a
		// garbage collection before the next one is allocated at (usually) the same address
		r.Class("same-length texts in recycled memory, a collection between scans")
		if err := g.Recycle(4, func(i int) error {
			_, err := scan(strings.Repeat(trieg.Rotate(text, i+1), 64/len(text)+1))
			return err
		}); err != nil {
			return err
		}
	}
	set := trieg.Distinct(c.Patterns)
	// PrefixSearch / FuzzySearch
	inSet := map[string]bool{}
	for _, p := range set {
		inSet[p] = true
	}
	for _, k := range c.Keys {
		if !utf8.ValidString(k) {
			continue
		}
		var want []string
		for _, p := range set {
			if strings.HasPrefix(p, k) {
				want = append(want, p)
			}
		}
		held := tr.PrefixSearch(k)
		heldCopy := make([]string, len(held))
		for i, x := range held {
			heldCopy[i] = strings.Clone(x)
		}
		for _, k2 := range c.Keys { // later queries must not disturb results handed out earlier
			tr.FuzzySearch(k2 + k)
			tr.PrefixSearch(k2)
		}
		for i := range held {
			if held[i] != heldCopy[i] {
				return fmt.Errorf("PrefixSearch(%q): result %q changed to %q after later queries", k, heldCopy[i], held[i])
			}
		}
		ps := append([]string(nil), tr.PrefixSearch(k)...)
		sort.Strings(ps)
		if strings.Join(ps, "\x00|") != strings.Join(want, "\x00|") || len(ps) != len(want) {
			return fmt.Errorf("PrefixSearch(%q) with patterns %q = %q want %q", k, c.Patterns, ps, want)
		}
		multi := false
		for _, p := range want {
			multi = multi || len(p) != utf8.RuneCountInString(p)
		}
		r.ClassIf(multi && len(want) >= 2, "multi-byte pattern in prefix search with >= 2 results")
		for _, f := range tr.FuzzySearch(k) {
			if !inSet[f] {
				return fmt.Errorf("FuzzySearch(%q) with patterns %q returned %q which is not an inserted pattern", k, c.Patterns, f)
			}
			r.Class("fuzzy search returned a pattern")
		}
	}
	// classes
	overlap, nested, suffixBoth := false, false, false
	for i := range occ {
		for j := range occ {
			if i == j {
				continue
			}
			x, y := occ[i], occ[j]
			if x.Start < y.Start && y.Start < x.Stop && x.Stop < y.Stop {
				overlap = true
			}
			if x.Start <= y.Start && y.Stop <= x.Stop && (x != y) {
				nested = true
				if x.Stop == y.Stop && x.Start < y.Start {
					suffixBoth = true
				}
			}
		}
	}
	r.ClassIf(suffixBoth, "pattern is a proper suffix of another and both occur")
	r.ClassIf(!utf8.ValidString(text), "invalid-UTF-8 text")
	r.ClassIf(c.Shape == "wide", "queue grew (wide pattern set)")
	r.ClassIf(len(occ) == 0, "no occurrence")
	r.ClassIf(len(occ) > 256, "more than 256 occurrences")
	r.ClassIf(len(c.Stages) > 0, "failure links rebuilt after further inserts")
	r.NonTrivialIf(overlap || nested)
	return nil
}

// native fuzz (thorough): patterns decoded from a blob (valid UTF-8 by construction), arbitrary text
func FuzzTrie(f *testing.F) {
	f.Add("ab\nde\nbcdef", []byte("abcdef"))
	f.Add("日本\n日月", []byte("日本日月\xe6\x97"))
	f.Add("�", []byte("\xff"))
	f.Add("he\nshe\nhers\nhis", []byte("ushers"))
	f.Add("a\naa\naaa", []byte("aaaa"))
	f.Fuzz(func(t *testing.T, blob string, text []byte) {
		blob = strings.ToValidUTF8(blob, "�")
		pats := strings.Split(blob, "\n")
		if len(pats) > 16 || len(text) > 200 {
			return
		}
		keys := []string{}
		for _, p := range pats {
			if p != "" {
				_, sz := utf8.DecodeRuneInString(p)
				keys = append(keys, p[:sz], p)
			}
		}
		if err := runTrie(trieg.Case{Patterns: pats, Text: text, Keys: keys}, nil); err != nil {
			t.Fatal(err)
		}
	})
}

func init() {
	pb.Register("trie_queries", pb.Options{Twins: 3, Base: 10000,
		Required: []string{"pattern is a proper suffix of another and both occur", "multi-byte pattern in prefix search with >= 2 results", "invalid-UTF-8 text", "queue grew (wide pattern set)", "fuzzy search returned a pattern", "no occurrence", "failure links rebuilt after further inserts", "more than 256 occurrences"},
		Rule:     "pattern sets built by construction from a drawn core string (prefixes, suffixes, infixes, duplicates, extensions), random sets, wide sets (12/25/45 distinct first runes), the left-merge and touching shapes; one third of the cases build the failure links incrementally (Insert, Build, Insert, Build); alphabets of 5-14 runes of widths 1-4 always containing U+FFFD; texts = concatenations of patterns, near-misses and filler, one third with damaged UTF-8 (deleted/substituted bytes, invalid chunks, cut runes); keys = prefixes, suffix-overlaps, near-misses; oracle: byte-level brute force (Match <=> some occurrence, FindAll multiset, PrefixSearch set without duplicates, FuzzySearch subset of patterns, no panic); non-trivial = >= 2 occurrences that overlap or nest"},
		trieg.Gen, runTrie)
}
