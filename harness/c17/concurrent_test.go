package c17

// The helpers are pure functions of their arguments: what one call returns must not depend on other goroutines
// calling the same helpers at the same time (shared scratch buffers, pools). Expected results are computed one
// call at a time first; then the same calls run from 8 goroutines at once, each result compared.

import (
	"fmt"
	"sync"
	"unicode"

	"github.com/welllog/golib/strz"
	"pgregory.net/rapid"

	"verif/harness/internal/g"
	"verif/harness/internal/pb"
)

type concCase struct {
	Inputs []g.B // bytes: JSON would not preserve invalid UTF-8 in strings
	A, B   int
}

func genConc(t *rapid.T) concCase {
	var in []g.B
	for _, s := range append(rapid.SliceOfN(g.UTF8(12), 2, 6).Draw(t, "inputs"), "", rapid.SampledFrom([]string{"x", "中", "\xff", "é"}).Draw(t, "short")) { // the last two: inputs on which the helpers have nothing to do
		in = append(in, g.B(s))
	}
	return concCase{Inputs: in, A: rapid.IntRange(0, 6).Draw(t, "a"), B: rapid.IntRange(0, 6).Draw(t, "b")}
}

func runConc(c concCase, r *pb.Rec) error {
	if len(c.Inputs) > 16 || c.A < 0 || c.B < 0 || c.A > 100 || c.B > 100 {
		return nil
	}
	type call struct {
		name string
		f    func(string) string
	}
	calls := []call{
		{"Rev", strz.Rev},
		{"Sub", func(s string) string { return strz.Sub(s, c.A, c.B) }},
		{"Mask", func(s string) string { return strz.Mask(s, "*", c.A, c.B) }},
		{"SubByDisplay", func(s string) string { return strz.SubByDisplay(s, c.A+c.B) }},
		{"RemoveRunes", func(s string) string { return strz.RemoveRunes(s, unicode.IsLetter) }},
		{"Len", func(s string) string { return fmt.Sprint(strz.Len(s)) }},
		{"SnakeToCamelCase", func(s string) string { return strz.SnakeToCamelCase(s, c.A%2 == 0) }},
		{"CamelCaseToSnake", strz.CamelCaseToSnake},
	}
	want := make([][]string, len(calls))
	for i, cl := range calls {
		for _, in := range c.Inputs {
			want[i] = append(want[i], cl.f(string(in)))
		}
	}
	var mu sync.Mutex
	var bad error
	var wg sync.WaitGroup
	for gi := 0; gi < 8; gi++ {
		wg.Add(1)
		go func(gi int) {
			defer wg.Done()
			defer func() {
				if p := recover(); p != nil {
					mu.Lock()
					if bad == nil {
						bad = fmt.Errorf("panic in a concurrent caller: %v", p)
					}
					mu.Unlock()
				}
			}()
			for round := 0; round < 40; round++ {
				for i := range calls {
					ci := (i + gi) % len(calls)
					for j, inb := range c.Inputs {
						in := string(inb)
						if got := calls[ci].f(in); got != want[ci][j] {
							mu.Lock()
							if bad == nil {
								bad = fmt.Errorf("%s(%q) = %q while 8 goroutines call the helpers concurrently; called alone it returns %q", calls[ci].name, in, got, want[ci][j])
							}
							mu.Unlock()
							return
						}
					}
				}
			}
		}(gi)
	}
	wg.Wait()
	if bad != nil {
		return bad
	}
	r.NonTrivial()
	return nil
}

func init() {
	pb.Register("concurrent_callers", pb.Options{Base: 150,
		Rule: "3..8 strings (always including the empty string and a one-rune string) and two small integer arguments; Rev, Sub, Mask, SubByDisplay, RemoveRunes, Len, SnakeToCamelCase and CamelCaseToSnake are first evaluated one call at a time, then 8 goroutines repeat all calls 40 times concurrently; oracle: every concurrent result equals the result of the same call made alone (the functions are pure); every case is non-trivial"},
		genConc, runConc)
}
