// C17 — Rune-aware string helpers never split a rune and match rune-slice definitions.
package c17

import (
	"fmt"
	"math"
	"strconv"
	"strings"
	"testing"
	"unicode/utf8"

	"github.com/welllog/golib/strz"
	"pgregory.net/rapid"

	"verif/harness/internal/g"
	"verif/harness/internal/pb"
)

func TestMain(m *testing.M)   { pb.Main(m) }
func TestProps(t *testing.T)  { pb.RunProps(t) }
func TestReplay(t *testing.T) { pb.RunReplay(t) }

type strCase struct {
	Fn   string // sub | mask | display | rev | remove
	Rep  int    // > 1: the text is S repeated this many times
	S    g.B
	Mask g.B
	A, B int
	Set  []rune
}

func genStr(t *rapid.T) strCase {
	c := strCase{Fn: rapid.SampledFrom([]string{"sub", "mask", "display", "rev", "remove"}).Draw(t, "fn")}
	invalid := rapid.IntRange(0, 3).Draw(t, "invalid") == 0
	if invalid {
		c.S = []byte(g.Bytes(8).Draw(t, "s"))
	} else {
		c.S = []byte(g.UTF8(10).Draw(t, "s"))
	}
	if rapid.IntRange(0, 19).Draw(t, "long") == 0 {
		c.Rep = rapid.SampledFrom([]int{2, 3, 7, 13, 26, 27, 28, 29, 30, 31, 26, 27, 28, 29, 30, 31, 52, 100, 400, 3000, 7000}).Draw(t, "rep")
	}
	n := utf8.RuneCount(c.S) * max(c.Rep, 1)
	arg := rapid.OneOf(rapid.IntRange(0, n+3), rapid.IntRange(0, n+3), rapid.SampledFrom(append(g.FitInt([]int64{1<<62 - 1, 1<<63 - 1, 1 << 31}), 1<<30, 1<<31-1)))
	c.A = arg.Draw(t, "a")
	c.B = arg.Draw(t, "b")
	switch c.Fn {
	case "sub":
		if rapid.IntRange(0, 4).Draw(t, "toEnd") == 0 {
			c.B = -1
		}
	case "mask":
		k := rapid.IntRange(1, 3).Draw(t, "masklen")
		if invalid && rapid.Bool().Draw(t, "badmask") {
			c.Mask = []byte(rapid.SampledFrom(g.InvalidChunks).Draw(t, "mask"))
		} else {
			c.Mask = []byte(string(rapid.SliceOfN(g.Rune(), k, k).Draw(t, "mask")))
		}
	case "display":
		c.A = rapid.OneOf(rapid.IntRange(0, 2*n+3), rapid.SampledFrom(append(g.FitInt([]int64{1<<63 - 1}), 1<<30, 1<<31-1))).Draw(t, "limit")
	case "remove":
		rs := []rune(string(c.S))
		k := rapid.IntRange(0, 3).Draw(t, "nset")
		for i := 0; i < k; i++ {
			if len(rs) > 0 && rapid.Bool().Draw(t, "fromS") {
				c.Set = append(c.Set, rs[rapid.IntRange(0, len(rs)-1).Draw(t, "i")])
			} else {
				c.Set = append(c.Set, g.Rune().Draw(t, "r"))
			}
		}
	}
	return c
}

// short renders a long text by its ends.
func short(s string) string {
	if len(s) <= 80 {
		return fmt.Sprintf("%q", s)
	}
	return fmt.Sprintf("%q...%q (%d bytes)", s[:40], s[len(s)-24:], len(s))
}

func sat(a, b int) int { // saturating add for reference arithmetic
	if s := int64(a) + int64(b); a > math.MaxInt/2 || b > math.MaxInt/2 || s > math.MaxInt/2 {
		return math.MaxInt / 2
	}
	return a + b
}

func runStr(c strCase, r *pb.Rec) error {
	if c.Rep < 0 || c.Rep > 20000 || len(c.S)*max(c.Rep, 1) > 1<<20 {
		return nil
	}
	s := strings.Repeat(string(c.S), max(c.Rep, 1))
	salt := len(s) + c.A + c.B
	if salt%2 == 0 {
		// the same text as a window into a larger string whose neighbouring bytes look like more text
		s = g.Window(s, salt/2)
		r.Class("argument is a window into a larger string")
	}
	if err := evalStr(c, s, r); err != nil {
		return err
	}
	r.ClassIf(len(s) >= 256, "text of >= 256 bytes")
	r.ClassIf(len(s) >= 256 && len(s)%16 >= 8, "text of >= 256 bytes whose length is 8..15 modulo 16")
	r.ClassIf(len(s) >= 65536, "text of >= 65536 bytes")
	if len(s) >= 16 && salt%41 == 0 {
		// texts of the same length and different content, one after the other in recycled memory: each is allocated,
		// used and dropped, and a garbage collection runs before the next one is allocated (it usually gets the same
		// address). A helper that remembers its argument by address meets other content at the same place.
		rs := []rune(s)
		r.Class("same-length texts in recycled memory, a collection between calls")
		if c.Fn == "sub" && utf8.ValidString(s) {
			// with as few other allocations as possible between the rounds, so that the text of the next round
			// really gets the memory of the previous one: one reused rune buffer, one string per round
			tmp := make([]rune, len(rs))
			n := len(rs)
			if err := g.Recycle(8, func(i int) error {
				k := (i + 1) * 7 % n
				copy(tmp, rs[k:])
				copy(tmp[n-k:], rs[:k])
				v := string(tmp)
				got := strz.Sub(v, c.A, c.B)
				lo, hi := min(c.A, n), n
				if c.B != -1 {
					hi = min(sat(c.A, c.B), n)
				}
				if lo > hi {
					lo = hi
				}
				if want := string(tmp[lo:hi]); got != want {
					return fmt.Errorf("Sub(text %d of a series of same-length texts in recycled memory (%d bytes), %d, %d) = %s want %s", i, len(v), c.A, c.B, short(got), short(want))
				}
				return nil
			}); err != nil {
				return err
			}
		}
		return g.Recycle(4, func(i int) error {
			k := (i + 1) * 7 % len(rs)
			v := string(append(append(make([]rune, 0, len(rs)), rs[k:]...), rs[:k]...))
			if len(v) != len(s) && utf8.ValidString(s) {
				return fmt.Errorf("HARNESS: rotation changed the length")
			}
			return evalStr(c, v, &pb.Rec{})
		})
	}
	return nil
}

func evalStr(c strCase, s string, r *pb.Rec) error {
	valid := utf8.ValidString(s)
	rs := []rune(s)
	n := len(rs)
	var got, want string
	switch c.Fn {
	case "sub":
		got = strz.Sub(s, c.A, c.B)
		switch {
		case c.A >= n:
			want = ""
		case c.B == -1:
			want = string(rs[c.A:])
		default:
			e := sat(c.A, c.B)
			if e > n {
				e = n
			}
			want = string(rs[c.A:e])
		}
		r.ClassIf(c.A >= n, "start beyond length")
		r.ClassIf(c.B == -1, "to the end")
	case "mask":
		mask := string(c.Mask)
		got = strz.Mask(s, mask, c.A, c.B)
		ml := n - c.A - c.B
		if c.A > n || c.B > n || ml <= 0 {
			want = s
		} else {
			m := mask
			if utf8.RuneCountInString(mask) == 1 {
				m = strings.Repeat(mask, ml)
			}
			want = string(rs[:c.A]) + m + string(rs[n-c.B:])
		}
		valid = valid && utf8.Valid(c.Mask)
		r.ClassIf(utf8.RuneCount(c.Mask) > 1, "multi-rune mask")
		r.ClassIf(ml > 0 && c.A > 0 && c.B > 0, "both ends kept")
	case "display":
		got = strz.SubByDisplay(s, c.A)
		w, end := 0, 0
		for i, v := range s {
			d := 2
			if v < utf8.RuneSelf {
				d = 1
			}
			if w+d > c.A {
				break
			}
			w += d
			end = i + utf8.RuneLen(v)
			if v == utf8.RuneError && !valid {
				_, sz := utf8.DecodeRuneInString(s[i:])
				end = i + sz
			}
		}
		want = s[:end]
	case "rev":
		got = strz.Rev(s)
		rv := make([]rune, n)
		for i, x := range rs {
			rv[n-1-i] = x
		}
		want = string(rv)
	case "remove":
		in := func(x rune) bool {
			for _, y := range c.Set {
				if x == y {
					return true
				}
			}
			return false
		}
		got = strz.RemoveRunes(s, in)
		var keep []rune
		hit := false
		for _, x := range rs {
			if !in(x) {
				keep = append(keep, x)
			} else {
				hit = true
			}
		}
		want = string(keep)
		r.ClassIf(hit, "rune removed")
	}
	if l := strz.Len(s); l != n {
		return fmt.Errorf("Len(%.60q... of %d bytes) = %d want %d", s, len(s), l, n)
	}
	// the result must not change when the same helper is called again with other input (no pooled buffers)
	keep := strings.Clone(got)
	other := "\u00e9" + s + "zz"
	switch c.Fn {
	case "sub":
		strz.Sub(other, 1, 2)
	case "mask":
		strz.Mask(other, "#", 1, 1)
	case "display":
		strz.SubByDisplay(other, 3)
	case "rev":
		strz.Rev(other)
	case "remove":
		strz.RemoveRunes(other, func(x rune) bool { return x == 'z' })
	}
	if got != keep {
		return fmt.Errorf("%s(%q, ...): the returned string changed from %q to %q after a later call", c.Fn, s, keep, got)
	}
	if valid {
		if got != want {
			return fmt.Errorf("%s(%s, mask=%q, %d, %d, set=%q) = %s want %s", c.Fn, short(s), c.Mask, c.A, c.B, string(c.Set), short(got), short(want))
		}
		if !utf8.ValidString(got) {
			return fmt.Errorf("%s(%q,...) = %q is not valid UTF-8", c.Fn, s, got)
		}
	}
	multi := false
	for _, x := range rs {
		multi = multi || x >= utf8.RuneSelf
	}
	r.NonTrivialIf(n >= 2 && multi)
	r.ClassIf(!valid, "invalid UTF-8 input")
	r.ClassIf(c.A > n+3 || c.B > n+3, "huge argument")
	return nil
}

type snakeCase struct {
	Words   []string
	FirstUp bool
}

func genSnake(t *rapid.T) snakeCase {
	word := rapid.Custom(func(t *rapid.T) string {
		b := []byte{byte(rapid.IntRange('a', 'z').Draw(t, "c0"))}
		for i, k := 0, rapid.IntRange(0, 5).Draw(t, "len"); i < k; i++ {
			b = append(b, rapid.SampledFrom([]byte("abcxyz0123456789")).Draw(t, "c"))
		}
		return string(b)
	})
	return snakeCase{Words: rapid.SliceOfN(word, 1, 5).Draw(t, "words"), FirstUp: rapid.Bool().Draw(t, "firstUp")}
}

func runSnake(c snakeCase, r *pb.Rec) error {
	x := strings.Join(c.Words, "_")
	for _, w := range c.Words { // replay safety: stay inside the grammar word = [a-z][a-z0-9]*
		if w == "" || w[0] < 'a' || w[0] > 'z' {
			return nil
		}
		for i := 0; i < len(w); i++ {
			if !(w[i] >= 'a' && w[i] <= 'z' || w[i] >= '0' && w[i] <= '9') {
				return nil
			}
		}
	}
	camel := strz.SnakeToCamelCase(x, c.FirstUp)
	back := strz.CamelCaseToSnake(camel)
	if back != x {
		return fmt.Errorf("CamelCaseToSnake(SnakeToCamelCase(%q,%v)=%q) = %q", x, c.FirstUp, camel, back)
	}
	if strings.Contains(camel, "_") {
		return fmt.Errorf("SnakeToCamelCase(%q) = %q still contains '_'", x, camel)
	}
	if len(x)%97 == 13 {
		// the same identifier again after 5000 other identifiers went through both functions: still the same answer
		for i := 0; i < 5000; i++ {
			o := "w" + strconv.Itoa(i) + "_q" + strconv.Itoa(i%7) + "_z"
			if b := strz.CamelCaseToSnake(strz.SnakeToCamelCase(o, i%2 == 0)); b != o {
				return fmt.Errorf("CamelCaseToSnake(SnakeToCamelCase(%q)) = %q", o, b)
			}
		}
		if c2, b2 := strz.SnakeToCamelCase(x, c.FirstUp), strz.CamelCaseToSnake(camel); c2 != camel || b2 != x {
			return fmt.Errorf("after 5000 other identifiers: SnakeToCamelCase(%q) = %q (before %q), CamelCaseToSnake(%q) = %q (before %q)", x, c2, camel, camel, b2, x)
		}
		r.Class("identifier converted again after 5000 others")
	}
	r.NonTrivialIf(len(c.Words) >= 2)
	r.ClassIf(c.FirstUp, "firstUp")
	return nil
}

// native fuzz target (thorough tier): same oracle, inputs decoded from (string, ints)
func FuzzStrs(f *testing.F) {
	for _, s := range []string{"", "abc", "日本語", "a\xffb", "\xe6\x97", "héllo wörld", "\xf0\x9f\x98\x80x", "\xff\xffabc"} {
		for fn := 0; fn < 5; fn++ {
			f.Add(s, "*", fn, 1, 2)
		}
	}
	fns := []string{"sub", "mask", "display", "rev", "remove"}
	f.Fuzz(func(t *testing.T, s, mask string, fn, a, b int) {
		if fn < 0 {
			fn = -(fn + 1)
		}
		if a < 0 || b < -1 || (b < 0 && fns[fn%5] != "sub") {
			return
		}
		if utf8.RuneCountInString(mask) == 0 {
			mask = "*"
		}
		c := strCase{Fn: fns[fn%5], S: []byte(s), Mask: []byte(mask), A: a, B: b, Set: []rune(mask)}
		if err := runStr(c, nil); err != nil {
			t.Fatal(err)
		}
	})
}

func init() {
	pb.Register("helpers", pb.Options{Twins: 3, Base: 40000, Required: []string{"invalid UTF-8 input", "huge argument", "start beyond length", "multi-rune mask", "rune removed", "text of >= 256 bytes whose length is 8..15 modulo 16", "text of >= 65536 bytes", "argument is a window into a larger string", "same-length texts in recycled memory, a collection between calls"},
		Rule: "Sub/Mask/SubByDisplay/Rev/RemoveRunes and Len on strings of 0..10 runes mixing 1-4 byte runes (1 in 4 with invalid byte sequences), in one case in twenty repeated 2..7000 times (texts up to some 200 KB), arguments 0..runes+3 and huge; half of the texts are passed as windows into larger strings (continuation bytes, digits, escapes as neighbours); one case in forty repeats the call on 4 same-length rotations of the text, each freshly allocated after a forced garbage collection; oracle = []rune definitions + utf8.ValidString for valid input, no panic for any input; non-trivial = >= 2 runes with a multi-byte or invalid one"},
		genStr, runStr)
	pb.Register("snake_camel", pb.Options{Base: 8000, Required: []string{"identifier converted again after 5000 others"}, Rule: "identifiers word(_word)*, word=[a-z][a-z0-9]*, both firstUp values; oracle CamelCaseToSnake(SnakeToCamelCase(x)) == x; non-trivial = >= 2 words"},
		genSnake, runSnake)
}
