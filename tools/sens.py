#!/usr/bin/env python3
"""Sensitivity protocol runner (DESIGN.md §6): applies each hand-written mutant of tools/mutants.py
(or the seeded changes under /verif/seeded) to a scratch worktree of /repo, checks that it compiles
and passes the package's own tests, runs the corresponding check against it (VERIF_REPO) and records
whether the check reported a violation.

  tools/sens.py [--only SUBSTR] [--tier quick|thorough] [--jobs N] [--seeded]
"""
import argparse, json, os, subprocess, sys, tempfile, shutil, time
from concurrent.futures import ThreadPoolExecutor
ROOT = os.path.dirname(os.path.dirname(os.path.abspath(__file__)))
sys.path.insert(0, os.path.join(ROOT, "tools"))
from mutants import M

ENV = dict(os.environ, GOFLAGS="-mod=mod", GOPROXY="off", GOSUMDB="off", GOTOOLCHAIN="local")


def sh(cmd, **kw):
    return subprocess.run(cmd, stdout=subprocess.PIPE, stderr=subprocess.STDOUT, text=True, **kw)


# --fast: the existing tests of the touched packages are not re-run (for seeded changes tools/seed_intake.py did that) and
# the check stops its remaining jobs as soon as one job has reported the change (VERIF_STOP_AT_FIRST)
FAST = "--fast" in sys.argv


def run_one(mu, tier, seed):
    wt = tempfile.mkdtemp(prefix="mut_")
    os.rmdir(wt)
    res = dict(name=mu["name"], prop=mu["prop"], expect=mu["expect"])
    try:
        r = sh(["git", "-C", "/repo", "worktree", "add", "--detach", "-f", wt, "HEAD"])
        if r.returncode != 0:
            res["status"] = "worktree-failed: " + r.stdout[-300:]
            return res
        if "patch" in mu:
            r = sh(["git", "-C", wt, "apply", mu["patch"]])
            if r.returncode != 0:
                res["status"] = "patch-failed: " + r.stdout[-300:]
                return res
            pkgs = mu.get("pkgs", ["./..."])
        else:
            f = os.path.join(wt, mu["file"])
            src = open(f).read()
            if src.count(mu["old"]) < 1:
                res["status"] = "old-text-not-found"
                return res
            open(f, "w").write(src.replace(mu["old"], mu["new"], 1))
            pkgs = ["./" + os.path.dirname(mu["file"]) + "/"]
        r = sh(["go", "build", "./..."], cwd=wt, env=ENV)
        if r.returncode != 0:
            res["status"] = "does-not-compile: " + r.stdout[-400:]
            return res
        if FAST:
            res["own_tests"] = "(verified at intake)"
        else:
            t0 = time.time()
            r = sh(["go", "test", "-vet=off", "-count=1", "-timeout", "180s"] + pkgs, cwd=wt, env=ENV)
            res["own_tests"] = "pass" if r.returncode == 0 else "FAIL"
            res["own_tests_s"] = round(time.time() - t0, 1)
        t0 = time.time()
        r = sh([os.path.join(ROOT, "check"), mu["prop"], "--tier", tier], cwd=ROOT, env=dict(os.environ, VERIF_REPO=wt, VERIF_SEED=str(seed), **({"VERIF_STOP_AT_FIRST": "1"} if FAST else {})))
        res["check_rc"] = r.returncode
        res["check_s"] = round(time.time() - t0, 1)
        viol = [l for l in r.stdout.splitlines() if l.startswith("  violation detail") or l.startswith("VIOLATION")]
        res["detail"] = (viol[0][:200] if viol else r.stdout[-300:])
        subs = set()
        for l in r.stdout.splitlines():
            if l.startswith("VIOLATION"):
                base = os.path.basename(l.split("replay=")[-1])
                if base.startswith("race-"):
                    subs.add("race detector (" + base[5:].split(".")[0].rsplit("_", 1)[0] + ")")
                elif base.startswith("fuzz-"):
                    subs.add("native fuzz")
                elif base.count(".") >= 3:
                    subs.add(base.split(".")[1])
                else:
                    subs.add("replay:" + base)
        res["reported_by"] = sorted(subs)
        caught = r.returncode == 1
        res["status"] = "caught" if caught else ("green" if r.returncode == 0 else "no-verdict")
        res["ok"] = (res["status"] == mu["expect"])
        return res
    finally:
        sh(["git", "-C", "/repo", "worktree", "remove", "--force", wt])
        shutil.rmtree(wt, ignore_errors=True)
        # the check copies replays of violations into out/replays: these belong to the mutant, drop them
        shutil.rmtree(os.path.join(ROOT, "out", "replays", mu["prop"]), ignore_errors=True)


def main():
    ap = argparse.ArgumentParser()
    ap.add_argument("--only", default="")
    ap.add_argument("--tier", default="quick")
    ap.add_argument("--jobs", type=int, default=3)
    ap.add_argument("--seed", type=int, default=1)
    ap.add_argument("--seeded", action="store_true")
    ap.add_argument("--fast", action="store_true")
    a = ap.parse_args()
    todo = M
    if a.seeded:
        todo = []
        sd = os.path.join(ROOT, "seeded")
        for d in sorted(os.listdir(sd)):
            if not os.path.exists(os.path.join(sd, d, "meta.json")):
                continue  # seeded/rejected: examined and found not to break the property as stated
            meta = json.load(open(os.path.join(sd, d, "meta.json")))
            todo.append(dict(name=d, prop=meta["property"], patch=os.path.join(sd, d, "patch.diff"), expect="caught", pkgs=meta.get("packages", ["./..."])))
    todo = [m for m in todo if a.only in m["name"] or a.only == m["prop"]]
    out = []
    with ThreadPoolExecutor(max_workers=a.jobs) as ex:
        for r in ex.map(lambda m: run_one(m, a.tier, a.seed), todo):
            out.append(r)
            print("%-34s %-4s expect=%-6s -> %-10s own_tests=%s %ss  %s" % (r["name"], r["prop"], r["expect"], r.get("status"), r.get("own_tests"), r.get("check_s"), "" if r.get("ok") else "<<<<< " + str(r.get("detail", ""))[:160]), flush=True)
    os.makedirs(os.path.join(ROOT, "out"), exist_ok=True)
    json.dump(out, open(os.path.join(ROOT, "out", "sens_%s%s.json" % (a.tier, "_seeded" if a.seeded else "")), "w"), indent=1)
    bad = [r for r in out if not r.get("ok")]
    print("%d mutants, %d as expected, %d not" % (len(out), len(out) - len(bad), len(bad)))


if __name__ == "__main__":
    main()
