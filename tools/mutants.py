"""Hand-written mutants for the sensitivity protocol (DESIGN.md §6).

Each entry: (name, property, file, old, new, expect) with expect in {"caught", "green"}.
"green" = negative control: the change keeps the property, the check must stay silent.
Applied to a scratch worktree of /repo (never to /repo itself) by tools/sens.py.
"""

M = []


def m(name, prop, file, old, new, expect="caught"):
    M.append(dict(name=name, prop=prop, file=file, old=old, new=new, expect=expect))


# ---- reverts of the fix: commits (the original defects must still be flagged) -----------------
m("F11-revert", "C20", "randz/id.go", "for i := 0; i < len(decodeBase32Map); i++ {\n\t\tdecodeBase32Map[i] = 0xFF", "for i := 0; i < len(encodeBase32Map); i++ {\n\t\tdecodeBase32Map[i] = 0xFF")
m("F10-variant", "C17", "strz/strs.go", "\tvar dpl int\n\tfor i, v := range s {", "\tvar dpl, end int\n\tfor _, v := range s {\n\t\ti := end\n\t\tend += utf8.RuneLen(v)")
m("F12-revert", "C17", "strz/strs.go", "\tif start >= l || end >= l {\n\t\treturn str\n\t}\n", "")
m("F7-revert", "C09", "cryptz/crypt.go", "n, err := io.ReadFull(stream, saltHeader)", "n, err := stream.Read(saltHeader)")
m("F1-revert", "C02", "listz/skip.go", "func (s *SkipList[K, V]) RangeWithStart(start K, f func(key K, val V) bool) {\n\tif s.len == 0 {\n\t\treturn\n\t}\n", "func (s *SkipList[K, V]) RangeWithStart(start K, f func(key K, val V) bool) {\n")
m("F2-revert", "C02", "listz/skip.go", "\tif s.head.next == nil {\n\t\t// zero value: nothing to clear, keep it lazily initialized\n\t\treturn\n\t}\n", "")
m("F3-revert", "C03", "setz/roaring_bitmap.go", "\t\ti.node = i.node.Next()\n\t\ti.iter = nil\n", "\t\ti.node = i.node.Next()\n")
m("F6-revert", "C06", "algz/trie.go", "\t\t\tif back {\n\t\t\t\ti--\n\t\t\t}\n", "\t\t\t_ = back\n")
m("F8-revert", "C11", "listz/sync_list.go", "\t\t\tatomic.AddInt64(&l.len, 1)\n\t\t\t// atomic.CompareAndSwapPointer(&l.tail, tail, node)\n\t\t\tatomic.StorePointer(&l.tail, node)\n", "\t\t\tatomic.StorePointer(&l.tail, node)\n\t\t\tatomic.AddInt64(&l.len, 1)\n")
m("F9-revert", "C12", "mapz/safekv.go", "\ts.mu.RLock()\n\tkeys := make([]K, 0, len(s.entries))\n", "\tkeys := make([]K, 0, len(s.entries))\n\ts.mu.RLock()\n")
m("F5-revert-find", "C06", "algz/trie.go", "\t\tif r == utf8.RuneError && size == 1 {\n\t\t\t// an invalid byte is not the rune U+FFFD: it matches nothing\n\t\t\tnode = &t.root\n\t\t\tcontinue\n\t\t}\n", "")
m("F5-revert-match", "C05", "algz/trie.go", "\t\tif v == utf8.RuneError && size == 1 {\n\t\t\t// an invalid byte is not the rune U+FFFD: it matches nothing\n\t\t\tnode = &t.root\n\t\t\tcontinue\n\t\t}\n", "")
m("F4-revert", "C05", "algz/trie.go", "\t\t\tnext := stack[last-1]\n\t\t\tbuf.Truncate(next.node.size - utf8.RuneLen(next.r))\n\t\t\tcontinue", "\t\t\tback := int(cur.depth + 1 - stack[last-1].depth)\n\t\t\tbuf.Truncate(buf.Len() - back)\n\t\t\tcontinue")

# ---- C01 SyncRing ---------------------------------------------------------------------------------
m("C01-publish-before-value", "C01", "ringz/sync.go", "\tholder.value = value\n\t// atomic.AddUint32(&holder.pos, 1)\n\tatomic.StoreUint32(&holder.pos, seq+1)\n", "\tatomic.StoreUint32(&holder.pos, seq+1)\n\tholder.value = value\n")
m("C01-drop-seq-test", "C01", "ringz/sync.go", "\tif pos != seq {\n\t\treturn false\n\t}\n", "\t_ = seq\n")
m("C01-release-seq-plus-cap", "C01", "ringz/sync.go", "atomic.StoreUint32(&holder.pos, seq+r.mask)", "atomic.StoreUint32(&holder.pos, seq+r.cap)")
m("C01-len-no-clamp", "C01", "ringz/sync.go", "\tif l > r.cap {\n\t\treturn int(r.cap)\n\t}\n", "")
m("C01-plain-store-pos", "C01", "ringz/sync.go", "\tatomic.StoreUint32(&holder.pos, seq+1)\n\treturn true", "\tholder.pos = seq + 1\n\treturn true")
m("C01-pop-reads-after-release", "C01", "ringz/sync.go", "\tvalue := holder.value\n\tholder.value = zero\n\t// atomic.AddUint32(&holder.pos, r.mask)\n\tatomic.StoreUint32(&holder.pos, seq+r.mask)\n\treturn value, true", "\tatomic.StoreUint32(&holder.pos, seq+r.mask)\n\tvalue := holder.value\n\tholder.value = zero\n\treturn value, true")

# ---- C02 ------------------------------------------------------------------------------------------
m("C02-remove-level0-only", "C02", "listz/skip.go", "\tfor i := 0; i < curLevel; i++ {\n\t\tupdate[i].next[i] = cur.next[i]\n\t}\n\tcur.next = nil\n\n\tif curLevel >= s.level {", "\tfor i := 0; i < 1; i++ {\n\t\tupdate[i].next[i] = cur.next[i]\n\t}\n\n\tif curLevel >= s.level {")
m("C02-range-end-inclusive", "C02", "listz/skip.go", "\t\tif key >= end {\n\t\t\treturn false\n\t\t}", "\t\tif key > end {\n\t\t\treturn false\n\t\t}")
m("C02-setx-inserts", "C02", "listz/skip.go", "\tif mode == 1 {\n\t\t// set the value if the key exists\n\t\treturn false\n\t}\n", "")
m("C02-cmp-range-start", "C02", "listz/skip_cmp.go", "\t\tif s.cmp(key, end) >= 0 {", "\t\tif s.cmp(key, end) > 0 {")

# ---- C03 ------------------------------------------------------------------------------------------
m("C03-length-4096", "C03", "setz/roaring_bitmap.go", "newContainer.length = 4097", "newContainer.length = 4096")
m("C03-keep-empty-bucket", "C03", "setz/roaring_bitmap.go", "\t\tif c.Len() == 0 {\n\t\t\tr.containers.Remove(high)\n\t\t}\n", "", "green")
m("C03-search-off-by-one", "C03", "setz/roaring_bitmap.go", "\t\tif values[mid] < x {\n\t\t\tlow = mid + 1", "\t\tif values[mid] <= x && mid+1 < len(values) && values[mid+1] <= x {\n\t\t\tlow = mid + 1")

# ---- C04 ------------------------------------------------------------------------------------------
m("C04-swap-one-index", "C04", "heapz/heap.go", "\ts[i].index = i\n\ts[j].index = j\n", "\ts[i].index = i\n")
m("C04-fix-without-up", "C04", "heapz/adjustment.go", "\tif !down(s, cmp, swap, index, tail) {\n\t\tup(s, cmp, swap, index)\n\t}", "\tdown(s, cmp, swap, index, tail)")
m("C04-pop-keeps-heap", "C04", "heapz/heap.go", "\te.heap = nil\n\te.index = -1\n\treturn e", "\te.index = -1\n\treturn e")
m("C04-std-remove-no-up", "C04", "heapz/std_heap.go", "\t\tif !std_down(h, i, n) {\n\t\t\tstd_up(h, i)\n\t\t}\n\t}\n\treturn h.Pop()", "\t\tstd_down(h, i, n)\n\t}\n\treturn h.Pop()")

# ---- C05 / C06 --------------------------------------------------------------------------------------
m("C05-first-end-only", "C05", "algz/trie.go", "\t\t\t\tif tempNode.isEnd {\n\t\t\t\t\t*scopes = append(*scopes, scope{i - tempNode.size, i})\n\t\t\t\t}\n\t\t\t\ttempNode = tempNode.fail", "\t\t\t\tif tempNode.isEnd {\n\t\t\t\t\t*scopes = append(*scopes, scope{i - tempNode.size, i})\n\t\t\t\t\tbreak\n\t\t\t\t}\n\t\t\t\ttempNode = tempNode.fail")
m("C05-queue-growth-copy", "C05", "algz/trie.go", "\t\t\tn := copy(newNodes, q.nodes[headPos:])\n\t\t\tcopy(newNodes[n:], q.nodes[:tailPos+1])", "\t\t\tn := copy(newNodes, q.nodes[headPos:])\n\t\t\tcopy(newNodes[n:], q.nodes[:tailPos])")
m("C06-merge-touching", "C06", "algz/trie.go", "\t\tif scopes[i].stop > scopes[i+1].start {", "\t\tif scopes[i].stop >= scopes[i+1].start {", "green")
m("C06-drop-tail", "C06", "algz/trie.go", "\t\tbuf.WriteString(repl)\n\t\tbegin = v.stop\n\t}\n\tbuf.WriteString(text[begin:])", "\t\tbuf.WriteString(repl)\n\t\tbegin = v.stop\n\t}\n\tif begin == 0 {\n\t\tbuf.WriteString(text[begin:])\n\t}")

# ---- C07 ------------------------------------------------------------------------------------------
m("C07-utf16-len-le", "C07", "strz/enc.go", "\t\tif len(src)-i < 6 {\n\t\t\tbreak\n\t\t}\n\n\t\tif src[i] != '\\\\' || src[i+1] != 'u' {\n\t\t\ti++\n\t\t\tcontinue\n\t\t}\n\n\t\tn1, j, ok", "\t\tif len(src)-i <= 6 {\n\t\t\tbreak\n\t\t}\n\n\t\tif src[i] != '\\\\' || src[i+1] != 'u' {\n\t\t\ti++\n\t\t\tcontinue\n\t\t}\n\n\t\tn1, j, ok")
m("C07-octal-no-flush", "C07", "strz/enc.go", "\t\tif f < i {\n\t\t\te += copy(dst[e:], src[f:i])\n\t\t}\n\t\tdst[e] = byte(n)\n\n\t\te++\n\t\ti += 4\n\t\tf = i\n\t}\n\n\tif f < len(src) {\n\t\te += copy(dst[e:], src[f:])\n\t}\n\n\treturn e\n}\n\n// HexFormat", "\t\tif f < i-1 {\n\t\t\te += copy(dst[e:], src[f:i])\n\t\t}\n\t\tdst[e] = byte(n)\n\n\t\te++\n\t\ti += 4\n\t\tf = i\n\t}\n\n\tif f < len(src) {\n\t\te += copy(dst[e:], src[f:])\n\t}\n\n\treturn e\n}\n\n// HexFormat")
m("C07-low-surrogate-first", "C07", "strz/enc.go", "\t\tif n1 >= 0xd800 && n1 < 0xdc00 {", "\t\tif n1 >= 0xd800 && n1 < 0xe000 {", "green")
m("C07-unicode-upper", "C07", "strz/enc.go", "\t\tappendUint(b[f:j], uint64(c), 16)\n\t\ttoUpper(b[f:j])\n\t\ti += size\n\t}\n\n\treturn b\n}\n\n// UnicodeParse", "\t\tappendUint(b[f:j], uint64(c), 16)\n\t\ti += size\n\t}\n\n\treturn b\n}\n\n// UnicodeParse")

# ---- C08 / C09 ------------------------------------------------------------------------------------
m("C08-enclen-aligned", "C08", "cryptz/aes.go", "return len(plainText) + aes.BlockSize - (len(plainText) & blockSizeMask)", "return (len(plainText) + blockSizeMask) &^ blockSizeMask")
m("C08-pad-last-byte-only", "C08", "cryptz/aes.go", "\tif !bytes.Equal(prePadPatterns[paddingLen], data[len(data)-paddingLen:]) {\n\t\treturn 0, errors.New(\"invalid padding bytes\")\n\t}\n", "")
m("C08-gcm-ignore-open-error", "C08", "cryptz/aes.go", "\t_, err = gcm.Open(dst[:0], nonce, cipherText, additionalData)\n\tif err != nil {\n\t\treturn fmt.Errorf(\"GCM Open error: %w\", err)\n\t}\n", "\t_, _ = gcm.Open(dst[:0], nonce, cipherText, additionalData)\n")
m("C08-pkcs7-full-block-rejected", "C08", "cryptz/aes.go", "\tif paddingLen <= 0 || paddingLen > blockSize {", "\tif paddingLen <= 0 || paddingLen >= blockSize {")
m("C09-no-magic-check", "C09", "cryptz/crypt.go", "\tif !bytes.Equal(cipherText[:8], fixedSaltHeader) {\n\t\treturn nil, errors.New(\"check cbc fixed header error\")\n\t}\n", "")
m("C09-cbc-min-len", "C09", "cryptz/crypt.go", "\tif len(cipherText) < 2*aes.BlockSize || len(cipherText)&blockSizeMask != 0 {", "\tif len(cipherText) < aes.BlockSize || len(cipherText)&blockSizeMask != 0 {", "green")
m("C09-nonce-offset-one-side", "C09", "cryptz/crypt.go", "\tnonce := cred[_KEY_LEN : _KEY_LEN+nonceSize]\n\n\tcipherText = cipherText[aes.BlockSize:]", "\tnonce := cred[_KEY_LEN+4 : _KEY_LEN+4+nonceSize]\n\n\tcipherText = cipherText[aes.BlockSize:]")
m("C09-kdf-no-chain", "C09", "cryptz/crypt.go", "\t\tif i > 0 {\n\t\t\tn = 16\n\t\t}", "\t\tif i > 1 {\n\t\t\tn = 16\n\t\t}")

# ---- C10 ------------------------------------------------------------------------------------------
m("C10-recap-wrapped-copy", "C10", "ringz/ring.go", "\t\tcopy(newValues[n:], r.values[:r.tail+1])", "\t\tcopy(newValues[n:], r.values[:r.tail])")
m("C10-roundup-exact-power", "C10", "ringz/sync.go", "\t\tif c&(c-1) > 0 {\n\t\t\tc = roundupPowOfTwo(c)\n\t\t}", "\t\tc = roundupPowOfTwo(c)")
m("C10-len-signed", "C10", "ringz/sync.go", "\tl := atomic.LoadUint32(&r.tail) - atomic.LoadUint32(&r.head)\n\tif l > r.cap {\n\t\treturn int(r.cap)\n\t}\n\n\treturn int(l)", "\tl := int(atomic.LoadUint32(&r.tail)) - int(atomic.LoadUint32(&r.head))\n\tif l > int(r.cap) || l < 0 {\n\t\treturn int(r.cap)\n\t}\n\n\treturn l")
m("C10-isfull-signed", "C10", "ringz/sync.go", "\treturn atomic.LoadUint32(&r.tail)-atomic.LoadUint32(&r.head) == r.cap", "\treturn int64(atomic.LoadUint32(&r.tail))-int64(atomic.LoadUint32(&r.head)) == int64(r.cap)")

# ---- C11 / C12 ------------------------------------------------------------------------------------
m("C11-push-no-nil-check", "C11", "listz/sync_list.go", "\t\tif next == nil && atomic.CompareAndSwapPointer(&tailNode.next, next, node) {", "\t\tif atomic.CompareAndSwapPointer(&tailNode.next, next, node) {")
m("C11-tail-cas", "C11", "listz/sync_list.go", "\t\t\tatomic.StorePointer(&l.tail, node)\n\t\t\treturn", "\t\t\tatomic.CompareAndSwapPointer(&l.tail, tail, node)\n\t\t\treturn", "green")
m("C11-plain-tail-load", "C11", "listz/sync_list.go", "\thead := atomic.LoadPointer(&l.head)\n\ttail := atomic.LoadPointer(&l.tail)\n", "\thead := atomic.LoadPointer(&l.head)\n\ttail := l.tail\n")
m("C11-pop-no-cas", "C11", "listz/sync_list.go", "\tif atomic.CompareAndSwapPointer(&l.head, head, next) {", "\tif atomic.StorePointer(&l.head, next); true {")
m("C12-setnx-check-then-lock", "C12", "mapz/safekv.go", "\tvar ok bool\n\ts.mu.Lock()\n\tif _, ok = s.entries[key]; !ok {\n\t\ts.entries[key] = value\n\t}\n\ts.mu.Unlock()\n\treturn !ok", "\tvar ok bool\n\ts.mu.RLock()\n\t_, ok = s.entries[key]\n\ts.mu.RUnlock()\n\tif !ok {\n\t\ts.mu.Lock()\n\t\ts.entries[key] = value\n\t\ts.mu.Unlock()\n\t}\n\treturn !ok")
m("C12-len-no-lock", "C12", "mapz/safekv.go", "\ts.mu.RLock()\n\tl := len(s.entries)\n\ts.mu.RUnlock()\n\treturn l", "\tl := len(s.entries)\n\treturn l")
m("C12-clear-no-lock", "C12", "mapz/safekv.go", "\ts.mu.Lock()\n\ts.entries = make(map[K]V, len(s.entries))\n\ts.mu.Unlock()", "\ts.entries = make(map[K]V, len(s.entries))")
m("C12-range-lock-per-element", "C12", "mapz/safekv.go", "\ts.mu.RLock()\n\tfor k, v := range s.entries {\n\t\tif !fn(k, v) {\n\t\t\tbreak\n\t\t}\n\t}\n\ts.mu.RUnlock()", "\tfor _, k := range s.Keys() {\n\t\tv, ok := s.Get(k)\n\t\tif ok && !fn(k, v) {\n\t\t\tbreak\n\t\t}\n\t}")

# ---- C13 / C14 ------------------------------------------------------------------------------------
m("C13-movebefore-no-self-guard", "C13", "listz/doubly_list.go", "\tif e.list != l || e == mark || mark.list != l {\n\t\treturn\n\t}\n\tl.move(e, mark.prev)", "\tif e.list != l || mark.list != l {\n\t\treturn\n\t}\n\tl.move(e, mark.prev)", "green")
m("C13-remove-keeps-list", "C13", "listz/doubly_list.go", "\te.prev = nil // avoid memory leaks\n\te.list = nil\n", "\te.prev = nil // avoid memory leaks\n")
m("C13-slist-remove-tail", "C13", "listz/singly_list.go", "\tif e == l.tail {\n\t\tl.tail = before\n\t}\n", "")
m("C13-slist-insert-clamp", "C13", "listz/singly_list.go", "\tif i >= l.len {\n\t\tl.PushBackNode(e)\n\t\treturn\n\t}", "\tif i > l.len {\n\t\tl.PushBackNode(e)\n\t\treturn\n\t}")
m("C14-prepend-copy-order", "C14", "slicez/flex.go", "\t\tcopy(f.Values[n1:], f.Values[:n2])\n\t\tcopy(f.Values, v)", "\t\tcopy(f.Values, v)\n\t\tcopy(f.Values[n1:], f.Values[:n2])")
m("C14-chunk-drop-tail", "C14", "slicez/slices.go", "\tif len(s) > start {\n\t\tchunks = append(chunks, s[start:])\n\t}\n\treturn chunks", "\tif len(s) > start+1 {\n\t\tchunks = append(chunks, s[start:])\n\t}\n\treturn chunks")
m("C14-inplace-overwrite", "C14", "slicez/slices.go", "\t\tif predicate(s[i]) {\n\t\t\ts[remain], s[i] = s[i], s[remain]\n\t\t\tremain++", "\t\tif predicate(s[i]) {\n\t\t\ts[remain] = s[i]\n\t\t\tremain++")
m("C14-shrink-threshold", "C14", "slicez/flex.go", "\t\tnewCap := len(f.Values) * 2\n\t\tif newCap < 8 {\n\t\t\tnewCap = 8\n\t\t}\n\n\t\tnewValues := make([]T, len(f.Values), newCap)", "\t\tnewCap := len(f.Values) * 2\n\t\tif newCap < 8 {\n\t\t\tnewCap = 8\n\t\t}\n\n\t\tnewValues := make([]T, len(f.Values)-len(f.Values)/9, newCap)")

# ---- C15 / C16 / C17 ------------------------------------------------------------------------------
m("C15-cutoff-gt", "C15", "strz/std_strconv.go", "\t\tif n >= cutoff {\n\t\t\t// n*base overflows\n\t\t\treturn maxVal, fmt.Errorf(\"strz.ParseUint: parsing %v value out of range\", s0)", "\t\tif n > cutoff {\n\t\t\t// n*base overflows\n\t\t\treturn maxVal, fmt.Errorf(\"strz.ParseUint: parsing %v value out of range\", s0)")
m("C15-underscore-trailing", "C15", "strz/std_strconv.go", "\treturn saw != '_'\n}", "\treturn true || saw != '_'\n}")
m("C15-hex-odd-first", "C15", "strz/std_hex.go", "\t\tif _, ok := fromHexChar(src[j-1]); !ok {\n\t\t\treturn i, fmt.Errorf(\"encoding/hex: invalid byte: %#U\", rune(src[j-1]))\n\t\t}\n\t\treturn i, hex.ErrLength", "\t\treturn i, hex.ErrLength")
m("C15-ipv4-parse8", "C15", "strz/enc.go", "\t\tn, _ := strconv.ParseInt(v, 10, 32)", "\t\tn, _ := strconv.ParseInt(v, 10, 8)")
m("C16-intersect-no-zero", "C16", "setz/bits.go", "\t\tif i >= len(other.set) {\n\t\t\tb.set[i] = 0\n\t\t\tcontinue\n\t\t}\n\t\tb.set[i] &= other.set[i]", "\t\tif i >= len(other.set) {\n\t\t\tbreak\n\t\t}\n\t\tb.set[i] &= other.set[i]")
m("C16-merge-no-recount", "C16", "setz/bits.go", "\tb.Bitmap.Merge(other.Bitmap)\n\tb.length = b.Bitmap.Len()", "\tb.Bitmap.Merge(other.Bitmap)\n\tb.length += other.length")
m("C16-dsz-iter-no-reset", "C16", "dsz/bits.go", "\t\tbi.i++\n\t\tbi.j = 0\n", "\t\tbi.i++\n\t\tbi.j = 1\n")
m("C16-diff-and", "C16", "setz/bits.go", "\t\tb.set[i] &= ^other.set[i]", "\t\tb.set[i] &= other.set[i]")
m("C17-sub-off-by-one", "C17", "strz/strs.go", "\t\t} else if begin >= 0 && start+length == count {\n\t\t\treturn s[begin:i]", "\t\t} else if begin >= 0 && start+length == count-1 {\n\t\t\treturn s[begin:i]")
m("C17-mask-endindex", "C17", "strz/strs.go", "\tif endIndex == 0 {\n\t\tendIndex = len(str)\n\t}\n", "")
m("C17-display-ge", "C17", "strz/strs.go", "\t\tif dpl > length {\n\t\t\treturn s[:i]", "\t\tif dpl >= length {\n\t\t\treturn s[:i]")
m("C17-snake-digit", "C17", "strz/strs.go", "\t\t\tif b >= 'A' && b <= 'Z' {\n\t\t\t\tif buf.Len() == 0 {\n\t\t\t\t\tbuf.Grow(len(str))\n\t\t\t\t}", "\t\t\tif b >= 'A' && b <= 'Y' {\n\t\t\t\tif buf.Len() == 0 {\n\t\t\t\t\tbuf.Grow(len(str))\n\t\t\t\t}")

# ---- C18 / C19 / C20 ------------------------------------------------------------------------------
m("C18-knapsack-ascending", "C18", "algz/dp.go", "\t\tfor i := maxWeight; i >= w; i-- {", "\t\tfor i := w; i <= maxWeight; i++ {")
m("C18-pool-put-before-copy", "C18", "algz/dp.go", "\t\t\tif ok && !breaker(oldSolver, newSolver) {\n\t\t\t\ttmpPool.Put(newSolver)\n\t\t\t\tcontinue\n\t\t\t}\n", "\t\t\tif ok && !breaker(oldSolver, newSolver) {\n\t\t\t\ttmpPool.Put(newSolver)\n\t\t\t\tcontinue\n\t\t\t}\n\t\t\tif ok {\n\t\t\t\ttmpPool.Put(oldSolver)\n\t\t\t}\n")
m("C18-bk-no-exclude", "C18", "algz/graph.go", "\t\tP = P[1:]\n\t\tX = append(X, v)", "\t\tP = P[1:]\n\t\t_ = v")
m("C18-overflow-keep-first", "C18", "algz/dp.go", "\t\t\t\tif !allowOverOnce || (overflow > 0 && newValue > overflow) {", "\t\t\t\tif !allowOverOnce || (overflow > 0 && newValue >= overflow) {", "green")
m("C19-panic-skips-cleanup", "C19", "goz/goz.go", "\t\t\t\tfmt.Println(buf.String())\n\t\t\t}\n\t\t}\n", "\t\t\t\tfmt.Println(buf.String())\n\t\t\t}\n\t\t\treturn\n\t\t}\n")
m("C19-done-order", "C19", "goz/goz.go", "\tl.w.Done()\n\t<-l.c", "\t<-l.c\n\tl.w.Done()", "green")
m("C19-default-limit-4", "C19", "goz/goz.go", "\t\tlimit = 3\n", "\t\tlimit = 4\n")
m("C19-token-in-goroutine", "C19", "goz/goz.go", "\tl.add()\n\n\tgo Recover(fn, l.panicHandler, l.done)", "\tgo func() {\n\t\tl.add()\n\t\tRecover(fn, l.panicHandler, l.done)\n\t}()")
m("C19-handler-gets-string", "C19", "goz/goz.go", "\t\t\tif panicFn != nil {\n\t\t\t\tpanicFn(p)\n\t\t\t} else {\n\t\t\t\tvar buf", "\t\t\tif panicFn != nil {\n\t\t\t\tpanicFn(\"recovered\")\n\t\t\t} else {\n\t\t\t\tvar buf")
m("C20-base32-lsb-first", "C20", "randz/id.go", "\tfor x, y := 0, len(b)-1; x < y; x, y = x+1, y-1 {\n\t\tb[x], b[y] = b[y], b[x]\n\t}\n", "")
m("C20-charmask-short", "C20", "randz/str.go", "\t\tcharIdxMask: 1<<bits - 1,", "\t\tcharIdxMask: 1<<(bits-1) - 1,", "green")
m("C20-count-le-boundary", "C20", "randz/count.go", "\t\tif diff < v.period {\n\t\t\treturn (diff-lastPeriod)/v.interval*multi + count\n\t\t}", "\t\tif diff <= v.period {\n\t\t\treturn (diff-lastPeriod)/v.interval*multi + count\n\t\t}")
m("C20-timeshift", "C20", "randz/id.go", "\t\ttimeShift: randBit,", "\t\ttimeShift: randBit - 1,")
