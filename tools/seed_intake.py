#!/usr/bin/env python3
"""Intake of a seeded change produced by an independent sub-agent (task brief: seeded/<id>/).

  tools/seed_intake.py C20 a [--tier quick]

Copies /tmp/seed_<P>/SEED/<x> to /verif/seeded/<P>-<x>/, then in a fresh scratch worktree of /repo:
applies the patch, builds, runs the touched packages' own tests, runs the demonstration with and
without the change, and finally runs ./check <P> against the changed tree. Writes meta.json.
"""
import json, os, re, shutil, subprocess, sys, tempfile, time
ROOT = os.path.dirname(os.path.dirname(os.path.abspath(__file__)))
ENV = dict(os.environ, GOFLAGS="-mod=mod", GOPROXY="off", GOSUMDB="off", GOTOOLCHAIN="local")


def sh(cmd, **kw):
    return subprocess.run(cmd, stdout=subprocess.PIPE, stderr=subprocess.STDOUT, text=True, **kw)


def main():
    pid, x = sys.argv[1], sys.argv[2]
    tier = "quick"
    if "--tier" in sys.argv:
        tier = sys.argv[sys.argv.index("--tier") + 1]
    src = "/tmp/seed_%s/SEED/%s" % (pid, x)
    name = "%s-%s" % (pid, x)
    if "--name" in sys.argv:
        name = sys.argv[sys.argv.index("--name") + 1]
    dst = os.path.join(ROOT, "seeded", name)
    if os.path.isdir(src):
        os.makedirs(dst, exist_ok=True)
        for f in os.listdir(src):
            if os.path.isfile(os.path.join(src, f)):
                shutil.copy(os.path.join(src, f), os.path.join(dst, f))
    patch = os.path.join(dst, "patch.diff")
    meta = {"property": pid, "variant": name, "source": "independent sub-agent given only the property text and a scratch worktree", "ran": []}
    touched = sorted(set(re.findall(r"^\+\+\+ b/(\S+)", open(patch).read(), re.M)))
    pkgs = sorted({"./" + os.path.dirname(f) + "/..." for f in touched})
    if "--all-tests" in sys.argv:
        pkgs = ["./..."]  # changes in a dependency: the whole module's existing tests must still pass
    meta["touched_files"] = touched
    meta["packages"] = pkgs
    wt = tempfile.mkdtemp(prefix="chk_")
    os.rmdir(wt)
    try:
        sh(["git", "-C", "/repo", "worktree", "add", "--detach", "-f", wt, "HEAD"])
        # demonstration location: a *_test.go file goes into the directory of its package
        demos = [f for f in os.listdir(dst) if f.endswith(".go")]
        placed = []
        for d in demos:
            body = open(os.path.join(dst, d)).read()
            pk = re.search(r"^package (\w+)", body, re.M).group(1)
            if pk == "main":
                os.makedirs(os.path.join(wt, "zzdemo"), exist_ok=True)
                tgt = os.path.join(wt, "zzdemo", "main.go")
            else:
                pkdir = pk[:-5] if pk.endswith("_test") else pk
                tgt = os.path.join(wt, pkdir, "zz_seed_" + (d if d.endswith("_test.go") else d[:-3] + "_test.go"))
            os.makedirs(os.path.dirname(tgt), exist_ok=True)
            shutil.copy(os.path.join(dst, d), tgt)
            placed.append(tgt)
        demo_pkgs = sorted({"./" + os.path.relpath(os.path.dirname(p), wt) + "/" for p in placed})
        m = re.search(r"-run[= ]+['\"]?([\w|^$()]+)", open(os.path.join(dst, "README.md")).read()) if os.path.exists(os.path.join(dst, "README.md")) else None
        runarg = ["-run", "Seed|Demo|seed|demo"]
        names = re.findall(r"^func (Test\w+)\(", "\n".join(open(p).read() for p in placed), re.M)
        if names:
            runarg = ["-run", "^(" + "|".join(names) + ")$"]

        denv = dict(ENV)
        for i, a in enumerate(sys.argv):
            if a == "--demo-env":  # e.g. --demo-env GOARCH=386 / GOMAXPROCS=1: the environment the demonstration needs
                k, v = sys.argv[i + 1].split("=", 1)
                denv[k] = v
                meta.setdefault("demo_env", {})[k] = v

        def demo():
            if any(p.endswith("main.go") for p in placed):
                r = sh(["go", "run", "./zzdemo"], cwd=wt, env=denv)
            else:
                r = sh(["go", "test", "-vet=off", "-count=1"] + (["-race"] if "--race-demo" in sys.argv else []) + (["-tags", sys.argv[sys.argv.index("--demo-tags") + 1]] if "--demo-tags" in sys.argv else []) + runarg + demo_pkgs, cwd=wt, env=denv)
            return r.returncode, r.stdout[-1500:]
        rc0, out0 = demo()
        meta["demo_without_change"] = "pass" if rc0 == 0 else "FAIL"
        meta["ran"].append("demonstration on the pristine tree: rc=%d" % rc0)
        r = sh(["git", "-C", wt, "apply", patch])
        if r.returncode != 0:
            meta["status"] = "patch does not apply: " + r.stdout[-300:]
            return finish(dst, meta)
        r = sh(["go", "build", "./..."], cwd=wt, env=ENV)
        meta["builds"] = r.returncode == 0
        rc1, out1 = demo()
        meta["demo_with_change"] = "fails (as intended)" if rc1 != 0 else "PASSES (change not demonstrated)"
        meta["demo_output_with_change"] = out1[-600:]
        meta["ran"].append("demonstration with the change: rc=%d" % rc1)
        for p in placed:
            os.remove(p)
        t0 = time.time()
        r = sh(["go", "test", "-vet=off", "-count=1", "-timeout", "180s"] + pkgs, cwd=wt, env=ENV)
        meta["existing_tests_with_change"] = "pass" if r.returncode == 0 else "FAIL: " + r.stdout[-400:]
        meta["ran"].append("go test -vet=off -count=1 %s with the change: rc=%d (%.0fs)" % (" ".join(pkgs), r.returncode, time.time() - t0))
        t0 = time.time()
        r = sh([os.path.join(ROOT, "check"), pid, "--tier", tier], cwd=ROOT, env=dict(os.environ, VERIF_REPO=wt, VERIF_SEED="1"))
        viol = [l for l in r.stdout.splitlines() if l.startswith("  violation detail") or l.startswith("VIOLATION")]
        meta["check_tier"] = tier
        meta["check_rc"] = r.returncode
        meta["check_wall_s"] = round(time.time() - t0, 1)
        meta["check_result"] = {0: "MISSED (check stayed green)", 1: "caught", 2: "no verdict"}.get(r.returncode, str(r.returncode))
        meta["check_detail"] = "\n".join(viol[:4])[:700] if viol else r.stdout[-500:]
        meta["ran"].append("VERIF_REPO=<worktree with the change> ./check %s --tier %s: rc=%d" % (pid, tier, r.returncode))
        shutil.rmtree(os.path.join(ROOT, "out", "replays", pid), ignore_errors=True)
        return finish(dst, meta)
    finally:
        sh(["git", "-C", "/repo", "worktree", "remove", "--force", wt])
        shutil.rmtree(wt, ignore_errors=True)


def finish(dst, meta):
    old = {}
    mp = os.path.join(dst, "meta.json")
    if os.path.exists(mp):
        old = json.load(open(mp))
    for k in ("needs_to_manifest", "breaks"):
        if k in old:
            meta[k] = old[k]
    json.dump(meta, open(mp, "w"), indent=1)
    print("%s (%s): builds=%s own_tests=%s demo(with)=%s demo(without)=%s check=%s (%ss)\n   %s" % (
        meta["property"], meta["variant"], meta.get("builds"), str(meta.get("existing_tests_with_change"))[:20], meta.get("demo_with_change"), meta.get("demo_without_change"),
        meta.get("check_result"), meta.get("check_wall_s"), str(meta.get("check_detail", ""))[:300].replace("\n", "\n   ")))


if __name__ == "__main__":
    main()
