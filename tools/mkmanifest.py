#!/usr/bin/env python3
"""Regenerates /verif/MANIFEST.json from checks_config.py + manifest_text.py."""
import json, os, sys
ROOT = os.path.dirname(os.path.dirname(os.path.abspath(__file__)))
sys.path.insert(0, ROOT)
from checks_config import PROPS
from manifest_text import TEXT, ENGINES, NOTES

ids = [json.loads(l)["id"] for l in open(os.path.join(ROOT, "properties.jsonl"))]
checks, na = [], []
for pid in ids:
    if pid in PROPS and pid in TEXT:
        t = TEXT[pid]
        checks.append({
            "property_id": pid,
            "quick_cmd": "./check %s --tier quick" % pid,
            "thorough_cmd": "./check %s --tier thorough" % pid,
            "evidence_file": "/verif/evidence/%s.json" % pid,
            "replay_cmd_template": "./check %s --replay {path}" % pid,
            "engine": t["engine"],
            "level_claimed": {"category": "exploration", "text": t["level"], "design_ref": t["ref"]},
            "level_note": t["note"],
            "technique": t["technique"],
        })
    else:
        na.append({"property_id": pid, "reason": "check not built yet in this revision of /verif (work in progress; planned per DESIGN.md §4)"})
m = {
    "version": 1,
    "setup_cmd": "./check setup",
    "hooks": {
        "guard": "verif",
        "enable": "no source hooks: the schedule-controlling shim is injected at build time with `go test -overlay` (tag `sched` selects the harness side); /repo is built as it is",
        "baseline_off_cmd": "cd /repo && go test -vet=off -count=1 ./...",
        "source_commits": [],
        "add_only": True,
    },
    "engines": ENGINES,
    "checks": checks,
    "notes": NOTES,
    "not_applicable": na,
}
json.dump(m, open(os.path.join(ROOT, "MANIFEST.json"), "w"), indent=1)
print("checks:", len(checks), "not_applicable:", len(na))
