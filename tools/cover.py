#!/usr/bin/env python3
"""Statement coverage of /repo reached by the generated cases of one property's checks (a measurement of
what the generators actually reach, DESIGN §6; not part of any verdict).

  tools/cover.py C14 [--scale 1] [--all-files]

Builds the property's plain-mode test binary with -cover -coverpkg=<golib>/..., runs every plain job of the
quick tier once (shard 0) and prints, for the library package(s) the property is anchored in, every function
that is not fully covered together with its uncovered source lines. Output also goes to out/coverage/<ID>.txt.
"""
import os, re, subprocess, sys, tempfile, shutil
ROOT = os.path.dirname(os.path.dirname(os.path.abspath(__file__)))
sys.path.insert(0, ROOT)
from checks_config import PROPS  # noqa: E402

REPO = os.environ.get("VERIF_REPO", "/repo")
HARNESS = os.path.join(ROOT, "harness")
ENV = dict(os.environ, GOFLAGS="-mod=mod", GOPROXY="off", GOSUMDB="off", GOTOOLCHAIN="local")
MOD = "github.com/welllog/golib"


def sh(cmd, **kw):
    return subprocess.run(cmd, stdout=subprocess.PIPE, stderr=subprocess.STDOUT, text=True, **kw)


def main():
    pid = sys.argv[1]
    scale = sys.argv[sys.argv.index("--scale") + 1] if "--scale" in sys.argv else "1"
    cfg = PROPS[pid]
    pkg = cfg["pkg"]
    mode = sys.argv[sys.argv.index("--mode") + 1] if "--mode" in sys.argv else "plain"  # plain or race
    scratch = tempfile.mkdtemp(prefix="verif_cov_")
    try:
        src = open(os.path.join(HARNESS, "go.mod")).read().replace("=> /repo", "=> " + REPO)
        mf = os.path.join(scratch, "go.mod")
        open(mf, "w").write(src)
        shutil.copy(os.path.join(HARNESS, "go.sum"), os.path.join(scratch, "go.sum"))
        binp = os.path.join(scratch, "bin")
        r = sh(["go", "test", "-c", "-modfile", mf, "-vet=off", "-cover", "-coverpkg=" + MOD + "/...", "-o", binp] + (["-race"] if mode == "race" else []) + ["./" + pkg], cwd=HARNESS, env=ENV)
        if r.returncode != 0:
            print(r.stdout)
            return 2
        profiles = []
        seen = set()
        for job in cfg["quick"]["jobs"]:
            if job["mode"] != mode or job["run"] in seen:
                continue
            seen.add(job["run"])
            prof = os.path.join(scratch, "cov%d.out" % len(profiles))
            env = dict(ENV, VERIF_SEED="1", VERIF_SHARD="0", VERIF_SCALE=scale, VERIF_MODE=mode, VERIF_TIER="quick", VERIF_PROPERTY=pid,
                       VERIF_EV_OUT=os.path.join(scratch, "ev.json"), VERIF_REPLAY_OUT=os.path.join(scratch, "rp"))
            env.update({k: str(v) for k, v in job.get("env", {}).items()})
            os.makedirs(os.path.join(scratch, "rp"), exist_ok=True)
            r = sh([binp, "-test.run", job["run"], "-test.count=1", "-test.coverprofile=" + prof] + job.get("args", []), cwd=scratch, env=env)
            if r.returncode != 0:
                print("job %s failed:\n%s" % (job["name"], r.stdout[-2000:]))
            if os.path.exists(prof):
                profiles.append(prof)
        # merge: a block is covered when any profile covers it
        blocks = {}
        for p in profiles:
            for line in open(p):
                m = re.match(r"(\S+):(\d+)\.(\d+),(\d+)\.(\d+) (\d+) (\d+)", line)
                if m:
                    k = m.group(1, 2, 3, 4, 5, 6)
                    blocks[k] = blocks.get(k, 0) + int(m.group(7))
        merged = os.path.join(scratch, "merged.out")
        with open(merged, "w") as f:
            f.write("mode: count\n")
            for k, c in sorted(blocks.items()):
                f.write("%s:%s.%s,%s.%s %s %d\n" % (k + (c,)))
        r = sh(["go", "tool", "cover", "-modfile", mf, "-func", merged], cwd=HARNESS, env=ENV) if False else sh(["go", "tool", "cover", "-func", merged], cwd=REPO, env=ENV)
        if "--debug" in sys.argv:
            print(len(profiles), len(blocks), r.stdout[:1500])
        # packages of interest: those with any covered block
        touched = {}
        for k, c in blocks.items():
            d = os.path.dirname(k[0])
            if c > 0:
                touched[d] = touched.get(d, 0) + 1
        main_pkgs = [d for d, n in touched.items() if n >= 5] if "--all-files" not in sys.argv else list(touched)
        out = []
        for line in r.stdout.splitlines():
            m = re.match(r"(\S+):(\d+):\s+(\S+)\s+([\d.]+)%", line)
            if m and os.path.dirname(m.group(1)) in main_pkgs and float(m.group(4)) < 100.0:
                out.append("%-60s %-28s %s%%" % (m.group(1).replace(MOD + "/", "") + ":" + m.group(2), m.group(3), m.group(4)))
        # uncovered lines
        unc = {}
        for k, c in blocks.items():
            if c == 0 and os.path.dirname(k[0]) in main_pkgs:
                unc.setdefault(k[0], []).append((int(k[1]), int(k[3])))
        text = ["# %s: functions of the exercised packages that are not fully covered (plain jobs, quick tier, shard 0, scale %s)" % (pid, scale)] + out
        text.append("# uncovered statement blocks (file: line ranges)")
        for f in sorted(unc):
            rs = sorted(set(unc[f]))
            text.append("%s: %s" % (f.replace(MOD + "/", ""), " ".join("%d-%d" % x if x[0] != x[1] else str(x[0]) for x in rs)))
        os.makedirs(os.path.join(ROOT, "out", "coverage"), exist_ok=True)
        open(os.path.join(ROOT, "out", "coverage", pid + ".txt"), "w").write("\n".join(text) + "\n")
        print("\n".join(text))
        return 0
    finally:
        shutil.rmtree(scratch, ignore_errors=True)


if __name__ == "__main__":
    sys.exit(main())
